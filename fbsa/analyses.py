"""Analyses on top of the model/CFG (DESIGN E5): copy propagation of
locals, provenance (origins), cache-instance roles, locksets.
"""
import ast
import copy as _copy

from .model import Func, AnalysisError


def dump(e):
    return ast.dump(e, annotate_fields=False, include_attributes=False)


def same(a, b):
    return dump(a) == dump(b)


def attr_chain(e):
    """['self', '_old_cache'] for self._old_cache; None if not a pure chain."""
    parts = []
    while isinstance(e, ast.Attribute):
        parts.append(e.attr)
        e = e.value
    if isinstance(e, ast.Name):
        parts.append(e.id)
        return list(reversed(parts))
    return None


class Helper:
    def __init__(self, engine):
        self.E = engine
        self.prog = engine.prog
        self.cfgs = engine.cfgs
        self._call_node = {}
        self._expr_node = {}
        self._roles = None
        self._entry_locks = None
        self._mutations = {}

    # ------------------------------------------------------------------
    # locating the CFG node that evaluates an expression
    def node_of(self, func, expr):
        """CFG nodes (all finaliser copies) whose evaluated expressions
        contain ``expr``."""
        q = func.qualname
        if q not in self._expr_node:
            m = {}
            cfg = self.cfgs.get(func)
            for cn in cfg.nodes:
                for e in cn.exprs:
                    for sub in ast.walk(e):
                        m.setdefault(id(sub), []).append(cn)
                if cn.kind in ('for_next',):
                    for sub in ast.walk(cn.ast.target):
                        m.setdefault(id(sub), []).append(cn)
            self._expr_node[q] = m
        return self._expr_node[q].get(id(expr), [])

    # ------------------------------------------------------------------
    # copy propagation: replace locals that have exactly one reaching
    # definition (a plain assignment) by the assigned expression
    def subst(self, expr, func, cn, depth=6):
        cfg = self.cfgs.get(func)
        rd = cfg.reaching_defs()[cn.id]

        def go(e, d):
            if isinstance(e, ast.Name) and isinstance(e.ctx, ast.Load):
                defs = rd.get(e.id)
                if defs and len(defs) == 1 and d > 0:
                    (nid,) = tuple(defs)
                    v = cfg.def_value(nid, e.id)
                    if isinstance(v, tuple) and v and v[0] == 'unpack' and \
                            isinstance(v[1], (ast.Tuple, ast.List)) and \
                            isinstance(v[2], int) and v[2] < len(
                                v[1].elts) and not any(
                                isinstance(x, ast.Starred)
                                for x in v[1].elts):
                        # ``a, b = (x, y)``: element-wise
                        v = v[1].elts[v[2]]
                    if isinstance(v, ast.AST):
                        dn = cfg.nodes[nid]
                        return self.subst(v, func, dn, d - 1)
                return e
            if isinstance(e, ast.Lambda):
                return e
            new = _copy.copy(e)
            for field, val in ast.iter_fields(e):
                if isinstance(val, ast.AST):
                    setattr(new, field, go(val, d))
                elif isinstance(val, list):
                    setattr(new, field, [
                        go(x, d) if isinstance(x, ast.AST) else x
                        for x in val])
            return new
        return go(expr, depth)

    def subst_callers(self, expr, func, cn, depth=0):
        """Copy propagation that also resolves parameters of a private
        helper when every call site binds them to the same expression (in
        the caller's own terms): ``filename`` handed down by callers that
        all pass ``self._operation.filename``."""
        import copy as _c
        e = self.subst(expr, func, cn)
        if depth > 4 or func.is_public:
            return e
        params = set(func.params)
        used = {n.id for n in ast.walk(e) if isinstance(n, ast.Name)} & params
        if not used:
            return e
        sites = self.prog.callers().get(func.qualname, [])
        if not sites:
            return e
        binding = {}
        for p in used:
            vals = {}
            for caller, call in sites:
                a = self.prog.bind_args(call, func).get(p)
                if a is None or isinstance(a, list):
                    return e
                ccn = self.node_of(caller, call)
                if not ccn:
                    return e
                r = self.subst_callers(a, caller, ccn[0], depth + 1)
                vals[ast.dump(r)] = r
            if len(vals) != 1:
                return e
            binding[p] = next(iter(vals.values()))

        class T(ast.NodeTransformer):
            def visit_Name(self_, n):
                a = binding.get(n.id)
                if isinstance(a, ast.AST) and isinstance(n.ctx, ast.Load):
                    return a
                return n
        return T().visit(_c.deepcopy(e))

    def subst_frames(self, expr, sn):
        """Copy propagation like ``subst``, continued through the inlining
        context of supergraph node ``sn``: a parameter of an inlined helper
        is replaced by the argument at the call site (and the helper's
        ``self`` by the receiver), then propagated in the caller, and so on
        up to the root frame."""
        import copy as _c
        e = self.subst(expr, sn.func, sn.cn)
        fr = sn.frame
        for _ in range(8):
            if fr is None or fr.site is None or fr.site.call is None:
                break
            g = fr.func
            names = {n.id for n in ast.walk(e) if isinstance(n, ast.Name)}
            params = set(g.all_param_names())
            if g.self_name:
                params.add(g.self_name)
            if not (names & params):
                break
            site = fr.site
            binding = dict(self.prog.bind_args(site.call, g))
            if g.self_name and isinstance(site.call.func, ast.Attribute) \
                    and g.has_self:
                binding[g.self_name] = site.call.func.value
            # defaults of parameters that were not passed
            for pn, dv in g.defaults.items():
                binding.setdefault(pn, dv)

            class T(ast.NodeTransformer):
                def visit_Name(self_, n):
                    a = binding.get(n.id)
                    if isinstance(a, ast.AST) and isinstance(
                            n.ctx, ast.Load):
                        return a
                    return n
            e = T().visit(_c.deepcopy(e))
            e = self.subst(e, site.func, site.cn)
            fr = fr.parent
        return e

    # ------------------------------------------------------------------
    # roles of Cache instances: 'old' (immutable) / 'new' (mutable)
    def _factory_flag(self, call, func, env, depth=0):
        """Evaluate the is_mutable flag of the Cache built by this call:
        True / False / None (unknown)."""
        if depth > 6:
            return None
        vals = set()
        for g in self.prog.resolve_call(call, func):
            if not isinstance(g, Func):
                return None
            binding = self.prog.bind_args(call, g)
            genv = {}
            for p, a in binding.items():
                if isinstance(a, ast.Constant):
                    genv[p] = a.value
                elif isinstance(a, ast.Name) and a.id in env:
                    genv[p] = env[a.id]
            if g.is_ctor_call:
                flagp = None
                for p in g.params:
                    if 'mutable' in p:
                        flagp = p
                if flagp is None or flagp not in genv:
                    return None
                vals.add(bool(genv[flagp]))
                continue
            for n in ast.walk(g.node):
                if isinstance(n, ast.Return) and isinstance(n.value, ast.Call):
                    vals.add(self._factory_flag(n.value, g, genv, depth + 1))
                elif isinstance(n, ast.Return):
                    return None
        if len(vals) == 1:
            return vals.pop()
        return None

    def cache_class(self):
        c = [n for n in self.prog.classes
             if any('mutable' in p for p in (
                 self.prog.lookup_method(n, '__init__').params
                 if self.prog.lookup_method(n, '__init__') else []))]
        if len(c) != 1:
            raise AnalysisError('cannot identify the cache class: %r' % c)
        return c[0]

    def roles(self):
        """(class, attr) -> set of roles {'old','new'} for attributes that
        hold cache instances; discovered from constructor wiring."""
        if self._roles is not None:
            return self._roles
        prog = self.prog
        cache = self.cache_class()
        roles = {}
        for _ in range(8):
            changed = False
            for cname, cls in prog.classes.items():
                init = prog.lookup_method(cname, '__init__')
                if init is None:
                    continue
                p2a = {}
                for n in ast.walk(init.node):
                    if (isinstance(n, ast.Assign) and
                            isinstance(n.value, ast.Name) and
                            n.value.id in init.params):
                        for t in n.targets:
                            if (isinstance(t, ast.Attribute) and
                                    isinstance(t.value, ast.Name) and
                                    t.value.id == init.self_name):
                                p2a[n.value.id] = t.attr
                # attributes initialised from an expression that is not a
                # bare parameter (``self._old_cache = context.old_cache``)
                for n in ast.walk(init.node):
                    if not (isinstance(n, ast.Assign) and not (
                            isinstance(n.value, ast.Name) and
                            n.value.id in init.params)):
                        continue
                    if cache not in prog.type_of(n.value, init):
                        continue
                    for t in n.targets:
                        if (isinstance(t, ast.Attribute) and
                                isinstance(t.value, ast.Name) and
                                t.value.id == init.self_name):
                            for cn in self.node_of(init, n)[:1]:
                                r = self.expr_roles(n.value, init, cn, roles)
                                r = r - {'unknown'} if _ < 7 else r
                                s = roles.setdefault((cname, t.attr), set())
                                if not r <= s:
                                    s |= r
                                    changed = True
                for caller, call in prog.callers().get(init.qualname, []):
                    binding = prog.bind_args(call, init)
                    for p, a in binding.items():
                        if p not in p2a or isinstance(a, list):
                            continue
                        if cache not in prog.type_of(a, caller):
                            continue
                        for cn in self.node_of(caller, call):
                            r = self.expr_roles(a, caller, cn, roles)
                            key = (cname, p2a[p])
                            s = roles.setdefault(key, set())
                            if not r <= s:
                                s |= r
                                changed = True
            if not changed:
                break
        self._roles = roles
        return roles

    def expr_roles(self, e, func, cn, roles=None, _seen=None):
        """Roles of a cache-typed expression at CFG node cn."""
        if roles is None:
            roles = self.roles()
        cfg = self.cfgs.get(func)
        out = set()
        if _seen is None:
            _seen = set()
        ts = self.prog.type_of(e, func)
        if ts and self.cache_class() not in ts and not isinstance(e, ast.Call):
            return {'not-a-cache'}
        if isinstance(e, ast.Name):
            k = (func.qualname, e.id)
            if k in _seen:
                return out
            _seen.add(k)
            if e.id == func.self_name and func.cls == self.cache_class():
                # the receiver at every call site of this method
                got = False
                for caller, call in self.prog.callers().get(
                        func.qualname, []):
                    if isinstance(call.func, ast.Attribute):
                        for ccn in self.node_of(caller, call)[:1]:
                            out |= self.expr_roles(call.func.value, caller,
                                                   ccn, roles, _seen)
                            got = True
                return out if got else {'unknown'}
        if isinstance(e, ast.Call):
            fl = self._factory_flag(e, func, {})
            if fl is True:
                out.add('new')
            elif fl is False:
                out.add('old')
            else:
                # a helper that returns a cache built elsewhere: the roles
                # of what it returns
                got = False
                for g in self.prog.resolve_call(e, func):
                    if isinstance(g, Func) and not g.is_ctor_call:
                        k = ('ret', g.qualname)
                        if k in _seen:
                            continue
                        _seen.add(k)
                        gcfg = self.cfgs.get(g)
                        for rn in gcfg.nodes:
                            if rn.kind == 'return' and rn.ast.value is not \
                                    None and rn.polarity == 'N':
                                out |= self.expr_roles(
                                    rn.ast.value, g, rn, roles, _seen)
                                got = True
                if not got:
                    out.add('unknown')
            return out
        if isinstance(e, ast.Attribute):
            for rt in self.prog.type_of(e.value, func):
                for c in self.prog.mro(rt) if rt in self.prog.classes else []:
                    out |= roles.get((c, e.attr), set())
            return out
        if isinstance(e, ast.Name):
            rd = cfg.reaching_defs()[cn.id].get(e.id, set())
            for nid in rd:
                v = cfg.def_value(nid, e.id)
                if isinstance(v, ast.AST):
                    out |= self.expr_roles(v, func, cfg.nodes[nid], roles, _seen)
                elif v[0] == 'param':
                    got = False
                    for caller, call in self.prog.callers().get(
                            func.qualname, []):
                        a = self.prog.bind_args(call, func).get(e.id)
                        if a is None or isinstance(a, list):
                            continue
                        for ccn in self.node_of(caller, call):
                            out |= self.expr_roles(a, caller, ccn, roles, _seen)
                            got = True
                    if not got:
                        out.add('unknown')
                else:
                    out.add('unknown')
            return out
        out.add('unknown')
        return out

    def role_attrs(self, cname, role):
        return sorted(a for (c, a), r in self.roles().items()
                      if c == cname and r == {role})

    # ------------------------------------------------------------------
    # locks
    def lock_attrs(self):
        """(class, attr) of every attribute assigned threading.Lock() in a
        constructor."""
        out = []
        for (c, a), ts in self.prog.attr_types.items():
            if 'ext:Lock' in ts:
                out.append((c, a))
        return sorted(out)

    def lock_of_item(self, item, func):
        """(class, attr) if the with-item acquires a lock attribute."""
        e = item.context_expr
        if isinstance(e, ast.Attribute):
            ts = self.prog.type_of(e, func)
            if 'ext:Lock' in ts:
                for rt in self.prog.type_of(e.value, func):
                    for c in self.prog.mro(rt) if rt in self.prog.classes \
                            else []:
                        if 'ext:Lock' in self.prog.attr_types.get(
                                (c, e.attr), set()):
                            return (c, e.attr)
        return None

    def syntactic_locks(self, cn, func):
        return [lk for lk in (self.lock_of_item(it, func)
                              for it in cn.with_stack) if lk]

    def entry_locksets(self):
        """qualname -> frozenset of locks held at every call site (private
        functions); public functions and constructors start empty."""
        if self._entry_locks is not None:
            return self._entry_locks
        prog = self.prog
        TOP = None
        ent = {}
        for q, f in prog.funcs.items():
            ent[q] = TOP
        callers = prog.callers()
        for q, f in prog.funcs.items():
            if f.is_public or q not in callers or f.name.startswith('__'):
                ent[q] = frozenset()
        # dynamic/implicit entry points
        changed = True
        it = 0
        while changed and it < 50:
            changed = False
            it += 1
            for q, f in prog.funcs.items():
                if ent[q] == frozenset() and (f.is_public or q not in callers):
                    continue
                acc = TOP
                for caller, call in callers.get(q, []):
                    ce = ent[caller.qualname]
                    if ce is TOP:
                        continue
                    for cn in self.node_of(caller, call):
                        held = frozenset(ce) | frozenset(
                            self.syntactic_locks(cn, caller))
                        acc = held if acc is TOP else (acc & held)
                if acc is not TOP and acc != ent[q]:
                    ent[q] = acc
                    changed = True
        for q in ent:
            if ent[q] is TOP:
                ent[q] = frozenset()
        self._entry_locks = ent
        return ent

    def locks_at(self, sg, sn):
        """Locks held at a supergraph node (root's entry lockset plus every
        enclosing ``with lock`` through the inlining context)."""
        held = set(self.entry_locksets().get(sg.root.qualname, ()))
        for it, f in sg.with_items(sn):
            lk = self.lock_of_item(it, f)
            if lk:
                held.add(lk)
        return held

    # ------------------------------------------------------------------
    # provenance
    TRANSPARENT = {
        'builtins.list', 'builtins.set', 'builtins.sorted',
        'builtins.reversed', 'builtins.tuple', 'builtins.str',
        'builtins.frozenset', 'builtins.iter', 'builtins.enumerate',
        'os.path.normcase', 'os.path.join', 'os.path.dirname',
        'os.path.abspath', 'os.path.normpath', 'os.fsdecode',
        'os.path.basename', 'os.path.split', 'os.path.realpath',
        'builtins.zip', 'builtins.filter', 'builtins.map',
        'itertools.chain', 'itertools.chain.from_iterable',
        'builtins.dict', 'builtins.divmod',
    }

    def container_writes(self, func):
        """name -> list of argument expressions added to the container
        bound to that local (x.append(e), x.add(e), x.update(e), x += e)."""
        q = func.qualname
        if q not in self._mutations:
            m = {}
            for n in ast.walk(func.node):
                if (isinstance(n, ast.Call) and
                        isinstance(n.func, ast.Attribute) and
                        isinstance(n.func.value, ast.Name) and
                        n.func.attr in ('append', 'add', 'update', 'extend',
                                        'insert', 'appendleft')):
                    m.setdefault(n.func.value.id, []).extend(n.args)
                elif (isinstance(n, ast.AugAssign) and
                      isinstance(n.target, ast.Name)):
                    m.setdefault(n.target.id, []).append(n.value)
            self._mutations[q] = m
        return self._mutations[q]

    def origins(self, expr, func, cn, stop=None, env=None, depth=0,
                seen=None):
        """Backward slice: the set of origin descriptors an expression's
        value may come from.  Descriptors:
          ('api_param', qualname, name)   parameter of a public function
          ('param', qualname, name)       parameter with no internal caller
          ('call', name, where)           result of a call kept as origin
          ('attr', class, attr)           instance attribute
          ('field', attr)                 attribute of a non-package value
          ('const', repr)   ('exc',)   ('unknown', text)
        ``stop(callee_name)`` says which callees are origins themselves;
        other package functions are looked through (their returns), and
        transparent builtins/path functions pass their arguments' origins.
        """
        if seen is None:
            seen = set()
        if depth > 25:
            return {('unknown', 'depth')}
        prog = self.prog
        cfg = self.cfgs.get(func)
        out = set()
        e = expr
        if isinstance(e, ast.Constant):
            return {('const', repr(e.value))}
        if isinstance(e, ast.Name):
            if env and e.id in env:
                return set(env[e.id])
            if e.id == func.self_name:
                return {('self', func.cls)}
            key = (func.qualname, cn.id, e.id)
            if key in seen:
                return set()
            seen = seen | {key}
            rd = cfg.reaching_defs()[cn.id].get(e.id)
            if not rd:
                d = prog.dotted(e, func)
                return {('global', d or e.id)}
            for nid in rd:
                v = cfg.def_value(nid, e.id)
                dn = cfg.nodes[nid]
                if isinstance(v, ast.AST):
                    out |= self.origins(v, func, dn, stop, env, depth + 1,
                                        seen)
                elif v[0] == 'param':
                    out |= self._param_origins(func, e.id, stop, depth, seen)
                elif v[0] == 'unpack' and isinstance(v[1], ast.Tuple) and \
                        v[2] < len(v[1].elts):
                    out |= self.origins(v[1].elts[v[2]], func, dn, stop, env,
                                        depth + 1, seen)
                elif v[0] == 'unpack' and isinstance(v[1], ast.Call) and \
                        self._tuple_returns(v[1], func, v[2]):
                    for g, rn, elt in self._tuple_returns(v[1], func, v[2]):
                        out |= self.origins(elt, g, rn, stop, None,
                                            depth + 1, seen)
                elif v[0] in ('iter', 'with', 'unpack'):
                    out |= self.origins(v[1], func, dn, stop, env, depth + 1,
                                        seen)
                elif v[0] == 'aug':
                    out |= self.origins(v[1].value, func, dn, stop, env,
                                        depth + 1, seen)
                    out |= {('aug', e.id)}
                elif v[0] == 'exc':
                    out.add(('exc',))
                else:
                    out.add(('unknown', e.id))
            for a in self.container_writes(func).get(e.id, []):
                for an in self.node_of(func, a)[:1]:
                    out |= self.origins(a, func, an, stop, env, depth + 1,
                                        seen)
            return out
        if isinstance(e, ast.Attribute):
            ch = attr_chain(e)
            d = prog.dotted(e, func)
            if d is not None:
                cv = prog.const_value(e, func)
                if cv is not None:
                    return {('const', repr(cv.value))}   # a named literal
                return {('global', d)}
            rts = prog.type_of(e.value, func)
            if self._value_object_field(rts, e.attr):
                # a namedtuple-like value object is as transparent as the
                # tuple it replaces
                return self.origins(e.value, func, cn, stop, env, depth + 1,
                                    seen)
            pk = [c for rt in rts if rt in prog.classes
                  for c in prog.mro(rt)
                  if (c, e.attr) in prog.attr_types or
                  self._has_attr_store(c, e.attr)]
            if pk:
                return {('attr', pk[0], e.attr)}
            return {('field', e.attr)}
        if isinstance(e, ast.Call):
            tg = prog.resolve_call(e, func)
            for g in tg:
                name = g.qualname if isinstance(g, Func) else g
                if stop is not None and stop(name):
                    out.add(('call', name, prog.loc(func, e)))
                elif isinstance(g, Func):
                    if g.is_ctor_call and getattr(
                            prog.classes.get(g.cls_for_ctor), 'synthetic',
                            False):
                        for a in list(e.args) + [k.value for k in e.keywords]:
                            out |= self.origins(a, func, cn, stop, env,
                                                depth + 1, seen)
                        continue
                    if g.is_ctor_call:
                        out.add(('new', g.cls_for_ctor))
                        continue
                    binding = prog.bind_args(e, g)
                    genv = {}
                    for p, a in binding.items():
                        if isinstance(a, list):
                            continue
                        genv[p] = self.origins(a, func, cn, stop, env,
                                               depth + 1, seen)
                    gcfg = self.cfgs.get(g)
                    rets = [n for n in gcfg.nodes if n.kind == 'return' and
                            n.ast.value is not None]
                    got = False
                    for rn in rets:
                        k = (g.qualname, 'ret', rn.id)
                        if k in seen:
                            continue
                        got = True
                        out |= self.origins(rn.ast.value, g, rn, stop, genv,
                                            depth + 1, seen | {k})
                    if not got and not rets:
                        out.add(('const', 'None'))
                elif name in self.TRANSPARENT or name.startswith('method:'):
                    if name.startswith('method:') and isinstance(
                            e.func, ast.Attribute):
                        out |= self.origins(e.func.value, func, cn, stop, env,
                                            depth + 1, seen)
                        if e.func.attr in ('format', 'join'):
                            out |= {('format',)}
                    for a in e.args:
                        av = a.value if isinstance(a, ast.Starred) else a
                        out |= self.origins(av, func, cn, stop, env,
                                            depth + 1, seen)
                else:
                    out.add(('call', name, prog.loc(func, e)))
            return out
        if isinstance(e, (ast.List, ast.Tuple, ast.Set)):
            for x in e.elts:
                xv = x.value if isinstance(x, ast.Starred) else x
                out |= self.origins(xv, func, cn, stop, env, depth + 1, seen)
            return out or {('const', 'empty')}
        if isinstance(e, ast.Dict):
            for x in e.values:
                if x is not None:
                    out |= self.origins(x, func, cn, stop, env, depth + 1,
                                        seen)
            return out or {('const', 'empty')}
        if isinstance(e, ast.BinOp):
            return (self.origins(e.left, func, cn, stop, env, depth + 1, seen)
                    | self.origins(e.right, func, cn, stop, env, depth + 1,
                                   seen))
        if isinstance(e, ast.BoolOp):
            for v in e.values:
                out |= self.origins(v, func, cn, stop, env, depth + 1, seen)
            return out
        if isinstance(e, ast.IfExp):
            return (self.origins(e.body, func, cn, stop, env, depth + 1, seen)
                    | self.origins(e.orelse, func, cn, stop, env, depth + 1,
                                   seen))
        if isinstance(e, (ast.Subscript, ast.Starred)):
            return self.origins(e.value, func, cn, stop, env, depth + 1, seen)
        if isinstance(e, (ast.ListComp, ast.SetComp, ast.GeneratorExp)):
            cenv = dict(env or {})
            for g in e.generators:
                io = self.origins(g.iter, func, cn, stop, cenv, depth + 1,
                                  seen)
                for nm in ast.walk(g.target):
                    if isinstance(nm, ast.Name):
                        cenv[nm.id] = io
            return self.origins(e.elt, func, cn, stop, cenv, depth + 1, seen)
        if isinstance(e, ast.Compare) or isinstance(e, ast.UnaryOp):
            return {('const', 'bool')}
        if isinstance(e, ast.JoinedStr):
            return {('format',)}
        return {('unknown', type(e).__name__)}

    def _value_object_field(self, rts, attr):
        prog = self.prog
        syn = [c for c in prog.classes.values()
               if getattr(c, 'synthetic', False)]
        if not syn:
            return False
        if any(getattr(prog.classes.get(rt), 'synthetic', False)
               for rt in rts):
            return True
        if rts:
            return False
        # receiver of unknown type: the name is a field of a value object
        # and of no real class
        in_syn = any(attr in c.methods['__init__'].params for c in syn)
        in_real = any((c, attr) in prog.attr_types or
                      self._has_attr_store(c, attr)
                      for c in prog.classes
                      if not getattr(prog.classes[c], 'synthetic', False))
        return in_syn and not in_real

    def _tuple_returns(self, call, func, i):
        """(callee, return node, i-th element) for every ``return (a, b,
        ...)`` of the internal callees of ``call``."""
        out = []
        for g in self.prog.resolve_call(call, func):
            if isinstance(g, Func) and not g.is_ctor_call:
                gcfg = self.cfgs.get(g)
                for rn in gcfg.nodes:
                    if rn.kind == 'return' and rn.ast.value is not None and \
                            isinstance(rn.ast.value, ast.Tuple) and \
                            i < len(rn.ast.value.elts):
                        out.append((g, rn, rn.ast.value.elts[i]))
        return out

    def _has_attr_store(self, cname, attr):
        cls = self.prog.classes.get(cname)
        if cls is None:
            return False
        for m in cls.methods.values():
            for n in ast.walk(m.node):
                if (isinstance(n, ast.Attribute) and n.attr == attr and
                        isinstance(n.ctx, ast.Store) and
                        isinstance(n.value, ast.Name) and
                        n.value.id == m.self_name):
                    return True
        return False

    def _param_origins(self, func, name, stop, depth, seen):
        prog = self.prog
        callers = prog.callers().get(func.qualname, [])
        if func.is_public and func.cls in self.public_classes():
            # public API parameter (internal delegations are still followed
            # by rules that need them)
            return {('api_param', func.qualname, name)}
        if not callers:
            return {('param', func.qualname, name)}
        out = set()
        for caller, call in callers:
            a = prog.bind_args(call, func).get(name)
            if a is None:
                d = func.defaults.get(name)
                if d is not None:
                    out.add(('const', repr(getattr(d, 'value', '?'))))
                continue
            if isinstance(a, list):
                continue
            for ccn in self.node_of(caller, call)[:1]:
                out |= self.origins(a, caller, ccn, stop, None, depth + 1,
                                    seen)
        return out

    def public_classes(self):
        from .effects import public_classes
        return public_classes(self.prog)

    def attr_store_origins(self, cname, attr, stop=None):
        """Origins of everything stored into instance attribute cname.attr
        (constructor parameters are followed to the constructor call
        sites)."""
        out = set()
        for c in self.prog.subclasses(cname) + self.prog.mro(cname):
            cls = self.prog.classes[c]
            for m in cls.methods.values():
                for n in ast.walk(m.node):
                    if not isinstance(n, ast.Assign):
                        continue
                    for t in n.targets:
                        if (isinstance(t, ast.Attribute) and t.attr == attr
                                and isinstance(t.value, ast.Name) and
                                t.value.id == m.self_name):
                            for cn in self.node_of(m, n.value)[:1]:
                                out |= self.origins(n.value, m, cn, stop)
        return out
