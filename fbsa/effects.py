"""Primitive table and effect summaries (DESIGN E3)."""
import ast
import builtins

from .model import Func

# effect kinds
DESTROY = 'FS_DESTROY'     # removes / renames / overwrites
CREATE = 'FS_CREATE'
READ = 'FS_READ'           # may raise OSError
PROBE = 'FS_PROBE'         # never raises
PURE = 'PURE'
LOG = 'LOG'
USER = 'USER'
UNKNOWN = 'UNKNOWN'

OS = ('OSError',)

PRIMS = {
    # destructive
    'os.remove': (DESTROY, OS), 'os.unlink': (DESTROY, OS),
    'os.rmdir': (DESTROY, OS), 'os.removedirs': (DESTROY, OS),
    'os.rename': (DESTROY, OS), 'os.renames': (DESTROY, OS),
    'os.replace': (DESTROY, OS), 'os.truncate': (DESTROY, OS),
    'os.utime': (DESTROY, OS), 'os.chmod': (DESTROY, OS),
    'os.chown': (DESTROY, OS), 'os.link': (CREATE, OS),
    'os.symlink': (CREATE, OS), 'os.write': (DESTROY, OS),
    'os.open': (UNKNOWN, OS), 'os.system': (UNKNOWN, OS),
    'shutil.rmtree': (DESTROY, OS), 'shutil.move': (DESTROY, OS),
    'shutil.copy': (DESTROY, OS), 'shutil.copy2': (DESTROY, OS),
    'shutil.copyfile': (DESTROY, OS), 'shutil.copytree': (DESTROY, OS),
    'shutil.copymode': (DESTROY, OS), 'shutil.copystat': (DESTROY, OS),
    # creating
    'os.mkdir': (CREATE, OS), 'os.makedirs': (CREATE, OS),
    'tempfile.mkdtemp': (CREATE, OS), 'tempfile.mkstemp': (CREATE, OS),
    'tempfile.TemporaryDirectory': (CREATE, OS),
    'tempfile.NamedTemporaryFile': (CREATE, OS),
    # reading
    'os.listdir': (READ, OS), 'os.scandir': (READ, OS), 'os.walk': (READ, ()),
    'os.stat': (READ, OS), 'os.lstat': (READ, OS),
    'os.path.getsize': (READ, OS), 'os.path.getmtime': (READ, OS),
    'os.path.getatime': (READ, OS), 'os.path.getctime': (READ, OS),
    'os.path.samefile': (READ, OS), 'os.path.realpath': (READ, ()),
    'os.readlink': (READ, OS), 'os.access': (PROBE, ()),
    'json.load': (READ, ('OSError', 'ValueError', 'EOFError', 'zlib.error')),
    # probes
    'os.path.isfile': (PROBE, ()), 'os.path.isdir': (PROBE, ()),
    'os.path.exists': (PROBE, ()), 'os.path.islink': (PROBE, ()),
    'os.path.lexists': (PROBE, ()), 'os.path.ismount': (PROBE, ()),
    # pure
    'os.fsdecode': (PURE, ('TypeError',)), 'os.fsencode': (PURE, ('TypeError',)),
    'os.fspath': (PURE, ('TypeError',)),
    'json.dumps': (PURE, ('ValueError', 'TypeError')),
    'json.loads': (PURE, ('ValueError',)),
    'copy.deepcopy': (PURE, ()), 'copy.copy': (PURE, ()),
    'hashlib.sha256': (PURE, ()), 'hashlib.md5': (PURE, ()),
    'hashlib.sha1': (PURE, ()),
    'stat.S_ISDIR': (PURE, ()), 'stat.S_ISREG': (PURE, ()),
    'stat.S_ISLNK': (PURE, ()),
    'threading.Lock': (PURE, ()), 'threading.RLock': (PURE, ()),
    'contextlib.nullcontext': (PURE, ()), 'pathlib.Path': (PURE, ()),
    'logging.getLogger': (PURE, ()), 'os.getcwd': (PURE, ()),
    'os.getpid': (PURE, ()), 'os.cpu_count': (PURE, ()),
    'time.time': (PURE, ()), 'time.time_ns': (PURE, ()),
    'time.monotonic': (PURE, ()), 'time.sleep': (PURE, ()),
    'itertools.chain': (PURE, ()), 'functools.partial': (PURE, ()),
    # methods on non-package receivers
    'method:Path.resolve': (READ, OS), 'method:Path.exists': (PROBE, ()),
    'method:Path.is_file': (PROBE, ()), 'method:Path.is_dir': (PROBE, ()),
    'method:Path.unlink': (DESTROY, OS), 'method:Path.rmdir': (DESTROY, OS),
    'method:Path.rename': (DESTROY, OS), 'method:Path.replace': (DESTROY, OS),
    'method:Path.write_text': (DESTROY, OS),
    'method:Path.write_bytes': (DESTROY, OS), 'method:Path.touch': (DESTROY, OS),
    'method:Path.mkdir': (CREATE, OS), 'method:Path.stat': (READ, OS),
    'method:Path.read_text': (READ, OS), 'method:Path.read_bytes': (READ, OS),
    'method:Path.iterdir': (READ, OS), 'method:Path.open': (UNKNOWN, OS),
    'method:file.read': (READ, OS), 'method:file.readline': (READ, OS),
    'method:file.readlines': (READ, OS), 'method:file.write': (DESTROY, OS),
    'method:file.writelines': (DESTROY, OS), 'method:file.close': (PURE, OS),
    'method:file.flush': (PURE, OS), 'method:file.truncate': (DESTROY, OS),
    'method:file.seek': (PURE, ()),
}

PURE_PREFIXES = ('os.path.', 'builtins.', 'ctor:', 'math.', 'operator.',
                 'collections.', 'enum.', 'functools.', 'itertools.',
                 'string.', 're.', 'typing.', 'copy.', 'hashlib.', 'stat.',
                 'contextlib.', 'threading.', 'logging.', 'warnings.',
                 'zlib.', 'binascii.', 'base64.', 'time.', 'datetime.',
                 'json.', 'sys.')
FS_MODULES = ('os.', 'shutil.', 'tempfile.', 'pathlib.', 'gzip.', 'glob.',
              'io.', 'subprocess.', 'fileinput.', 'zipfile.', 'tarfile.',
              'bz2.', 'lzma.', 'pickle.', 'shelve.', 'mmap.')


def exc_is_sub(a, b):
    """a is a (non-strict) subclass of b.  Uses the interpreter's builtin
    hierarchy; unknown names are direct children of Exception."""
    if a == b:
        return True
    if b == 'BaseException':
        return True
    ca = getattr(builtins, a, None)
    cb = getattr(builtins, b, None)
    if isinstance(ca, type) and isinstance(cb, type) and \
            issubclass(ca, BaseException) and issubclass(cb, BaseException):
        return issubclass(ca, cb)
    if b == 'Exception':
        return True
    return False


def open_mode(call):
    """The constant mode of an open()/gzip.open() call; 'r' when omitted;
    None when it is not a constant."""
    mode = None
    if len(call.args) >= 2:
        mode = call.args[1]
    for kw in call.keywords:
        if kw.arg == 'mode':
            mode = kw.value
    if mode is None:
        return 'r'
    if isinstance(mode, ast.Constant) and isinstance(mode.value, str):
        return mode.value
    return None


class Effects:
    """Classifies callee descriptors and computes transitive summaries."""

    def __init__(self, prog):
        self.prog = prog
        self.unknown_prims = []     # (func, call, name)
        self._summ = None

    # -- single call -----------------------------------------------------
    def _const_arg(self, name, func):
        """Constant values a parameter receives at all call sites of a
        private function (None if any site passes a non-constant)."""
        vals = set()
        sites = self.prog.callers().get(func.qualname, [])
        if not sites:
            return None
        for caller, c in sites:
            a = self.prog.bind_args(c, func).get(name)
            if isinstance(a, ast.Constant) and isinstance(a.value, str):
                vals.add(a.value)
            else:
                return None
        return vals

    def classify(self, callee, call=None, func=None):
        """(kind, raise-classes) of one resolved callee descriptor that is
        not a package function."""
        if callee == 'USER':
            return USER, ('Exception',)
        if callee == 'LOG':
            return LOG, ()
        if callee in ('builtins.open', 'gzip.open', 'io.open', 'bz2.open',
                      'lzma.open'):
            m = open_mode(call) if call is not None else None
            if m is None and call is not None and func is not None:
                # mode handed down through a parameter of a private helper
                mode = call.args[1] if len(call.args) >= 2 else None
                if isinstance(mode, ast.Name) and mode.id in func.params:
                    vals = self._const_arg(mode.id, func)
                    if vals and all(v.startswith('r') and '+' not in v
                                    for v in vals):
                        return READ, OS
                    if vals:
                        return DESTROY, OS
            if m is None:
                return UNKNOWN, OS
            if m.startswith('r') and '+' not in m:
                return READ, OS
            return DESTROY, OS
        if callee == 'shutil.rmtree' and call is not None:
            # errors are handed to the onerror/onexc callback (or ignored)
            kws = {k.arg for k in call.keywords}
            if len(call.args) >= 3 or kws & {'onerror', 'onexc'} or (
                    len(call.args) >= 2 and isinstance(
                        call.args[1], ast.Constant) and call.args[1].value):
                return DESTROY, ()
        if callee == 'os.makedirs' and call is not None:
            pass
        if callee in PRIMS:
            return PRIMS[callee]
        if callee.startswith('builtins.'):
            nm = callee[len('builtins.'):]
            c = getattr(builtins, nm, None)
            if isinstance(c, type) and issubclass(c, BaseException):
                return PURE, ()
            return PURE, ()
        if callee.startswith('method:'):
            return PURE, ()
        if callee.startswith('glob:'):
            # a module-level name: a namedtuple / class-like factory is pure
            nm = callee[5:].split('.')[0]
            for mod, globs in self.prog.module_globals.items():
                v = globs.get(nm)
                if isinstance(v, ast.Call) and 'namedtuple' in ast.unparse(
                        v.func).lower():
                    return PURE, ()
            return UNKNOWN, ('Exception',)
        if callee.startswith('unknown:'):
            return UNKNOWN, ('Exception',)
        for p in FS_MODULES:
            if callee.startswith(p) and not callee.startswith('os.path.'):
                return UNKNOWN, OS
        for p in PURE_PREFIXES:
            if callee.startswith(p):
                return PURE, ()
        return UNKNOWN, ('Exception',)

    # -- transitive summaries ---------------------------------------------
    def summaries(self):
        """qualname -> {'kinds': set, 'prims': set of (kind, callee name),
        'user': bool}.  A USER call re-enters every public instance method
        of the public builder class (re-entrancy model)."""
        if self._summ is not None:
            return self._summ
        prog = self.prog
        direct = {}
        edges = {}
        for f in prog.funcs.values():
            kinds = set()
            prims = set()
            es = set()
            for call in prog.calls_in(f):
                for g in prog.resolve_call(call, f):
                    if isinstance(g, Func):
                        es.add(g.qualname)
                    else:
                        k, _ = self.classify(g, call, f)
                        if k == UNKNOWN:
                            self.unknown_prims.append((f, call, g))
                        if k not in (PURE, LOG):
                            kinds.add(k)
                            prims.add((k, g))
            # implicit __enter__/__exit__ of package context managers
            for n in ast.walk(f.node):
                if isinstance(n, ast.With):
                    for it in n.items:
                        for t in prog.type_of(it.context_expr, f):
                            if t in prog.classes:
                                for mn in ('__enter__', '__exit__'):
                                    m = prog.lookup_method(t, mn)
                                    if m:
                                        es.add(m.qualname)
            direct[f.qualname] = (kinds, prims)
            edges[f.qualname] = es
        reent = [f.qualname for f in prog.funcs.values()
                 if f.cls in public_classes(prog) and f.is_public and
                 f.has_self]
        summ = {q: {'kinds': set(direct[q][0]), 'prims': set(direct[q][1])}
                for q in direct}
        changed = True
        while changed:
            changed = False
            for q in summ:
                s = summ[q]
                targets = set(edges[q])
                if USER in s['kinds']:
                    targets |= set(reent)
                for t in targets:
                    o = summ[t]
                    n0 = len(s['kinds']) + len(s['prims'])
                    s['kinds'] |= o['kinds']
                    s['prims'] |= o['prims']
                    if len(s['kinds']) + len(s['prims']) != n0:
                        changed = True
        self._summ = summ
        self._edges = edges
        return summ

    def kinds(self, func):
        return self.summaries()[func.qualname]['kinds']

    def has_effect(self, func, kinds=(DESTROY, CREATE, USER, UNKNOWN)):
        return bool(self.kinds(func) & set(kinds))


def public_classes(prog):
    init = prog.modules.get('__init__')
    names = []
    if init is not None:
        for st in init.body:
            if isinstance(st, ast.Assign) and any(
                    isinstance(t, ast.Name) and t.id == '__all__'
                    for t in st.targets):
                names = [c.value for c in ast.walk(st.value)
                         if isinstance(c, ast.Constant)]
    return [n for n in names if n in prog.classes]
