"""Bundles the program model, CFGs, effects and fault models."""
import time

from .model import Program, Func, AnalysisError
from .cfg import CFGs
from .effects import Effects
from .supergraph import Super, FaultModel, compute_raise_summaries


class Engine:
    def __init__(self, repo):
        t0 = time.time()
        self.repo = repo
        self.prog = Program(repo)
        self.cfgs = CFGs(self.prog)
        self.eff = Effects(self.prog)
        self.eff.summaries()
        self.fault_all = FaultModel(self.prog, self.eff, 'all')
        compute_raise_summaries(self.prog, self.cfgs, self.eff, self.fault_all)
        self._fault_fs = None
        self.build_s = time.time() - t0

    @property
    def fault_fs(self):
        if self._fault_fs is None:
            self._fault_fs = FaultModel(self.prog, self.eff, 'fs')
            compute_raise_summaries(
                self.prog, self.cfgs, self.eff, self._fault_fs)
        return self._fault_fs

    def func(self, qualname):
        f = self.prog.funcs.get(qualname)
        if f is None:
            raise AnalysisError('anchor vanished: function %s' % qualname)
        return f

    def super(self, root, inline=None, fault=None, **kw):
        if isinstance(root, str):
            root = self.func(root)
        if inline is None:
            inline = lambda g: True
        return Super(self.prog, self.cfgs, self.eff, root, inline,
                     fault or self.fault_all, **kw)
