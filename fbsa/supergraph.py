"""Interprocedural graph (DESIGN E4/E5): the CFG of a root function with the
CFGs of selected callees inlined, exception edges routed through handler and
finaliser frames under a fault model, and boolean helper results correlated
with the branch taken at the call site.

Node kinds
  in     a CFG node begins (nothing of it has run yet)
  leaf   one call that is not inlined (package function kept opaque,
         external primitive, USER callback); exception edges leave here
  enter  an inlined call begins        ret   an inlined call returned
  pt     point between two calls of one statement
  out    the CFG node completed (assignments done); branch edges leave here
  exit_t / exit_f / exit_n   root function returned (truthy/falsy/unknown)
  raise_exit                 root function raised (one node per class)
"""
import ast

from .cfg import TryFrame, FinFrame, ordered_calls
from .effects import exc_is_sub, USER
from .model import Func, AnalysisError


class Reach(dict):
    """node id -> predecessor node id, plus the state-level search tree."""

    def __init__(self):
        dict.__init__(self)
        self.states = {}      # (node, flags) -> predecessor state
        self.first = {}       # node -> first state that reached it


class SNode:
    __slots__ = ('id', 'kind', 'cn', 'func', 'call', 'callee', 'succ',
                 'frame', 'cond', 'cls', 'cframe')

    def __init__(self, id_, kind, cn, func, frame):
        self.id = id_
        self.kind = kind
        self.cn = cn            # cfg Node (or None)
        self.func = func
        self.call = None
        self.callee = None
        self.succ = []          # (dst id, label)
        self.frame = frame
        self.cond = False
        self.cls = None
        self.cframe = None      # 'enter': the callee's Frame

    @property
    def lineno(self):
        if self.call is not None:
            return self.call.lineno
        return self.cn.lineno if self.cn is not None else 0

    def where(self):
        return '%s:%d' % (self.func.file if self.func else '?', self.lineno)

    def __repr__(self):
        c = ''
        if self.callee is not None:
            c = ' ' + (self.callee.qualname if isinstance(self.callee, Func)
                       else str(self.callee))
        return '<S%d %s %s L%d%s>' % (
            self.id, self.kind, self.func.qualname if self.func else '',
            self.lineno, c)


class Frame:
    """One activation in the inlining context."""
    __slots__ = ('func', 'site', 'parent', 'depth')

    def __init__(self, func, site, parent):
        self.func = func
        self.site = site        # SNode 'enter' in the caller (None for root)
        self.parent = parent
        self.depth = 0 if parent is None else parent.depth + 1

    def stack(self):
        r = []
        f = self
        while f is not None:
            r.append(f.func.qualname)
            f = f.parent
        return r


class FaultModel:
    """Which calls may raise, and what.

    sources: 'all'  - explicit raises, FS primitives that may raise, USER,
                      json/gzip decoding (DESIGN E3 fault model)
             'fs'   - FS primitives only (C14's quantifier), plus explicit
                      raises of OSError subclasses that re-signal them
    """

    def __init__(self, prog, eff, sources='all'):
        self.prog = prog
        self.eff = eff
        self.sources = sources
        self.summary = {}

    def prim_raises(self, callee, call, func=None):
        kind, classes = self.eff.classify(callee, call, func)
        if self.sources == 'fs':
            if kind == USER:
                return ()
            return tuple(c for c in classes if exc_is_sub(c, 'OSError'))
        return classes

    def explicit_ok(self, cls):
        if self.sources == 'fs':
            return exc_is_sub(cls, 'OSError')
        return True

    def leaf_raises(self, callee, call, func=None):
        if isinstance(callee, Func):
            return tuple(sorted(self.summary.get(callee.qualname, ())))
        return self.prim_raises(callee, call, func)


def short_exc(prog, func, e):
    """Class name raised by ``raise e`` (None: re-raise of the caught one)."""
    if e is None:
        return None
    if isinstance(e, ast.Call):
        e = e.func
    d = prog.dotted(e, func)
    if d is None:
        return None if isinstance(e, ast.Name) else 'Exception'
    if d.startswith('builtins.'):
        return d[len('builtins.'):]
    return d


class _FCtx:
    def __init__(self, sg, func, frame):
        self.sg = sg
        self.func = func
        self.frame = frame
        self.cfg = sg.cfgs.get(func)
        self.s_in = {}
        self.h_in = {}
        self.fin_in = {}
        self.raise_exits = {}
        self.exits = {}

    def raise_exit(self, cls):
        if cls not in self.raise_exits:
            n = self.sg._new('raise_exit', None, self.func, self.frame)
            n.cls = cls
            self.raise_exits[cls] = n.id
        return self.raise_exits[cls]


class Super:
    def __init__(self, prog, cfgs, eff, root, inline, fault, max_depth=9,
                 max_nodes=60000):
        self.prog = prog
        self.cfgs = cfgs
        self.eff = eff
        self.inline = inline
        self.fault = fault
        self.max_depth = max_depth
        self.max_nodes = max_nodes
        self.nodes = []
        self.root = root
        fr = Frame(root, None, None)
        fc = self._expand(root, fr)
        self.entry = fc.s_in[fc.cfg.entry]
        self.exits = fc.exits
        self.raise_exits = fc.raise_exits
        self.root_ctx = fc
        self._pred = None

    # ------------------------------------------------------------------
    def _new(self, kind, cn, func, frame):
        if len(self.nodes) > self.max_nodes:
            raise AnalysisError('supergraph of %s exceeds %d nodes' % (
                self.root.qualname, self.max_nodes))
        n = SNode(len(self.nodes), kind, cn, func, frame)
        self.nodes.append(n)
        return n

    def _edge(self, a, b, label=None):
        self.nodes[a].succ.append((b, label))

    def _route(self, cls, frames, fc):
        out = []
        for fr in frames:
            if isinstance(fr, TryFrame):
                for classes, hid in fr.handlers:
                    if classes is None or any(
                            exc_is_sub(cls, h) for h in classes):
                        fc.h_in.setdefault(hid, set()).add(cls)
                        out.append(fc.s_in[hid])
                        return out
                    subs = [h for h in classes if exc_is_sub(h, cls)]
                    if subs:
                        fc.h_in.setdefault(hid, set()).update(subs)
                        out.append(fc.s_in[hid])
            else:
                fc.fin_in.setdefault(fr.entry, set()).add(cls)
                out.append(fc.s_in[fr.entry])
                return out
        out.append(fc.raise_exit(cls))
        return out

    def _raise_from(self, src, cls, frames, fc):
        for t in self._route(cls, frames, fc):
            self._edge(src, t, ('exc', cls))

    # ------------------------------------------------------------------
    def _implicit_calls(self, cn, func):
        out = []
        if cn.kind in ('with_enter', 'with_exit'):
            mn = '__enter__' if cn.kind == 'with_enter' else '__exit__'
            for t in sorted(self.prog.type_of(cn.item.context_expr, func)):
                if t in self.prog.classes:
                    m = self.prog.lookup_method(t, mn)
                    if m:
                        out.append(m)
        return out

    def _expand(self, func, frame):
        fc = _FCtx(self, func, frame)
        cfg = fc.cfg
        for cn in cfg.nodes:
            fc.s_in[cn.id] = self._new('in', cn, func, frame).id
        fc.exits = {'T': fc.s_in[cfg.exit_t], 'F': fc.s_in[cfg.exit_f],
                    'N': fc.s_in[cfg.exit_n]}
        for k, nid in fc.exits.items():
            self.nodes[nid].kind = 'exit_' + k.lower()
        deferred = []
        for cn in cfg.nodes:
            if cn.kind in ('exit_t', 'exit_f', 'exit_n'):
                continue
            self._expand_node(cn, fc, deferred)
        # bare re-raises and finaliser re-raises: local fixed point
        done = set()
        changed = True
        while changed:
            changed = False
            for cn, src in deferred:
                if cn.kind == 'reraise':
                    classes = fc.fin_in.get(cn.fin_of, set())
                else:
                    classes = fc.h_in.get(cn.handler_of, set())
                for c in sorted(classes):
                    if (src, c) in done:
                        continue
                    done.add((src, c))
                    changed = True
                    self._raise_from(src, c, cn.frames, fc)
        return fc

    def _expand_node(self, cn, fc, deferred):
        func = fc.func
        cur = fc.s_in[cn.id]
        calls = [(c, cond, None) for c, cond in ordered_calls(cn.exprs)]
        for m in self._implicit_calls(cn, func):
            calls.append((None, False, m))
        correlated = None
        for idx, (call, cond, implicit) in enumerate(calls):
            if implicit is not None:
                targets = [implicit]
            else:
                targets = self.prog.resolve_call(call, func)
            nxt = self._new('pt', cn, func, fc.frame).id
            if cond:
                self._edge(cur, nxt, 'skip')
            is_last_atom = (cn.kind == 'cond' and call is cn.atom and
                            idx == len(calls) - 1)
            for g in targets:
                if (isinstance(g, Func) and self._should_inline(g, fc.frame)):
                    ent = self._new('enter', cn, func, fc.frame)
                    ent.call = call
                    ent.callee = g
                    self._edge(cur, ent.id)
                    cfr = Frame(g, ent, fc.frame)
                    ent.cframe = cfr
                    sub = self._expand(g, cfr)
                    self._edge(ent.id, sub.s_in[sub.cfg.entry])
                    ret = self._new('ret', cn, func, fc.frame)
                    ret.call = call
                    ret.callee = g
                    ret.cframe = cfr
                    if is_last_atom:
                        if correlated is None:
                            correlated = {
                                'T': self._new('pt', cn, func, fc.frame).id,
                                'F': self._new('pt', cn, func, fc.frame).id}
                        rt = self._new('ret', cn, func, fc.frame)
                        rt.call, rt.callee = call, g
                        rf = self._new('ret', cn, func, fc.frame)
                        rf.call, rf.callee = call, g
                        rt.cframe = rf.cframe = cfr
                        self._edge(sub.exits['T'], rt.id)
                        self._edge(sub.exits['F'], rf.id)
                        self._edge(rt.id, correlated['T'])
                        self._edge(rf.id, correlated['F'])
                        self._edge(sub.exits['N'], ret.id)
                    else:
                        for k in ('T', 'F', 'N'):
                            self._edge(sub.exits[k], ret.id)
                    self._edge(ret.id, nxt)
                    for c, rid in sorted(sub.raise_exits.items()):
                        self.nodes[rid].kind = 'callee_raise'
                        self._raise_from(rid, c, cn.frames, fc)
                else:
                    leaf = self._new('leaf', cn, func, fc.frame)
                    leaf.call = call
                    leaf.callee = g
                    leaf.cond = cond
                    self._edge(cur, leaf.id)
                    done = self._new('ret', cn, func, fc.frame)
                    done.call, done.callee = call, g
                    self._edge(leaf.id, done.id)
                    self._edge(done.id, nxt)
                    for c in self.fault.leaf_raises(g, call, func):
                        self._raise_from(leaf.id, c, cn.frames, fc)
            cur = nxt
        out = self._new('out', cn, func, fc.frame)
        self._edge(cur, out.id)
        if cn.kind == 'raise':
            cls = short_exc(self.prog, func, cn.ast.exc)
            if cls is None:
                deferred.append((cn, out.id))
            elif self.fault.explicit_ok(cls):
                self._raise_from(out.id, cls, cn.frames, fc)
            return
        if cn.kind == 'reraise':
            deferred.append((cn, out.id))
            return
        for d, label in cn.succ:
            lab = label
            if isinstance(label, tuple) and label[0] in ('T', 'F'):
                lab = (label[0], label[1], func, cn)
            self._edge(out.id, fc.s_in[d], lab)
            if correlated is not None and isinstance(label, tuple) and \
                    label[0] in ('T', 'F'):
                self._edge(correlated[label[0]], fc.s_in[d], lab)

    def _should_inline(self, g, frame):
        if frame.depth >= self.max_depth:
            return False
        if g.qualname in frame.stack():
            return False
        return bool(self.inline(g))

    # ------------------------------------------------------------------
    # queries
    def preds(self):
        if self._pred is None:
            p = {n.id: [] for n in self.nodes}
            for n in self.nodes:
                for d, lab in n.succ:
                    p[d].append((n.id, lab))
            self._pred = p
        return self._pred

    def _flag_update(self, sn, val):
        """Flag valuation after node sn completed (assignment of a constant
        to a tracked boolean local of sn's frame)."""
        if sn.kind == 'enter' and sn.cframe is not None and \
                sn.call is not None and isinstance(sn.callee, Func):
            # a tracked boolean handed to an inlined helper keeps its value
            # under the parameter's name
            new = None
            for p, a in self.prog.bind_args(sn.call, sn.callee).items():
                if isinstance(a, ast.Name):
                    k = (id(sn.frame), a.id)
                    if k in val:
                        if new is None:
                            new = dict(val)
                        new[(id(sn.cframe), p)] = val[k]
            if new is not None:
                return new
        # the boolean locals of an activation are dead once it is left
        # (keeps the number of tracked valuations from multiplying along a
        # chain of calls)
        dead = None
        if sn.kind == 'ret' and sn.cframe is not None:
            dead = id(sn.cframe)
        elif sn.kind == 'callee_raise':
            dead = id(sn.frame)
        if dead is not None and any(k[0] == dead for k in val):
            return {k: v for k, v in val.items() if k[0] != dead}
        if sn.kind == 'out' and sn.cn is not None and sn.cn.kind == 'stmt' \
                and isinstance(sn.cn.ast, ast.Assign):
            a = sn.cn.ast
            if isinstance(a.value, ast.Constant) and len(a.targets) == 1 and \
                    isinstance(a.targets[0], ast.Name):
                flags = self.cfgs.get(sn.func).flag_names
                nm = a.targets[0].id
                if nm in flags or (
                        nm in self._partial_flags(sn.func) and (
                            a.value.value is None or
                            a.value.value is True or
                            a.value.value is False)):
                    val = dict(val)
                    # True / False / None (a tri-state result variable)
                    val[(id(sn.frame), nm)] = a.value.value
                    return val
        if sn.kind == 'out' and sn.cn is not None and sn.cn.defs and \
                sn.func is not None:
            # any other binding of a sometimes-constant local makes its
            # value unknown again
            pf = self._partial_flags(sn.func)
            kill = [(id(sn.frame), nm) for nm in sn.cn.defs if nm in pf]
            if any(k in val for k in kill):
                val = {k: v for k, v in val.items() if k not in kill}
        return val

    def _partial_flags(self, func):
        """Locals (not parameters, not the full flags) that are assigned
        None/True/False somewhere and something else elsewhere: tracked
        while the constant is what they hold (``x = None ... if x is None``
        after an inlined helper that returned (None, verdict))."""
        memo = self.__dict__.setdefault('_pf_memo', {})
        if func in memo:
            return memo[func]
        flags = self.cfgs.get(func).flag_names
        params = set(func.all_param_names())
        out = set()
        for n in ast.walk(func.node):
            if isinstance(n, ast.Assign) and len(n.targets) == 1 and \
                    isinstance(n.targets[0], ast.Name) and isinstance(
                        n.value, ast.Constant) and (
                        n.value.value is None or n.value.value is True or
                        n.value.value is False):
                nm = n.targets[0].id
                if nm not in flags and nm not in params:
                    out.add(nm)
        memo[func] = out
        return out

    def _flag_blocks(self, sn, lab, val):
        """The branch edge contradicts the tracked value of a boolean local."""
        if isinstance(lab, tuple) and len(lab) == 4 and lab[0] in ('T', 'F') \
                and isinstance(lab[1], ast.Name):
            k = (id(sn.frame), lab[1].id)
            if k in val and bool(val[k]) != (lab[0] == 'T'):
                return True
        elif isinstance(lab, tuple) and len(lab) == 4 and \
                lab[0] in ('T', 'F') and isinstance(lab[1], ast.Compare) and \
                len(lab[1].ops) == 1 and isinstance(
                    lab[1].ops[0], (ast.Is, ast.IsNot)) and isinstance(
                    lab[1].left, ast.Name) and isinstance(
                    lab[1].comparators[0], ast.Constant) and \
                lab[1].comparators[0].value is None:
            # ``flag is None`` of a tracked tri-state local
            k = (id(sn.frame), lab[1].left.id)
            if k in val:
                truth = (val[k] is None) == isinstance(lab[1].ops[0], ast.Is)
                if truth != (lab[0] == 'T'):
                    return True
        return False

    def reach(self, starts, avoid=None, edge_ok=None, stop=None, init=None):
        """Forward reachability, path-sensitive for boolean locals (a local
        that is only ever assigned constants, or that is only used as a
        truth value and was desugared into a recorded branch, is tracked
        along the path and contradicting branches are pruned).
        ``avoid(node)`` nodes are not entered; ``stop(node)`` nodes are
        entered but not left.  Returns a dict node id -> predecessor id (of
        the first state that reached the node); use ``witness`` for paths."""
        seen = Reach()
        todo = []
        starts = list(starts)
        if init is None and starts != [self.entry] and \
                not getattr(self, '_computing_entry_states', False):
            # a search that starts in the middle of the graph starts with
            # every valuation of the boolean locals with which its start
            # nodes can be reached from the entry
            es = self.entry_states()
            seeds = []
            for s_ in starts:
                vals = es.get(s_)
                seeds += [(s_, st) for st in (vals or [()])]
        else:
            st0 = tuple(sorted((init or {}).items()))
            seeds = [(s_, st0) for s_ in starts]
        for key in seeds:
            s_ = key[0]
            if avoid is not None and avoid(self.nodes[s_]):
                continue
            if key in seen.states:
                continue
            seen.states[key] = None
            if s_ not in seen:
                seen[s_] = None
                seen.first[s_] = key
            todo.append(key)
        while todo:
            key = todo.pop()
            n, st = key
            sn = self.nodes[n]
            if stop is not None and stop(sn):
                continue
            val = self._flag_update(sn, dict(st))
            nst = tuple(sorted(val.items()))
            for d, lab in sn.succ:
                if self._flag_blocks(sn, lab, val):
                    continue
                if edge_ok is not None and not edge_ok(sn, self.nodes[d], lab):
                    continue
                if avoid is not None and avoid(self.nodes[d]):
                    continue
                k2 = (d, nst)
                if k2 in seen.states:
                    continue
                if len(seen.states) > 3000000:
                    from .model import AnalysisError
                    raise AnalysisError(
                        'path-sensitive search exceeded 3,000,000 states '
                        '(too many independent boolean locals on one path)')
                seen.states[k2] = key
                if d not in seen:
                    seen[d] = n
                    seen.first[d] = k2
                todo.append(k2)
        return seen

    def entry_states(self):
        """node id -> set of flag valuations with which the node is
        reachable from the entry (unfiltered search, computed once)."""
        es = getattr(self, '_entry_states', None)
        if es is None:
            self._computing_entry_states = True
            try:
                r = self.reach([self.entry])
            finally:
                self._computing_entry_states = False
            es = {}
            for (n, st) in r.states:
                es.setdefault(n, set()).add(st)
            self._entry_states = es
        return es

    def witness(self, seen, target):
        if isinstance(seen, Reach) and target in seen.first:
            path = []
            k = seen.first[target]
            while k is not None:
                path.append(k[0])
                k = seen.states[k]
            path.reverse()
            return path
        path = []
        n = target
        while n is not None:
            path.append(n)
            n = seen[n]
        path.reverse()
        return path

    def describe_path(self, path, limit=14):
        """Compact, human-readable rendering of a node-id path."""
        out = []
        last = None
        for nid in path:
            sn = self.nodes[nid]
            if sn.kind in ('pt', 'in', 'exit_t', 'exit_f', 'exit_n',
                           'callee_raise'):
                continue
            if sn.kind == 'out' and sn.cn.kind not in (
                    'cond', 'raise', 'return', 'handler'):
                continue
            if sn.kind in ('leaf', 'enter', 'ret'):
                cal = sn.callee.qualname if isinstance(sn.callee, Func) \
                    else str(sn.callee)
                if sn.kind == 'ret':
                    continue
                s = '%s %s %s' % (sn.where(), 'call' if sn.kind != 'enter'
                                  else 'enter', cal)
            elif sn.kind == 'out':
                s = '%s %s' % (sn.where(), sn.cn.kind)
            else:
                s = '%s %s' % (sn.where(), sn.kind)
            if s != last:
                out.append(s)
            last = s
        if len(out) > limit:
            out = out[:limit // 2] + ['...'] + out[-limit // 2:]
        return out

    def all_exits(self):
        return list(self.exits.values()) + list(self.raise_exits.values())

    def normal_exits(self):
        return list(self.exits.values())

    def find(self, pred):
        return [n.id for n in self.nodes if pred(n)]

    def with_items(self, sn):
        """All with-items enclosing the node, through the inlining context:
        list of (item, func)."""
        out = []
        cn = sn.cn
        fr = sn.frame
        while True:
            if cn is not None:
                out.extend((it, fr.func) for it in cn.with_stack)
            if fr is None or fr.site is None:
                break
            site = fr.site
            cn = site.cn
            fr = site.frame
        return out


def callee_name(sn):
    c = sn.callee
    if c is None:
        return None
    return c.qualname if isinstance(c, Func) else c


def compute_raise_summaries(prog, cfgs, eff, fault, max_iter=10):
    """Fixed point of 'classes that may escape function g' under the fault
    model; stored in fault.summary."""
    fault.summary = {q: set() for q in prog.funcs}
    for _ in range(max_iter):
        changed = False
        for q, f in prog.funcs.items():
            sg = Super(prog, cfgs, eff, f, lambda g: False, fault)
            new = set(sg.raise_exits.keys())
            if not new <= fault.summary[q]:
                fault.summary[q] |= new
                changed = True
        if not changed:
            return
    raise AnalysisError('raise summaries did not converge')
