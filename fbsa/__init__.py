"""fbsa: repository-specific static analysis of btrekkie/file-builder.

Everything in this package reads the source of /repo/file_builder/*.py with
``ast``; nothing in it imports or executes the analysed code.
"""
