"""Roles and anchors.

Classes, functions, methods and attributes are addressed by name (a vanished
anchor is an ANALYSIS-ERROR, exit 2 - never a silent pass).  Locals and
parameters are never addressed by name.  Where a role can be discovered
structurally (public API, record classes, USER callback sites, locks, reuse
deciders) it is discovered and the name is only cross-checked.
"""
import ast

from .model import Func, AnalysisError
from .effects import public_classes

# record fields that can only hold immutable scalars (one line of reason
# each); every other field - including any field added later - is treated
# as able to hold a mutable JSON container.
IMMUTABLE_FIELDS = {
    'is_finished': 'bool flag',
    'raised': 'bool flag',
    'setup_failed': 'bool flag',
    'name': 'operation name, a str literal from the API',
    'func_name': 'checked isinstance(str) at the API / str from JSON',
    'filename': 'result of the path normaliser (str) / str from JSON',
    'exception_type_str': 'class name string',
    'file_comparison': 'Enum member',
}

COPY_POINTS = ('copy.deepcopy', 'JsonUtil.sanitize', 'json.loads')


class Roles:
    def __init__(self, engine, helper):
        self.E = engine
        self.H = helper
        self.prog = engine.prog
        p = self.prog
        pcs = public_classes(p)
        self.public_classes = pcs
        # builder class: public class that contains a USER callback site
        self.user_sites = []
        for f in p.funcs.values():
            for call in p.calls_in(f):
                if 'USER' in p.resolve_call(call, f):
                    self.user_sites.append((f, call))
        bcs = sorted({f.cls for f, _ in self.user_sites if f.cls in pcs})
        if len(bcs) != 1:
            raise AnalysisError(
                'cannot identify the builder class (USER sites in %r)' % bcs)
        self.builder = bcs[0]
        self.public_methods = sorted(
            (f for f in p.funcs.values()
             if f.cls == self.builder and f.is_public),
            key=lambda f: f.node.lineno)
        self.public_instance_methods = [
            f for f in self.public_methods if f.has_self]
        self.public_static_methods = [
            f for f in self.public_methods if not f.has_self]
        # record classes
        roots = [c for c in p.classes
                 if not p.classes[c].bases and
                 len(p.subclasses(c, strict=True)) >= 3]
        if len(roots) != 1:
            raise AnalysisError('cannot identify the record root: %r' % roots)
        self.record_root = roots[0]
        self.record_classes = p.subclasses(self.record_root)
        self.concrete_records = [
            c for c in self.record_classes
            if not p.subclasses(c, strict=True)]
        self.record_fields = {}
        for c in self.record_classes:
            fs = []
            for k in reversed(p.mro(c)):
                init = p.classes[k].methods.get('__init__')
                if init is None:
                    continue
                for n in ast.walk(init.node):
                    if (isinstance(n, ast.Attribute) and
                            isinstance(n.ctx, ast.Store) and
                            isinstance(n.value, ast.Name) and
                            n.value.id == init.self_name and
                            n.attr not in fs):
                        fs.append(n.attr)
            self.record_fields[c] = fs
        self.all_record_fields = sorted(
            {f for fs in self.record_fields.values() for f in fs})
        self.container_fields = [
            f for f in self.all_record_fields if f not in IMMUTABLE_FIELDS]
        cx = [c for c in self.record_classes
              if 'suboperations' in self.record_fields[c] and
              p.subclasses(c, strict=True)]
        self.complex_root = cx[0] if cx else None
        bl = [a for (c, a) in helper.lock_attrs() if c == self.builder]
        if len(bl) != 1:
            raise AnalysisError('builder lock not identified: %r' % bl)
        self.builder_lock = (self.builder, bl[0])
        self.cache = helper.cache_class()
        ex = [c for c in p.classes if 'OPERATIONS' in p.classes[c].class_attrs]
        if len(ex) != 1:
            raise AnalysisError('cannot identify the executor class: %r' % ex)
        self.executor = ex[0]

    # ------------------------------------------------------------------
    def f(self, qualname):
        return self.E.func(qualname)

    def builder_f(self, name):
        return self.E.func(self.builder + '.' + name)

    def cls(self, name):
        if name not in self.prog.classes:
            raise AnalysisError('anchor vanished: class ' + name)
        return self.prog.classes[name]

    def is_record_expr(self, e, func):
        ts = self.prog.type_of(e, func)
        return any(t in self.record_classes for t in ts)

    # the replay routine: the function that iterates ``.suboperations`` and
    # dispatches on record class, returning False when a decider does
    def replay_routine(self):
        cands = []
        for f in self.prog.funcs.values():
            if f.cls != self.builder:
                continue
            iters = [n for n in ast.walk(f.node)
                     if isinstance(n, ast.For) and
                     isinstance(n.iter, ast.Attribute) and
                     n.iter.attr == 'suboperations']
            if not iters:
                continue
            rets = [n for n in ast.walk(f.node)
                    if isinstance(n, ast.Return) and
                    isinstance(n.value, ast.Constant) and
                    n.value.value is False]
            if rets:
                cands.append(f)
        if len(cands) != 1:
            raise AnalysisError('cannot identify the replay routine: %r' % (
                [c.qualname for c in cands]))
        return cands[0]

    def deciders(self):
        """Callers of the replay routine (the complex reuse deciders)."""
        rr = self.replay_routine()
        out = []
        for caller, call in self.prog.callers().get(rr.qualname, []):
            if caller not in out and caller.qualname != rr.qualname:
                out.append(caller)
        return out

    def root_runner(self):
        """The function that calls the root USER function: has a USER site
        and is called from a public static method."""
        for f, call in self.user_sites:
            for caller, _ in self.prog.callers().get(f.qualname, []):
                if caller in self.public_static_methods:
                    return f
        raise AnalysisError('cannot identify the root runner')

    def nested_runner(self):
        """The helper through which nested USER functions are called."""
        rr = self.root_runner()
        out = [f for f, _ in self.user_sites if f != rr]
        if len(out) != 1:
            raise AnalysisError('expected one nested USER site, found %r' % (
                [f.qualname for f in out]))
        return out[0]
