"""Rule results, known findings, evidence files (DESIGN E6, section 6)."""
import json
import os
import time

VERIF = os.path.dirname(os.path.dirname(os.path.abspath(__file__)))


class Finding:
    def __init__(self, rule, construct, message, where='', path=None):
        self.rule = rule
        self.construct = construct
        self.message = message
        self.where = where
        self.path = path or []

    def key(self):
        return self.rule + ' | ' + self.construct

    def to_json(self):
        return {'rule': self.rule, 'construct': self.construct,
                'message': self.message, 'where': self.where,
                'path': self.path}


class RuleCtx:
    """Collects what one rule analysed."""

    def __init__(self, rule_id, title):
        self.rule = rule_id
        self.title = title
        self.instances = 0
        self.discharged = 0
        self.nontrivial = set()
        self.samples = []
        self.findings = []
        self.notes = []
        self.floor = None

    def ok(self, sample=None, key=None):
        self.instances += 1
        self.discharged += 1
        if key is not None:
            self.nontrivial.add(key)
        if sample is not None and len(self.samples) < 4:
            self.samples.append(sample)

    def violation(self, construct, message, where='', path=None, key=None):
        self.instances += 1
        if key is not None:
            self.nontrivial.add(key)
        self.findings.append(Finding(self.rule, construct, message, where,
                                     path))

    def note(self, text):
        self.notes.append(text)


class PropertyReport:
    def __init__(self, pid, tier, seed, explanation, assumptions):
        self.pid = pid
        self.tier = tier
        self.seed = seed
        self.explanation = explanation
        self.assumptions = assumptions
        self.rules = []
        self.t0 = time.time()
        self.extra = {}

    def add(self, rc):
        self.rules.append(rc)


def load_known():
    p = os.path.join(VERIF, 'known_findings.json')
    if not os.path.exists(p):
        return []
    return json.load(open(p))


def load_floors():
    p = os.path.join(VERIF, 'expected_instances.json')
    if not os.path.exists(p):
        return {}
    return json.load(open(p)).get('floors', {})


def finish(report, engine, out_dir=None, print_=print):
    """Prints the summary, writes evidence, returns the exit code."""
    from .model import AnalysisError
    out_dir = out_dir or os.path.join(VERIF, 'evidence')
    os.makedirs(out_dir, exist_ok=True)
    known = [k for k in load_known() if k.get('status') == 'known' and
             report.pid in k.get('properties', [k.get('property')])]
    known_keys = {k['rule'] + ' | ' + k['construct']: k for k in known}
    floors = load_floors()
    new = []
    listed = []
    inst = disch = 0
    nontriv = set()
    samples = []
    low = []
    for rc in report.rules:
        inst += rc.instances
        disch += rc.discharged
        nontriv |= {(rc.rule, k) for k in rc.nontrivial}
        for s in rc.samples[:2]:
            samples.append({'rule': rc.rule, 'instance': s})
        fl = floors.get(rc.rule)
        if fl is not None and rc.instances < fl:
            low.append('%s: %d instances, floor %d' % (
                rc.rule, rc.instances, fl))
        status = 'HOLDS %d/%d' % (rc.discharged, rc.instances)
        for f in rc.findings:
            if f.key() in known_keys:
                listed.append(f)
            else:
                new.append(f)
        if rc.findings:
            status = 'FINDINGS %d (of %d instances)' % (
                len(rc.findings), rc.instances)
        print_('  %-7s %-58s %s' % (rc.rule, rc.title[:58], status))
        for n in rc.notes:
            print_('          note: ' + n)
    seen_known = set()
    for f in listed:
        if f.key() in seen_known:
            continue
        seen_known.add(f.key())
        print_('KNOWN-FINDING: property=%s %s: %s' % (
            report.pid, f.key(), known_keys[f.key()].get(
                'what_fails', f.message)))
    for k in known_keys:
        if k not in seen_known:
            print_('  note: listed known finding no longer reported: ' + k)
    res, unres, _ = engine.prog.resolution_stats()
    ev = {
        'property_id': report.pid,
        'tier': report.tier,
        'seed': report.seed,
        'level': 'other',
        'coverage': {
            'explanation': report.explanation,
            'obligations': inst,
            'discharged': disch + len(listed),
            'evaluations': inst,
            'distinct_nontrivial': len(nontriv),
            'rule': 'one evaluation per rule instance (a call site, path '
                    'query, origin set, lock region or field); non-trivial = '
                    'instances that needed a path, provenance, lockset or '
                    'dominance query rather than an existence test, counted '
                    'by distinct (rule, construct) key',
            'samples': samples[:12] or ['(no instance)'],
            'rules': [{'rule': rc.rule, 'title': rc.title,
                       'instances': rc.instances,
                       'discharged': rc.discharged,
                       'findings': [f.to_json() for f in rc.findings],
                       'notes': rc.notes} for rc in report.rules],
            'functions_analysed': len(engine.prog.funcs),
            'modules_analysed': sorted(engine.prog.modules),
            'cfg_nodes': engine.cfgs.total_nodes(),
            'calls_resolved': res,
            'calls_unresolved': unres,
            'excluded': engine.prog.excluded,
            'known_findings': sorted(seen_known),
            'repo': engine.repo,
            'renamed_functions_recognised': dict(engine.prog.renamed),
            'renamed_attributes_recognised': dict(getattr(
                engine.prog, 'renamed_attrs', {})),
            'new_helpers_inlined_for_analysis': [
                {'helper': q, 'sites': n, 'kept_as_function': k}
                for q, n, k in getattr(engine.prog, 'deextracted', [])],
            'new_mixins_flattened_for_analysis': [
                {'mixin': b, 'into': c, 'members': n}
                for b, c, n in getattr(engine.prog, 'flattened', [])],
        },
        'assumptions': report.assumptions,
        'wall_s': round(time.time() - report.t0 + engine.build_s, 3),
        'violations': len(new),
    }
    ev['coverage'].update(report.extra)
    with open(os.path.join(out_dir, report.pid + '.json'), 'w') as fh:
        json.dump(ev, fh, indent=1, sort_keys=True)
    if low:
        for l in low:
            print_('ANALYSIS-ERROR property=%s vacuity floor: %s' % (
                report.pid, l))
        return 2
    if new:
        vp = os.path.join(out_dir, report.pid + '.violations.json')
        with open(vp, 'w') as fh:
            json.dump([f.to_json() for f in new], fh, indent=1)
        print_('VIOLATION property=%s replay=%s' % (report.pid, vp))
        for f in new:
            print_('  %s %s' % (f.rule, f.message))
            print_('    construct: ' + f.construct)
            if f.where:
                print_('    at: ' + f.where)
            for p in f.path:
                print_('      ' + p)
        return 1
    print_('OK property=%s rules=%d instances=%d discharged=%d known=%d' % (
        report.pid, len(report.rules), inst, disch, len(seen_known)))
    return 0
