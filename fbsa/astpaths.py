"""Branch-insensitive view of if/elif/else trees.

``cond_paths(stmts)`` flattens nested ``if`` statements into a list of
``(conds, stmt)`` pairs, one per non-``if`` statement, where ``conds`` is the
list of ``(test, polarity)`` facts under which the statement runs.  ``not``
is stripped into the polarity, ``a and b`` (true) and ``a or b`` (false) are
split, so ``if a: X elif b: Y else: Z``, its nested-if spelling and its
``if not a: ... else: X`` spelling all give the same facts.  Rules that read
dispatch tables (isinstance chains, string dispatch, class dispatch) use
this instead of walking ``ast.If`` nodes, so that re-nesting or swapping
branches does not change what they see.
"""
import ast


def _facts(test, pol):
    if isinstance(test, ast.UnaryOp) and isinstance(test.op, ast.Not):
        return _facts(test.operand, not pol)
    if isinstance(test, ast.BoolOp):
        if isinstance(test.op, ast.And) and pol:
            out = []
            for v in test.values:
                out += _facts(v, True)
            return out
        if isinstance(test.op, ast.Or) and not pol:
            out = []
            for v in test.values:
                out += _facts(v, False)
            return out
    return [(test, pol)]


def _always_exits(stmts):
    if not stmts:
        return False
    last = stmts[-1]
    if isinstance(last, (ast.Return, ast.Raise, ast.Continue, ast.Break)):
        return True
    if isinstance(last, ast.If):
        return bool(last.orelse) and _always_exits(last.body) and \
            _always_exits(last.orelse)
    return False


def cond_paths(stmts, conds=None):
    conds = conds or []
    out = []
    for st in stmts:
        if isinstance(st, ast.If):
            out += cond_paths(st.body, conds + _facts(st.test, True))
            out += cond_paths(st.orelse, conds + _facts(st.test, False))
            # early exit: what follows an `if` whose body always leaves runs
            # under the negated test (if/elif chains written as guards)
            if _always_exits(st.body) and not _always_exits(st.orelse):
                conds = conds + _facts(st.test, False)
            elif st.orelse and _always_exits(st.orelse) and \
                    not _always_exits(st.body):
                conds = conds + _facts(st.test, True)
        elif isinstance(st, (ast.For, ast.While)):
            out.append((conds, st))
            out += cond_paths(st.body, conds)
            out += cond_paths(st.orelse, conds)
        elif isinstance(st, ast.With):
            out.append((conds, st))
            out += cond_paths(st.body, conds)
        elif isinstance(st, ast.Try):
            out += cond_paths(st.body, conds)
            for h in st.handlers:
                out += cond_paths(h.body, conds)
            out += cond_paths(st.orelse, conds)
            out += cond_paths(st.finalbody, conds)
        else:
            out.append((conds, st))
    return out


def isinstance_fact(test):
    """(variable name, [class names]) for isinstance(x, C) / (x, (C, D))."""
    if isinstance(test, ast.Call) and isinstance(test.func, ast.Name) and \
            test.func.id == 'isinstance' and len(test.args) == 2 and \
            isinstance(test.args[0], ast.Name):
        cl = test.args[1]
        names = [c.id for c in (cl.elts if isinstance(cl, ast.Tuple)
                                else [cl]) if isinstance(c, ast.Name)]
        return test.args[0].id, names
    return None


def eq_const_fact(test):
    """(other side expr, constant) for `x == 'lit'` / `'lit' == x`;
    polarity-neutral (NotEq is reported with negate=True)."""
    if isinstance(test, ast.Compare) and len(test.ops) == 1 and \
            isinstance(test.ops[0], (ast.Eq, ast.NotEq)):
        l, r = test.left, test.comparators[0]
        neg = isinstance(test.ops[0], ast.NotEq)
        if isinstance(r, ast.Constant):
            return l, r.value, neg
        if isinstance(l, ast.Constant):
            return r, l.value, neg
    return None


def class_eq_fact(test):
    """(expr, class name, negate) for `cls == list` style tests."""
    if isinstance(test, ast.Compare) and len(test.ops) == 1 and \
            isinstance(test.ops[0], (ast.Eq, ast.NotEq, ast.Is, ast.IsNot)):
        l, r = test.left, test.comparators[0]
        neg = isinstance(test.ops[0], (ast.NotEq, ast.IsNot))
        if isinstance(r, ast.Name):
            return l, r.id, neg
    return None


def decided_class(conds, prog, K, var=None):
    """Evaluate the isinstance facts of a path for concrete class K:
    False if some fact contradicts K, else True.  Facts about other
    variables or other tests are ignored (returned separately)."""
    other = []
    for test, pol in conds:
        f = isinstance_fact(test)
        if f is None or (var is not None and f[0] != var):
            other.append((test, pol))
            continue
        holds = any(K in prog.subclasses(c) for c in f[1]
                    if c in prog.classes)
        if holds != pol:
            return False, other
    return True, other
