"""Per-function control-flow graphs (DESIGN E4).

Statement-level nodes; conditions of ``if``/``while``/``return`` are
decomposed into short-circuit branches whose edges carry ``('T'|'F', atom)``
facts; ``try``/``finally``/``with`` are modelled with duplicated finaliser
bodies per entry reason (normal, exception, return, break, continue).
Exception edges are not drawn here: each node remembers the chain of
enclosing handler/finaliser frames and ``supergraph`` routes exceptions
through them under a fault model.
"""
import ast

from .model import AnalysisError


class Node:
    __slots__ = ('id', 'kind', 'ast', 'func', 'lineno', 'with_stack',
                 'frames', 'succ', 'exprs', 'polarity', 'atom', 'handler_of',
                 'fin_of', 'defs', 'tag', 'classes', 'item')

    def __init__(self, id_, kind, ast_node, func):
        self.id = id_
        self.kind = kind
        self.ast = ast_node
        self.func = func
        self.lineno = getattr(ast_node, 'lineno', 0) if ast_node is not None \
            else 0
        self.with_stack = ()
        self.frames = ()
        self.succ = []          # (dst id, label)
        self.exprs = []         # expressions evaluated at this node
        self.polarity = None    # for 'return' nodes: 'T' | 'F' | 'N'
        self.atom = None        # for 'cond'
        self.handler_of = None  # id of the enclosing handler entry node
        self.fin_of = None      # for 'reraise': id of the finaliser copy entry
        self.defs = []          # names (re)defined when the node completes
        self.tag = ''
        self.classes = None     # handler: caught class names (None = bare)
        self.item = None        # with_enter/with_exit: the withitem

    def __repr__(self):
        return '<N%d %s L%d>' % (self.id, self.kind, self.lineno)


class TryFrame:
    def __init__(self, handlers):
        self.handlers = handlers      # list of (classes or None, node id)


class FinFrame:
    def __init__(self, entry):
        self.entry = entry            # node id of the exception copy entry


class _Ctx:
    def __init__(self, frames=(), ret=None, brk=None, cont=None,
                 with_stack=(), handler=None):
        self.frames = frames
        self.ret = ret
        self.brk = brk
        self.cont = cont
        self.with_stack = with_stack
        self.handler = handler

    def copy(self, **kw):
        c = _Ctx(self.frames, self.ret, self.brk, self.cont, self.with_stack,
                 self.handler)
        for k, v in kw.items():
            setattr(c, k, v)
        return c


def exc_class_names(prog, func, type_expr):
    """Names caught by an ``except`` clause (short builtin names)."""
    if type_expr is None:
        return None
    exprs = type_expr.elts if isinstance(type_expr, ast.Tuple) else [type_expr]
    out = []
    for e in exprs:
        d = prog.dotted(e, func)
        if d is None:
            out.append('Exception')
        elif d.startswith('builtins.'):
            out.append(d[len('builtins.'):])
        else:
            out.append(d)
    return out


class CFG:
    def __init__(self, prog, func):
        self.prog = prog
        self.func = func
        self.nodes = []
        self.bool_locals = _bool_only_locals(prog, func)
        self.flag_names = set(self.bool_locals) | _const_flags(func)
        self.exit_t = self._new('exit_t', None).id
        self.exit_f = self._new('exit_f', None).id
        self.exit_n = self._new('exit_n', None).id
        exits = {'T': self.exit_t, 'F': self.exit_f, 'N': self.exit_n}
        ctx = _Ctx(ret=lambda k: exits[k])
        body = func.node.body
        first = self._stmts(body, ctx, self.exit_f)
        ent = self._new('entry', func.node)
        ent.defs = func.all_param_names() + (
            [func.self_name] if func.self_name else [])
        ent.succ.append((first, None))
        self.entry = ent.id
        self._rd = None

    # ------------------------------------------------------------------
    def _new(self, kind, ast_node, ctx=None):
        n = Node(len(self.nodes), kind, ast_node, self.func)
        if ctx is not None:
            n.frames = ctx.frames
            n.with_stack = ctx.with_stack
            n.handler_of = ctx.handler
        self.nodes.append(n)
        return n

    def _stmts(self, stmts, ctx, nxt):
        for st in reversed(stmts):
            nxt = self._stmt(st, ctx, nxt)
        return nxt

    def _stmt(self, st, ctx, nxt):
        if isinstance(st, ast.Expr) and isinstance(st.value, ast.Constant):
            return nxt                      # docstring / bare constant
        if (isinstance(st, ast.Assign) and len(st.targets) == 1 and
                isinstance(st.targets[0], ast.Name) and
                st.targets[0].id in self.bool_locals and
                not isinstance(st.value, ast.Constant)):
            # a local that is only ever used as a truth value: branch on the
            # assigned expression and record which way it went, so that a
            # later test of the local is path-sensitive
            name = st.targets[0].id
            outs = []
            for val in (True, False):
                syn = ast.copy_location(ast.Assign(
                    targets=[ast.Name(id=name, ctx=ast.Store())],
                    value=ast.Constant(value=val)), st)
                ast.fix_missing_locations(syn)
                n = self._new('stmt', syn, ctx)
                n.exprs = []
                n.defs = [name]
                n.tag = 'boolflag'
                n.succ.append((nxt, None))
                outs.append(n.id)
            return self._cond(st.value, ctx, outs[0], outs[1])
        if isinstance(st, (ast.Assign, ast.AugAssign, ast.AnnAssign, ast.Expr,
                           ast.Delete, ast.Pass, ast.Assert)):
            n = self._new('stmt', st, ctx)
            n.exprs = [st]
            n.defs = _targets(st)
            n.succ.append((nxt, None))
            return n.id
        if isinstance(st, ast.If):
            t = self._stmts(st.body, ctx, nxt)
            f = self._stmts(st.orelse, ctx, nxt)
            return self._cond(st.test, ctx, t, f)
        if isinstance(st, ast.While):
            head = self._new('join', st, ctx)
            after = self._stmts(st.orelse, ctx, nxt)
            bctx = ctx.copy(brk=lambda: nxt, cont=lambda: head.id)
            body = self._stmts(st.body, bctx, head.id)
            c = self._cond(st.test, ctx, body, after)
            head.succ.append((c, None))
            return head.id
        if isinstance(st, ast.For):
            head = self._new('for_next', st, ctx)
            head.defs = _names_in_target(st.target)
            after = self._stmts(st.orelse, ctx, nxt)
            bctx = ctx.copy(brk=lambda: nxt, cont=lambda: head.id)
            body = self._stmts(st.body, bctx, head.id)
            head.succ.append((body, ('iter', st)))
            head.succ.append((after, ('done', st)))
            init = self._new('for_iter', st, ctx)
            init.exprs = [st.iter]
            init.succ.append((head.id, None))
            return init.id
        if isinstance(st, ast.Return):
            return self._return(st, ctx)
        if isinstance(st, ast.Raise):
            n = self._new('raise', st, ctx)
            n.exprs = [e for e in (st.exc, st.cause) if e is not None]
            return n.id
        if isinstance(st, ast.Break):
            if ctx.brk is None:
                raise AnalysisError('break outside loop')
            return ctx.brk()
        if isinstance(st, ast.Continue):
            if ctx.cont is None:
                raise AnalysisError('continue outside loop')
            return ctx.cont()
        if isinstance(st, ast.Try):
            return self._try(st, ctx, nxt)
        if isinstance(st, ast.With):
            return self._with(st, list(st.items), st.body, ctx, nxt)
        if isinstance(st, (ast.Import, ast.ImportFrom)):
            return nxt
        raise AnalysisError('unsupported statement %s at %s:%d' % (
            type(st).__name__, self.func.file, st.lineno))

    # ------------------------------------------------------------------
    def _cond(self, e, ctx, t, f):
        if isinstance(e, ast.BoolOp):
            vals = list(e.values)
            if isinstance(e.op, ast.And):
                nxt = t
                for v in reversed(vals):
                    nxt = self._cond(v, ctx, nxt, f)
                return nxt
            nxt = f
            for v in reversed(vals):
                nxt = self._cond(v, ctx, t, nxt)
            return nxt
        if isinstance(e, ast.UnaryOp) and isinstance(e.op, ast.Not):
            return self._cond(e.operand, ctx, f, t)
        if isinstance(e, ast.Constant):
            return t if e.value else f
        if isinstance(e, ast.Compare) and len(e.ops) == 1 and isinstance(
                e.ops[0], (ast.NotEq, ast.IsNot, ast.NotIn)):
            # one spelling per comparison: ``a != b`` is the positive test
            # ``a == b`` with the branches swapped (the operands are shared
            # with the source expression)
            pos = {ast.NotEq: ast.Eq, ast.IsNot: ast.Is,
                   ast.NotIn: ast.In}[type(e.ops[0])]
            e2 = ast.copy_location(ast.Compare(
                left=e.left, ops=[pos()], comparators=e.comparators), e)
            n = self._new('cond', e, ctx)
            n.atom = e2
            n.exprs = [e]
            n.succ.append((f, ('T', e2)))
            n.succ.append((t, ('F', e2)))
            return n.id
        n = self._new('cond', e, ctx)
        n.atom = e
        n.exprs = [e]
        n.succ.append((t, ('T', e)))
        n.succ.append((f, ('F', e)))
        return n.id

    def _return(self, st, ctx):
        v = st.value

        def ret(pol):
            n = self._new('return', st, ctx)
            n.polarity = pol
            n.succ.append((ctx.ret(pol), None))
            return n

        if v is None or (isinstance(v, ast.Constant) and not v.value):
            return ret('F').id
        if isinstance(v, ast.Constant):
            return ret('T').id
        if isinstance(v, (ast.BoolOp, ast.Compare, ast.Call)) or (
                isinstance(v, ast.UnaryOp) and isinstance(v.op, ast.Not)) or (
                isinstance(v, ast.Name) and v.id in self.flag_names):
            # (a result variable that only ever holds True/False is returned
            # like the test it stands for)
            t = ret('T')
            f = ret('F')
            return self._cond(v, ctx, t.id, f.id)
        n = ret('N')
        n.exprs = [v]
        return n.id

    # ------------------------------------------------------------------
    def _finalised(self, ctx, build_fin):
        """Context for a region protected by a finaliser.  build_fin(tag,
        continuation node id) builds a fresh copy of the finaliser and
        returns its entry."""
        memo = {}

        def ret(kind):
            k = ('ret', kind)
            if k not in memo:
                memo[k] = build_fin('return', ctx.ret(kind))
            return memo[k]

        def brk():
            if 'brk' not in memo:
                memo['brk'] = build_fin('break', ctx.brk())
            return memo['brk']

        def cont():
            if 'cont' not in memo:
                memo['cont'] = build_fin('continue', ctx.cont())
            return memo['cont']

        rr = self._new('reraise', None, ctx)
        fe = build_fin('exception', rr.id)
        rr.fin_of = fe
        inner = ctx.copy(
            frames=(FinFrame(fe),) + ctx.frames, ret=ret,
            brk=brk if ctx.brk else None, cont=cont if ctx.cont else None)
        return inner

    def _try(self, st, ctx, nxt):
        if st.finalbody:
            def build_fin(tag, k):
                e = self._stmts(st.finalbody, ctx, k)
                return e
            fin_normal = build_fin('normal', nxt)
            inner = self._finalised(ctx, build_fin)
            after = fin_normal
        else:
            inner = ctx
            after = nxt
        handlers = []
        for h in st.handlers:
            hn = self._new('handler', h, inner)
            hn.classes = exc_class_names(self.prog, self.func, h.type)
            if h.name:
                hn.defs = [h.name]
            hctx = inner.copy(handler=hn.id)
            body = self._stmts(h.body, hctx, after)
            hn.succ.append((body, None))
            handlers.append((hn.classes, hn.id))
        else_entry = self._stmts(st.orelse, inner, after)
        bctx = inner.copy(frames=(TryFrame(handlers),) + inner.frames) \
            if handlers else inner
        return self._stmts(st.body, bctx, else_entry)

    def _with(self, st, items, body, ctx, nxt):
        item = items[0]

        def build_fin(tag, k):
            x = self._new('with_exit', st, ctx)
            x.item = item
            x.tag = tag
            x.succ.append((k, None))
            return x.id

        fin_normal = build_fin('normal', nxt)
        inner = self._finalised(ctx, build_fin)
        inner = inner.copy(with_stack=ctx.with_stack + (item,))
        if len(items) > 1:
            b = self._with(st, items[1:], body, inner, fin_normal)
        else:
            b = self._stmts(body, inner, fin_normal)
        ent = self._new('with_enter', st, ctx)
        ent.item = item
        ent.exprs = [item.context_expr]
        if item.optional_vars is not None:
            ent.defs = _names_in_target(item.optional_vars)
        ent.succ.append((b, None))
        return ent.id

    # ------------------------------------------------------------------
    # reaching definitions (over normal edges plus a conservative
    # treatment of exception edges: a handler/finaliser entry may be reached
    # from any node of its protected region)
    def reaching_defs(self):
        if self._rd is not None:
            return self._rd
        preds = {n.id: [] for n in self.nodes}
        for n in self.nodes:
            for d, _ in n.succ:
                preds[d].append(n.id)
            for fr in n.frames:
                if isinstance(fr, TryFrame):
                    for _, hid in fr.handlers:
                        preds[hid].append(('exc', n.id))
                else:
                    preds[fr.entry].append(('exc', n.id))
        IN = {n.id: {} for n in self.nodes}
        OUT = {n.id: {} for n in self.nodes}
        changed = True
        order = [n.id for n in self.nodes]
        while changed:
            changed = False
            for nid in order:
                n = self.nodes[nid]
                new_in = {}
                for p in preds[nid]:
                    if isinstance(p, tuple):
                        # exception edge: defs before or after p completed
                        src = _merge(IN[p[1]], OUT[p[1]])
                    else:
                        src = OUT[p]
                    for k, v in src.items():
                        s = new_in.get(k)
                        if s is None:
                            new_in[k] = set(v)
                        else:
                            s |= v
                if new_in != IN[nid]:
                    IN[nid] = new_in
                    changed = True
                out = dict(new_in)
                for name in n.defs:
                    out[name] = {nid}
                if out != OUT[nid]:
                    OUT[nid] = out
                    changed = True
        self._rd = IN
        return IN

    def def_value(self, nid, name):
        """The expression assigned to ``name`` by node nid, or a marker
        tuple: ('param',name) / ('iter', iter expr) / ('with', ctx expr) /
        ('exc',) / ('unpack', value, index) / ('aug', stmt)."""
        n = self.nodes[nid]
        if n.kind == 'entry':
            return ('param', name)
        if n.kind == 'for_next':
            return ('iter', n.ast.iter, n.ast.target)
        if n.kind == 'with_enter':
            return ('with', n.item.context_expr)
        if n.kind == 'handler':
            return ('exc',)
        st = n.ast
        if isinstance(st, ast.Assign):
            for t in st.targets:
                if isinstance(t, ast.Name) and t.id == name:
                    return st.value
                if isinstance(t, (ast.Tuple, ast.List)):
                    for i, e in enumerate(t.elts):
                        if isinstance(e, ast.Name) and e.id == name:
                            return ('unpack', st.value, i)
        if isinstance(st, ast.AnnAssign):
            return st.value
        if isinstance(st, ast.AugAssign):
            return ('aug', st)
        return ('unknown',)


def _merge(a, b):
    out = {k: set(v) for k, v in a.items()}
    for k, v in b.items():
        out.setdefault(k, set()).update(v)
    return out


def _names_in_target(t):
    return [n.id for n in ast.walk(t)
            if isinstance(n, ast.Name) and isinstance(n.ctx, ast.Store)]


def _targets(st):
    if isinstance(st, ast.Assign):
        r = []
        for t in st.targets:
            if isinstance(t, (ast.Name, ast.Tuple, ast.List)):
                r += _names_in_target(t)
        return r
    if isinstance(st, (ast.AugAssign, ast.AnnAssign)):
        if isinstance(st.target, ast.Name):
            return [st.target.id]
    return []


def ordered_calls(expr_list):
    """Calls in (approximate) evaluation order: (call, conditional).  A call
    is conditional when it sits in a short-circuited operand, a conditional
    expression arm or a comprehension body.  Lambda bodies are not evaluated
    at the statement and are skipped."""
    out = []

    def visit(e, cond):
        if isinstance(e, ast.Lambda):
            # the body may run (e.g. iter(lambda: f.read(n), b'')): its
            # calls are conditional calls of the statement
            visit(e.body, True)
            return
        if isinstance(e, ast.BoolOp):
            visit(e.values[0], cond)
            for v in e.values[1:]:
                visit(v, True)
            return
        if isinstance(e, ast.IfExp):
            visit(e.test, cond)
            visit(e.body, True)
            visit(e.orelse, True)
            return
        if isinstance(e, (ast.ListComp, ast.SetComp, ast.GeneratorExp,
                          ast.DictComp)):
            gens = e.generators
            visit(gens[0].iter, cond)
            for g in gens:
                for i in g.ifs:
                    visit(i, True)
            for g in gens[1:]:
                visit(g.iter, True)
            if isinstance(e, ast.DictComp):
                visit(e.key, True)
                visit(e.value, True)
            else:
                visit(e.elt, True)
            return
        if isinstance(e, ast.Call):
            # receiver / callee expression first, then arguments, then call
            visit(e.func, cond)
            for a in e.args:
                visit(a, cond)
            for k in e.keywords:
                visit(k.value, cond)
            out.append((e, cond))
            return
        for c in ast.iter_child_nodes(e):
            visit(c, cond)

    for e in expr_list:
        visit(e, False)
    return out


def lambdas_in(expr_list):
    r = []
    for e in expr_list:
        for n in ast.walk(e):
            if isinstance(n, ast.Lambda):
                r.append(n)
    return r


class CFGs:
    def __init__(self, prog):
        self.prog = prog
        self._c = {}

    def get(self, func):
        q = func.qualname
        if q not in self._c:
            self._c[q] = CFG(self.prog, self.prog.funcs[q])
        return self._c[q]

    def total_nodes(self):
        for f in self.prog.funcs.values():
            self.get(f)
        return sum(len(c.nodes) for c in self._c.values())


def _const_flags(func):
    """Locals assigned only the constants True/False/None."""
    vals = {}
    for n in ast.walk(func.node):
        if isinstance(n, ast.Assign):
            for t in n.targets:
                for nm in ast.walk(t):
                    if isinstance(nm, ast.Name):
                        ok = isinstance(t, ast.Name) and isinstance(
                            n.value, ast.Constant) and (
                                n.value.value is True or
                                n.value.value is False or
                                n.value.value is None)
                        vals.setdefault(nm.id, []).append(ok)
        elif isinstance(n, (ast.AugAssign, ast.For, ast.NamedExpr)):
            for nm in ast.walk(n.target):
                if isinstance(nm, ast.Name):
                    vals.setdefault(nm.id, []).append(False)
        elif isinstance(n, ast.With):
            for it in n.items:
                if it.optional_vars is not None:
                    for nm in ast.walk(it.optional_vars):
                        if isinstance(nm, ast.Name):
                            vals.setdefault(nm.id, []).append(False)
        elif isinstance(n, ast.ExceptHandler) and n.name:
            vals.setdefault(n.name, []).append(False)
    params = set(func.all_param_names())
    return {k for k, v in vals.items() if all(v) and k not in params}


def _bool_only_locals(prog, func):
    """Locals whose every assignment is a boolean-ish expression and whose
    every use is a truth-value use (a test, an operand of not/and/or inside
    a test, or the right-hand side of another such local)."""
    cands = {}
    bad = set(func.all_param_names())
    for n in ast.walk(func.node):
        if isinstance(n, ast.Assign):
            if len(n.targets) == 1 and isinstance(n.targets[0], ast.Name):
                v = n.value
                ok = isinstance(v, (ast.BoolOp, ast.Compare, ast.Call,
                                    ast.Name)) or (
                    isinstance(v, ast.UnaryOp) and isinstance(
                        v.op, ast.Not)) or (
                    isinstance(v, ast.Constant) and (
                        v.value is True or v.value is False))
                cands.setdefault(n.targets[0].id, []).append(ok)
            else:
                for t in n.targets:
                    for nm in ast.walk(t):
                        if isinstance(nm, ast.Name) and isinstance(
                                nm.ctx, ast.Store):
                            bad.add(nm.id)
        elif isinstance(n, (ast.AugAssign, ast.AnnAssign, ast.For,
                            ast.NamedExpr)):
            for nm in ast.walk(n.target):
                if isinstance(nm, ast.Name):
                    bad.add(nm.id)
        elif isinstance(n, ast.With):
            for it in n.items:
                if it.optional_vars is not None:
                    for nm in ast.walk(it.optional_vars):
                        if isinstance(nm, ast.Name):
                            bad.add(nm.id)
        elif isinstance(n, ast.ExceptHandler) and n.name:
            bad.add(n.name)
        elif isinstance(n, (ast.ListComp, ast.SetComp, ast.DictComp,
                            ast.GeneratorExp)):
            for g in n.generators:
                for nm in ast.walk(g.target):
                    if isinstance(nm, ast.Name):
                        bad.add(nm.id)
    names = {k for k, v in cands.items() if all(v) and k not in bad}
    # a local that is returned is a boolean result variable only if it is
    # also assigned a literal True/False somewhere (``ok = False ... ok =
    # f(x) ... return ok``); ``x = f(); return x`` returns a value
    def boolean(v):
        # syntactically a truth value whatever its operands are
        if isinstance(v, ast.Constant):
            return v.value is True or v.value is False
        if isinstance(v, ast.UnaryOp):
            return isinstance(v.op, ast.Not)
        if isinstance(v, ast.Compare):
            return True
        if isinstance(v, ast.BoolOp):
            return all(boolean(x) for x in v.values)
        return False
    has_bool_const = {
        n.targets[0].id for n in ast.walk(func.node)
        if isinstance(n, ast.Assign) and len(n.targets) == 1 and
        isinstance(n.targets[0], ast.Name) and boolean(n.value)}
    returned = {n.value.id for n in ast.walk(func.node)
                if isinstance(n, ast.Return) and isinstance(
                    n.value, ast.Name)}
    names -= (returned - has_bool_const)
    # at least one non-constant assignment (constant-only ones are flags
    # already) - harmless either way
    changed = True
    while changed:
        changed = False
        for n in ast.walk(func.node):
            if isinstance(n, ast.Name) and isinstance(n.ctx, ast.Load) and \
                    n.id in names:
                if not _truth_use(prog, n, names):
                    names.discard(n.id)
                    changed = True
        # a bool local assigned from a Name must be assigned from a bool
        # local
        for n in ast.walk(func.node):
            if isinstance(n, ast.Assign) and len(n.targets) == 1 and \
                    isinstance(n.targets[0], ast.Name) and \
                    n.targets[0].id in names and isinstance(
                        n.value, ast.Name) and n.value.id not in names:
                names.discard(n.targets[0].id)
                changed = True
    return names


def _truth_use(prog, name_node, names):
    cur = name_node
    while True:
        par = prog.parent(cur)
        if par is None:
            return False
        if isinstance(par, ast.UnaryOp) and isinstance(par.op, ast.Not):
            cur = par
            continue
        if isinstance(par, ast.BoolOp):
            cur = par
            continue
        if isinstance(par, (ast.If, ast.While, ast.IfExp)) and \
                par.test is cur:
            return True
        if isinstance(par, ast.Assert) and par.test is cur:
            return True
        if isinstance(par, ast.Return) and par.value is cur and \
                cur is name_node:
            # ``return result`` of a boolean result variable is returned
            # like the test it stands for (see _return)
            return True
        if isinstance(par, ast.Assign) and par.value is cur and \
                len(par.targets) == 1 and isinstance(
                    par.targets[0], ast.Name) and par.targets[0].id in names:
            return True
        return False
