"""Path queries on supergraphs."""
from .model import Func
from .supergraph import callee_name


def is_call(sn, names):
    """The node begins a call (inlined or opaque) to one of ``names``."""
    if sn.kind not in ('leaf', 'enter'):
        return False
    n = callee_name(sn)
    return n in names if not isinstance(names, str) else n == names


def is_done(sn, names):
    """The node marks normal completion of a call to one of ``names``."""
    if sn.kind != 'ret':
        return False
    n = callee_name(sn)
    return n in names if not isinstance(names, str) else n == names


def first_unguarded(sg, start_ids, guard, target, edge_ok=None):
    """Search from start_ids without entering ``guard`` nodes; return a
    witness path (list of node ids) to the first ``target`` node reached, or
    None.  I.e. None <=> every path from the starts to a target passes a
    guard node."""
    seen = sg.reach(start_ids, avoid=guard, edge_ok=edge_ok)
    for nid in sorted(seen):
        if target(sg.nodes[nid]):
            return sg.witness(seen, nid)
    return None


def all_unguarded(sg, start_ids, guard, target, edge_ok=None):
    seen = sg.reach(start_ids, avoid=guard, edge_ok=edge_ok)
    return [sg.witness(seen, nid) for nid in sorted(seen)
            if target(sg.nodes[nid])]


def normal_edge(a, b, lab):
    return not (isinstance(lab, tuple) and lab[0] == 'exc')


def fact_edge(lab, polarity, pred):
    """Edge label is a branch fact of the given polarity whose atom
    satisfies pred(atom, func)."""
    return (isinstance(lab, tuple) and lab[0] == polarity and
            len(lab) == 4 and pred(lab[1], lab[2], lab[3]))


# ----------------------------------------------------------------------
# flag-sensitive reachability: locals that are only ever assigned the
# constants True/False/None are tracked along the path, and branches on them
# that contradict the tracked value are pruned.
import ast as _ast


def bool_flags(func):
    """Local names of func assigned only constant True/False/None."""
    vals = {}
    for n in _ast.walk(func.node):
        if isinstance(n, _ast.Assign):
            for t in n.targets:
                for nm in _ast.walk(t):
                    if isinstance(nm, _ast.Name):
                        ok = isinstance(t, _ast.Name) and isinstance(
                            n.value, _ast.Constant) and (
                                n.value.value in (True, False, None))
                        vals.setdefault(nm.id, []).append(ok)
        elif isinstance(n, (_ast.AugAssign, _ast.For, _ast.With,
                            _ast.ExceptHandler, _ast.NamedExpr)):
            for nm in _ast.walk(n.target if hasattr(n, 'target') else n):
                if isinstance(nm, _ast.Name) and isinstance(
                        nm.ctx, _ast.Store):
                    vals.setdefault(nm.id, []).append(False)
    params = set(func.all_param_names())
    return {k for k, v in vals.items() if all(v) and k not in params}


def reach_flags(sg, starts, avoid=None, edge_ok=None, init=None):
    """Flag-sensitive search (kept for callers; Super.reach is flag-
    sensitive itself).  ``init``: {name: bool} for locals of the root frame.
    Returns the Reach object; its ``states`` are keyed (node, valuation)."""
    root_frame = sg.nodes[sg.entry].frame
    init2 = {(id(root_frame), k): v for k, v in (init or {}).items()}
    r = sg.reach(starts, avoid=avoid, edge_ok=edge_ok, init=init2)
    return r


def flag_witness(sg, seen, target_pred):
    for n in sorted(seen):
        if target_pred(sg.nodes[n]):
            return sg.witness(seen, n)
    return None


def flag_valuations_at(sg, seen, node_id):
    """Root-frame flag valuations with which node_id was reached."""
    root_frame = sg.nodes[sg.entry].frame
    out = set()
    for (n, st) in seen.states:
        if n == node_id:
            out.add(tuple(sorted((k[1], v) for k, v in st
                                 if k[0] == id(root_frame))))
    return sorted(out)


def enumerate_paths(sg, start, end_pred, avoid=None, max_paths=4000,
                    max_visits=1):
    """All paths (each node at most max_visits times) from start to a node
    satisfying end_pred; yields (node id list, fact list) where facts are
    the (polarity, atom, func, cn) labels passed."""
    from .model import AnalysisError
    out = []
    stack = [(start, [start], [], {start: 1}, {})]
    while stack:
        n, path, facts, visits, val = stack.pop()
        sn = sg.nodes[n]
        if end_pred(sn) and len(path) > 1:
            out.append((path, facts))
            if len(out) > max_paths:
                raise AnalysisError('path budget exceeded in %s' %
                                    sg.root.qualname)
            continue
        val2 = sg._flag_update(sn, val)
        for d, lab in sn.succ:
            if sg._flag_blocks(sn, lab, val2):
                continue
            if visits.get(d, 0) >= max_visits and not end_pred(sg.nodes[d]):
                continue
            if avoid is not None and avoid(sg.nodes[d]):
                continue
            v2 = dict(visits)
            v2[d] = v2.get(d, 0) + 1
            f2 = facts
            if isinstance(lab, tuple) and len(lab) == 4 and \
                    lab[0] in ('T', 'F'):
                f2 = facts + [lab]
            stack.append((d, path + [d], f2, v2, val2))
    return out


# ----------------------------------------------------------------------
# control dependence (normal flow only)
def control_facts(sg, site_id):
    """Branch facts (pol, atom, func, cn) the node ``site_id`` is
    transitively control-dependent on, considering normal control flow only
    (exception edges of calls are ignored; an explicit raise ends a path).
    A node T is control-dependent on a branch edge x -> d when every normal
    path from d runs through T while the other side of the branch can finish
    without it.  Independent of how the code is split into helpers: a test
    both of whose outcomes lead to T (``if isdir(p): make_room(p)``) is not
    a condition of T.  Validations (the other side of the branch only raises)
    are not conditions and are not followed transitively."""
    exits = set(sg.normal_exits())

    def through(d, T):
        """T is reachable from d and no normal exit is reachable from d
        without passing T."""
        if d == T:
            return True
        r_all = sg.reach([d], edge_ok=normal_edge)
        if T not in r_all:
            return False
        r_avoid = sg.reach([d], avoid=lambda n: n.id == T,
                           edge_ok=normal_edge)
        return not (exits & set(r_avoid))

    branches = []
    for x in sg.nodes:
        outs = [(d, lab) for d, lab in x.succ
                if isinstance(lab, tuple) and len(lab) == 4 and
                lab[0] in ('T', 'F')]
        if len(outs) >= 2:
            branches.append((x, outs))
    found = {}
    todo = [site_id]
    seen_t = set()
    while todo:
        T = todo.pop()
        if T in seen_t:
            continue
        seen_t.add(T)
        for x, outs in branches:
            if x.id == T:
                continue
            th = [(d, lab, through(d, T)) for d, lab in outs]
            if any(t for _, _, t in th) and not all(t for _, _, t in th):
                # a guard whose other side can only raise is a validation
                # of arguments/state, not a condition of T
                dead = True
                for d, lab, t in th:
                    if not t:
                        r = sg.reach([d], edge_ok=normal_edge)
                        if T in r or (exits & set(r)):
                            dead = False
                if dead:
                    continue
                for d, lab, t in th:
                    if t:
                        k = (x.id, lab[0])
                        if k not in found:
                            found[k] = lab
                            todo.append(x.id)
    return list(found.values())
