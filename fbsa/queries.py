"""Path queries on supergraphs."""
from .model import Func
from .supergraph import callee_name


def is_call(sn, names):
    """The node begins a call (inlined or opaque) to one of ``names``."""
    if sn.kind not in ('leaf', 'enter'):
        return False
    n = callee_name(sn)
    return n in names if not isinstance(names, str) else n == names


def is_done(sn, names):
    """The node marks normal completion of a call to one of ``names``."""
    if sn.kind != 'ret':
        return False
    n = callee_name(sn)
    return n in names if not isinstance(names, str) else n == names


def first_unguarded(sg, start_ids, guard, target, edge_ok=None):
    """Search from start_ids without entering ``guard`` nodes; return a
    witness path (list of node ids) to the first ``target`` node reached, or
    None.  I.e. None <=> every path from the starts to a target passes a
    guard node."""
    seen = sg.reach(start_ids, avoid=guard, edge_ok=edge_ok)
    for nid in sorted(seen):
        if target(sg.nodes[nid]):
            return sg.witness(seen, nid)
    return None


def all_unguarded(sg, start_ids, guard, target, edge_ok=None):
    seen = sg.reach(start_ids, avoid=guard, edge_ok=edge_ok)
    return [sg.witness(seen, nid) for nid in sorted(seen)
            if target(sg.nodes[nid])]


def normal_edge(a, b, lab):
    return not (isinstance(lab, tuple) and lab[0] == 'exc')


def fact_edge(lab, polarity, pred):
    """Edge label is a branch fact of the given polarity whose atom
    satisfies pred(atom, func)."""
    return (isinstance(lab, tuple) and lab[0] == polarity and
            len(lab) == 4 and pred(lab[1], lab[2], lab[3]))
