"""De-extraction: private helpers that do not exist on the confirmed tree are
inlined into their callers before the program model is built.

The rules are written against the decomposition into functions that was read
and confirmed (anchors.json).  "Extract method" is the most common
refactoring; instead of teaching every rule to look through helpers it has
never seen, a helper that is new (its qualified name is not a canonical one
and it was not recognised as a rename) is folded back into each call site
where that can be done by a purely syntactic, semantics-preserving rewrite:

  * the call is a whole statement (``h(a)``), the right-hand side of an
    assignment (``x = h(a)``) or a returned value (``return h(a)``);
  * arguments are bound to fresh temporaries in order (so the evaluation
    order is kept), the helper's locals are renamed apart, its ``self`` is
    the receiver of the call;
  * a helper whose only ``return`` is its last statement can be inlined in
    all three positions; any helper can be inlined in return position (its
    returns stay returns); a helper that only has bare ``return``s outside
    loops can be inlined as a statement (a one-trip ``while True`` whose
    ``break`` stands for the return).

A helper that is recursive, a generator, decorated (other than
``staticmethod``), or called in any other position stays a function - the
interprocedural graphs inline it where the rules ask for that.
"""
import ast
import copy


# a helper is found by its name at syntactic call sites: a name that is also
# a method of the built-in containers / strings / files cannot be told from
# ``some_set.add(x)`` and is never folded
_BUILTIN_METHODS = set()
for _t in (list, dict, set, frozenset, str, bytes, tuple, int, float,
           object):
    _BUILTIN_METHODS |= {n for n in dir(_t) if not n.startswith('__')}
_BUILTIN_METHODS |= {'read', 'write', 'close', 'readline', 'readlines',
                     'flush', 'seek', 'acquire', 'release', 'put',
                     'hexdigest', 'digest', 'info', 'error', 'warning',
                     'debug', 'exception', 'name', 'value'}


def _is_private(name):
    return name.startswith('_') and not (name.startswith('__') and
                                         name.endswith('__'))


class _Ctx:
    def __init__(self):
        self.n = 0


def _returns(fn):
    out = []

    def walk(node, in_loop, top):
        for ch in ast.iter_child_nodes(node):
            if isinstance(ch, (ast.FunctionDef, ast.Lambda, ast.ClassDef)):
                continue
            if isinstance(ch, ast.Return):
                out.append((ch, in_loop))
            walk(ch, in_loop or isinstance(ch, (ast.For, ast.While)), False)
    walk(fn, False, True)
    return out


def _body(fn):
    return [b for b in fn.body if not (
        isinstance(b, ast.Expr) and isinstance(b.value, ast.Constant) and
        isinstance(b.value.value, str))]


def _shape(fn):
    """'simple' (no return / one return as the last statement), 'guard'
    (only bare returns, none inside a loop), or 'general'."""
    body = _body(fn)
    rets = _returns(fn)
    if not rets:
        return 'simple'
    if len(rets) == 1 and body and rets[0][0] is body[-1]:
        return 'simple'
    if all(r.value is None and not in_loop for r, in_loop in rets):
        return 'guard'
    return 'general'


def _tail_only(body, rets):
    """Every return of ``rets`` is in tail position of ``body`` (the last
    statement, recursively through if/else)."""
    ids = {id(r) for r, _ in rets}
    seen = set()

    def tail(stmts):
        if not stmts:
            return
        last = stmts[-1]
        if isinstance(last, ast.Return):
            seen.add(id(last))
        elif isinstance(last, ast.If):
            tail(last.body)
            tail(last.orelse)
    tail(body)
    return ids <= seen


def _convert_tail(stmts, make):
    """Replace tail returns by ``make(value)`` (a list of statements)."""
    if not stmts:
        return stmts
    last = stmts[-1]
    if isinstance(last, ast.Return):
        return stmts[:-1] + make(last.value)
    if isinstance(last, ast.If):
        last.body = _convert_tail(last.body, make) or [ast.Pass()]
        last.orelse = _convert_tail(last.orelse, make)
    return stmts


def _terminates(stmts):
    """Control cannot fall off the end of the statement list."""
    if not stmts:
        return False
    last = stmts[-1]
    if isinstance(last, (ast.Return, ast.Raise)):
        return True
    if isinstance(last, ast.If):
        return _terminates(last.body) and _terminates(last.orelse)
    if isinstance(last, ast.With):
        return False        # a context manager may swallow the exception
    return False


def _inlinable(fn):
    for d in fn.decorator_list:
        if not (isinstance(d, ast.Name) and d.id == 'staticmethod'):
            return False
    for n in ast.walk(fn):
        if isinstance(n, (ast.Yield, ast.YieldFrom, ast.Lambda, ast.Global,
                          ast.Nonlocal, ast.NamedExpr)):
            return False
        if isinstance(n, (ast.FunctionDef, ast.ClassDef)) and n is not fn:
            return False
        if isinstance(n, ast.Call):
            f = n.func
            nm = f.attr if isinstance(f, ast.Attribute) else (
                f.id if isinstance(f, ast.Name) else None)
            if nm == fn.name:
                return False          # recursive
    a = fn.args
    if a.vararg or a.kwarg or a.kwonlyargs or a.posonlyargs:
        return False
    return True


def _build(fn, is_static, call, recv, caller_self, K):
    """Statements that replace the call, and the expression of its value
    (None if it has none); or None when this site cannot be inlined."""
    params = [x.arg for x in fn.args.args]
    self_name = None if is_static else (params[0] if params else None)
    pnames = params if is_static else params[1:]
    defaults = dict(zip(params[len(params) - len(fn.args.defaults):],
                        fn.args.defaults))
    if any(isinstance(x, ast.Starred) for x in call.args) or any(
            k.arg is None for k in call.keywords):
        return None
    if len(call.args) > len(pnames):
        return None
    bound = dict(zip(pnames, call.args))
    for kw in call.keywords:
        if kw.arg not in pnames or kw.arg in bound:
            return None
        bound[kw.arg] = kw.value
    stores = {x.id for x in ast.walk(fn) if isinstance(x, ast.Name) and
              isinstance(x.ctx, (ast.Store, ast.Del))}
    stores |= {h.name for h in ast.walk(fn)
               if isinstance(h, ast.ExceptHandler) and h.name}
    K.n += 1
    pre = '_x%d_' % K.n
    ren = {n: pre + n for n in stores | set(pnames)}
    self_sub = None
    stmts = []
    if self_name is not None:
        if recv is None:
            return None
        if isinstance(recv, ast.Name):
            self_sub = recv.id
        else:
            self_sub = pre + 'self'
            stmts.append(ast.Assign(
                targets=[ast.Name(id=self_sub, ctx=ast.Store())],
                value=recv, lineno=call.lineno))
    for pn in pnames:
        v = bound.get(pn, defaults.get(pn))
        if v is None:
            return None
        stmts.append(ast.Assign(targets=[ast.Name(id=ren[pn],
                                                  ctx=ast.Store())],
                                value=v, lineno=call.lineno))

    def rn(node):
        node = copy.deepcopy(node)
        for x in ast.walk(node):
            if isinstance(x, ast.Name):
                if self_name is not None and x.id == self_name:
                    x.id = self_sub
                elif x.id in ren:
                    x.id = ren[x.id]
            elif isinstance(x, ast.ExceptHandler) and x.name in ren:
                x.name = ren[x.name]
            if hasattr(x, 'lineno') and not isinstance(x, ast.stmt):
                pass
        return node
    return stmts, rn


def _inline_site(fn, is_static, stmt, call, recv, caller_self, K):
    shape = _shape(fn)
    body = _body(fn)
    built = _build(fn, is_static, call, recv, caller_self, K)
    if built is None:
        return None
    pre, rn = built
    if isinstance(stmt, ast.Return):
        # tail position: the helper's returns are the caller's returns
        return pre + [rn(b) for b in body] + (
            [] if _terminates(body) else [ast.Return(value=None)])
    if shape == 'simple':
        final = None
        core = body
        if body and isinstance(body[-1], ast.Return):
            final = body[-1].value
            core = body[:-1]
        out = pre + [rn(b) for b in core]
        if isinstance(stmt, ast.Expr):
            if final is not None and not isinstance(
                    final, (ast.Name, ast.Constant)):
                out.append(ast.Expr(value=rn(final)))
            return out or [ast.Pass()]
        if isinstance(stmt, ast.Assign):
            out.append(ast.Assign(
                targets=stmt.targets,
                value=rn(final) if final is not None else ast.Constant(
                    value=None), lineno=stmt.lineno))
            return out
        return None
    if shape == 'general' and _tail_only(body, _returns(fn)) and \
            isinstance(stmt, (ast.Assign, ast.Expr)):
        # every return is the end of a branch: the value goes where the
        # call's value went
        inner = [rn(b) for b in body]
        if isinstance(stmt, ast.Assign):
            def make(v):
                return [ast.Assign(
                    targets=copy.deepcopy(stmt.targets),
                    value=v if v is not None else ast.Constant(value=None),
                    lineno=stmt.lineno)]
        else:
            def make(v):
                if v is None or isinstance(v, (ast.Name, ast.Constant)):
                    return []
                return [ast.Expr(value=v)]
        # a branch that falls off the end yields None
        return pre + _convert_tail(inner, make)
    if shape == 'general' and isinstance(stmt, (ast.Assign, ast.Expr)) \
            and not any(in_loop for _r, in_loop in _returns(fn)):
        # returns anywhere outside loops: a one-trip ``while True`` whose
        # ``break`` stands for the return, the value assigned first
        inner = [rn(b) for b in body]

        def put(v, at):
            if isinstance(stmt, ast.Assign):
                return [ast.copy_location(ast.Assign(
                    targets=copy.deepcopy(stmt.targets),
                    value=v if v is not None else ast.Constant(value=None),
                    lineno=stmt.lineno), at)]
            if v is None or isinstance(v, (ast.Name, ast.Constant)):
                return []
            return [ast.copy_location(ast.Expr(value=v), at)]

        class RV(ast.NodeTransformer):
            def visit_Return(self, n):
                return put(n.value, n) + [ast.copy_location(ast.Break(), n)]

            def visit_For(self, n):
                return n

            def visit_While(self, n):
                return n
        out = []
        for b in inner:
            r = RV().visit(b)
            out.extend(r if isinstance(r, list) else [r])
        tail = [] if (out and isinstance(out[-1], (ast.Break, ast.Raise))) \
            else put(None, stmt) + [ast.Break()]
        loop = ast.While(test=ast.Constant(value=True), body=out + tail,
                         orelse=[], lineno=stmt.lineno)
        return pre + [loop]
    if shape == 'guard' and isinstance(stmt, ast.Expr):
        inner = [rn(b) for b in body]

        class R(ast.NodeTransformer):
            def visit_Return(self, n):
                return ast.copy_location(ast.Break(), n)

            def visit_For(self, n):
                return n

            def visit_While(self, n):
                return n
        inner = [R().visit(b) for b in inner]
        loop = ast.While(test=ast.Constant(value=True),
                         body=inner + [ast.Break()], orelse=[],
                         lineno=stmt.lineno)
        return pre + [loop]
    return None


def _free_globals(fn):
    """Names the function reads that are neither its parameters nor bound
    in it (module-level names and builtins)."""
    import builtins
    bound = {a.arg for a in fn.args.args}
    for x in ast.walk(fn):
        if isinstance(x, ast.Name) and isinstance(x.ctx, (ast.Store,
                                                          ast.Del)):
            bound.add(x.id)
        elif isinstance(x, ast.ExceptHandler) and x.name:
            bound.add(x.name)
        elif isinstance(x, ast.comprehension):
            for t in ast.walk(x.target):
                if isinstance(t, ast.Name):
                    bound.add(t.id)
    return {x.id for x in ast.walk(fn) if isinstance(x, ast.Name) and
            isinstance(x.ctx, ast.Load) and x.id not in bound and
            not hasattr(builtins, x.id)}


def _module_bindings(tree, modname=None):
    """Module-level name -> a text that identifies what it is bound to: an
    import, or (for the module's own classes and functions) the import by
    which a sibling module gets at it."""
    out = {}
    for st in tree.body:
        if modname and isinstance(st, (ast.ClassDef, ast.FunctionDef)):
            out[st.name] = 'from .%s import %s' % (modname, st.name)
        if isinstance(st, ast.Import):
            for a in st.names:
                out[(a.asname or a.name).split('.')[0]] = 'import ' + (
                    a.name if a.asname else a.name.split('.')[0])
        elif isinstance(st, ast.ImportFrom):
            for a in st.names:
                out[a.asname or a.name] = 'from %s%s import %s' % (
                    '.' * st.level, st.module or '', a.name)
    return out


def _binds_otherwise(tree, nm):
    return any(isinstance(x, ast.Name) and x.id == nm and isinstance(
        x.ctx, (ast.Store, ast.Del)) for st in tree.body
        if not isinstance(st, (ast.FunctionDef, ast.ClassDef))
        for x in ast.walk(st)) or any(
        isinstance(st, (ast.FunctionDef, ast.ClassDef)) and st.name == nm
        for st in tree.body)


def _after_imports(tree):
    at = 0
    for i, st in enumerate(tree.body):
        if isinstance(st, (ast.Import, ast.ImportFrom)) or (
                isinstance(st, ast.Expr) and isinstance(
                    st.value, ast.Constant)):
            at = i + 1
    return at


def _hoist_tests(tree, name, K):
    """``if h(..):`` -> ``t = h(..); if t:`` and ``while h(..): body`` ->
    ``while True: t = h(..); if not t: break; body`` for calls of ``name``
    (also under one ``not``).  Evaluation order is unchanged: the test is
    the first thing the statement evaluates."""
    def the_call(test):
        t = test.operand if isinstance(test, ast.UnaryOp) and isinstance(
            test.op, ast.Not) else test
        if isinstance(t, ast.Call):
            f = t.func
            nm = f.attr if isinstance(f, ast.Attribute) else (
                f.id if isinstance(f, ast.Name) else None)
            if nm == name:
                return t
        return None

    def with_temp(test, tmp):
        ref = ast.Name(id=tmp, ctx=ast.Load())
        if isinstance(test, ast.UnaryOp):
            return ast.UnaryOp(op=ast.Not(), operand=ref)
        return ref

    def fix(stmts):
        out = []
        for st in stmts:
            for fld in ('body', 'orelse', 'finalbody'):
                if isinstance(getattr(st, fld, None), list) and not \
                        isinstance(st, (ast.FunctionDef, ast.ClassDef)):
                    setattr(st, fld, fix(getattr(st, fld)))
            if isinstance(st, ast.Try):
                for h in st.handlers:
                    h.body = fix(h.body)
            if isinstance(st, (ast.FunctionDef, ast.ClassDef)):
                st.body = fix(st.body)
            if isinstance(st, ast.If) and the_call(st.test) is not None:
                K.n += 1
                tmp = '_x%d_test' % K.n
                out.append(ast.Assign(
                    targets=[ast.Name(id=tmp, ctx=ast.Store())],
                    value=the_call(st.test), lineno=st.lineno))
                st.test = with_temp(st.test, tmp)
                out.append(st)
            elif isinstance(st, ast.For) and isinstance(
                    st.iter, ast.Call) and the_call(st.iter) is st.iter:
                # the iterable is evaluated once, before the loop
                K.n += 1
                tmp = '_x%d_iter' % K.n
                out.append(ast.Assign(
                    targets=[ast.Name(id=tmp, ctx=ast.Store())],
                    value=st.iter, lineno=st.lineno))
                st.iter = ast.Name(id=tmp, ctx=ast.Load())
                out.append(st)
            elif isinstance(st, ast.While) and not st.orelse and \
                    the_call(st.test) is not None:
                K.n += 1
                tmp = '_x%d_test' % K.n
                asg = ast.Assign(
                    targets=[ast.Name(id=tmp, ctx=ast.Store())],
                    value=the_call(st.test), lineno=st.lineno)
                neg = with_temp(st.test, tmp)
                neg = neg.operand if isinstance(neg, ast.UnaryOp) else \
                    ast.UnaryOp(op=ast.Not(), operand=neg)
                st.body = [asg, ast.If(test=neg, body=[ast.Break()],
                                       orelse=[])] + st.body
                st.test = ast.Constant(value=True)
                out.append(st)
            else:
                out.append(st)
        return out
    tree.body = fix(tree.body)
    ast.fix_missing_locations(tree)


def _own_receiver(n, parents, cls):
    """For ``recv.name`` whose name is defined in several classes: True when
    the receiver is the ``self`` of a method of ``cls`` or ``cls`` itself,
    False when it is the self of / the name of another class, None when it
    cannot be told."""
    if not isinstance(n, ast.Attribute) or not isinstance(n.value, ast.Name):
        return None
    if n.value.id == cls.name:
        return True
    f = parents.get(id(n))
    while f is not None and not isinstance(f, ast.FunctionDef):
        f = parents.get(id(f))
    if f is None:
        return None
    c = parents.get(id(f))
    if not isinstance(c, ast.ClassDef) or not f.args.args or any(
            isinstance(d, ast.Name) and d.id in ('staticmethod',
                                                 'classmethod')
            for d in f.decorator_list):
        return None
    if n.value.id != f.args.args[0].arg:
        return None
    # the receiver is the self of a method of class c (rebinding self is
    # not done in this package and would make the site "cannot be told")
    if any(isinstance(x, ast.Name) and x.id == n.value.id and isinstance(
            x.ctx, (ast.Store, ast.Del)) for x in ast.walk(f)):
        return None
    return c is cls


def _is_cm_decorator(d):
    t = ast.unparse(d)
    return t in ('contextlib.contextmanager', 'contextmanager')


def _cm_inlinable(fn):
    """A generator context manager with exactly one ``yield`` statement,
    outside any loop."""
    decs = fn.decorator_list
    if not decs or not any(_is_cm_decorator(d) for d in decs):
        return False
    for d in decs:
        if not (_is_cm_decorator(d) or (isinstance(d, ast.Name) and
                                        d.id == 'staticmethod')):
            return False
    ys = [n for n in ast.walk(fn) if isinstance(n, (ast.Yield,
                                                    ast.YieldFrom))]
    if len(ys) != 1 or not isinstance(ys[0], ast.Yield):
        return False
    ok = []

    def walk(stmts, in_loop):
        for st in stmts:
            if isinstance(st, ast.Expr) and st.value is ys[0]:
                ok.append(not in_loop)
            for fld in ('body', 'orelse', 'finalbody'):
                v = getattr(st, fld, None)
                if isinstance(v, list):
                    walk(v, in_loop or isinstance(st, (ast.For, ast.While)))
            if isinstance(st, ast.Try):
                for h in st.handlers:
                    walk(h.body, in_loop)
    walk(fn.body, False)
    if ok != [True]:
        return False
    for n in ast.walk(fn):
        if isinstance(n, (ast.Lambda, ast.Global, ast.Nonlocal,
                          ast.NamedExpr)):
            return False
        if isinstance(n, (ast.FunctionDef, ast.ClassDef)) and n is not fn:
            return False
        if isinstance(n, ast.Return) and n.value is not None:
            return False
    a = fn.args
    if a.vararg or a.kwarg or a.kwonlyargs or a.posonlyargs:
        return False
    return True


def _split_with(tree, name):
    """``with a, h(), b: B`` -> nested single-item withs when an item is a
    call of ``name``."""
    class T(ast.NodeTransformer):
        def visit_With(self, n):
            self.generic_visit(n)

            def is_site(it):
                c = it.context_expr
                if not isinstance(c, ast.Call):
                    return False
                f = c.func
                nm = f.attr if isinstance(f, ast.Attribute) else (
                    f.id if isinstance(f, ast.Name) else None)
                return nm == name
            if len(n.items) > 1 and any(is_site(it) for it in n.items):
                body = n.body
                for it in reversed(n.items[1:]):
                    body = [ast.With(items=[it], body=body,
                                     lineno=n.lineno)]
                return ast.copy_location(ast.With(
                    items=[n.items[0]], body=body), n)
            return n
    T().visit(tree)
    ast.fix_missing_locations(tree)


def _inline_context_managers(modules, canon, renamed_new_names, K, report):
    """``with self._cm(a) as v: BODY`` where ``_cm`` is a new generator
    context manager: the manager's body with its ``yield x`` replaced by
    ``v = x; BODY`` (what the ``with`` protocol does: an exception of BODY
    is raised at the yield, a normal end or a return resumes after it)."""
    progress = False
    cands = []
    for mod, tree in modules.items():
        for st in tree.body:
            if isinstance(st, ast.ClassDef):
                for m in st.body:
                    if isinstance(m, ast.FunctionDef):
                        cands.append((mod, st, m, st.name + '.' + m.name))
            elif isinstance(st, ast.FunctionDef):
                cands.append((mod, None, st, st.name))
    count = {}
    for _m, _c, fn, q in cands:
        count[fn.name] = count.get(fn.name, 0) + 1
    for mod, cls, fn, q in cands:
        if q in canon or q in renamed_new_names or count[fn.name] != 1 or \
                not _cm_inlinable(fn) or fn.name in _BUILTIN_METHODS:
            continue
        is_static = cls is None or any(
            isinstance(d, ast.Name) and d.id == 'staticmethod'
            for d in fn.decorator_list)
        for tree in modules.values():
            _split_with(tree, fn.name)
        sites, other = [], False
        for m2, tree in modules.items():
            parents = {}
            for n in ast.walk(tree):
                for c in ast.iter_child_nodes(n):
                    parents[id(c)] = n
            for n in ast.walk(tree):
                if isinstance(n, ast.Attribute) and n.attr == fn.name or \
                        isinstance(n, ast.Name) and n.id == fn.name:
                    p = parents.get(id(n))
                    w = parents.get(id(parents.get(id(p)))) if p else None
                    it = parents.get(id(p)) if p else None
                    if isinstance(p, ast.Call) and p.func is n and \
                            isinstance(it, ast.withitem) and \
                            it.context_expr is p and isinstance(
                                w, ast.With) and len(w.items) == 1:
                        sites.append((tree, parents, p, it, w))
                    elif n is not fn:
                        other = True
        if other or not sites:
            continue
        free = _free_globals(fn)
        home = _module_bindings(modules[mod], mod)
        done = failed = 0
        for tree, parents, call, it, w in sites:
            if tree is not modules[mod]:
                there = _module_bindings(tree)
                if any(home.get(nm) is None or home.get(nm) != there.get(nm)
                       for nm in free):
                    failed += 1
                    continue
            recv = call.func.value if isinstance(
                call.func, ast.Attribute) else None
            if (cls is not None) != (recv is not None) or (
                    is_static and recv is not None and
                    not isinstance(recv, ast.Name)):
                failed += 1
                continue
            built = _build(fn, is_static, call, recv, None, K)
            if built is None:
                failed += 1
                continue
            pre, rn = built
            body = [rn(b) for b in _body(fn)]
            target = it.optional_vars

            class Y(ast.NodeTransformer):
                n = 0

                def visit_Expr(self, st):
                    if isinstance(st.value, ast.Yield):
                        self.n += 1
                        out = []
                        if target is not None:
                            out.append(ast.Assign(
                                targets=[target],
                                value=st.value.value or ast.Constant(
                                    value=None), lineno=w.lineno))
                        elif st.value.value is not None and not isinstance(
                                st.value.value, (ast.Name, ast.Constant)):
                            out.append(ast.Expr(value=st.value.value))
                        return out + w.body
                    return st
            y = Y()
            new = []
            for b in body:
                r = y.visit(b)
                new.extend(r if isinstance(r, list) else [r])
            if y.n != 1:
                failed += 1
                continue
            holder = parents.get(id(w))
            placed = False
            for fld, val in ast.iter_fields(holder):
                if isinstance(val, list) and any(x is w for x in val):
                    i0 = [i for i, x in enumerate(val) if x is w][0]
                    val[i0:i0 + 1] = pre + new
                    placed = True
            if placed:
                done += 1
                progress = True
            else:
                failed += 1
        if done and not failed:
            (cls.body if cls is not None else modules[mod].body).remove(fn)
        if done:
            report.append((q, done, bool(failed)))
    for tree in modules.values():
        ast.fix_missing_locations(tree)
    return progress


def deextract(modules, canon, renamed_new_names, api_classes=()):
    """modules: {name: ast.Module}; canon: canonical qualnames; returns the
    list of (helper qualname, number of sites inlined, kept as function)."""
    K = _Ctx()
    report = []
    for _ in range(3):                      # helpers of helpers
        cm_progress = _inline_context_managers(
            modules, canon, renamed_new_names, K, report)
        cm_progress = _inline_expression_helpers(
            modules, canon, renamed_new_names, api_classes,
            report) or cm_progress
        cm_progress = _inline_class_context_managers(
            modules, canon, K, report) or cm_progress
        cands = []
        for mod, tree in modules.items():
            for st in tree.body:
                if isinstance(st, ast.ClassDef):
                    for m in st.body:
                        if isinstance(m, ast.FunctionDef):
                            cands.append((mod, st, m, st.name + '.' + m.name))
                elif isinstance(st, ast.FunctionDef):
                    cands.append((mod, None, st, st.name))
        # names defined more than once across the package are ambiguous at
        # a syntactic call site
        count = {}
        for _m, _c, fn, q in cands:
            count[fn.name] = count.get(fn.name, 0) + 1
        progress = False
        for mod, cls, fn, q in cands:
            dunder = fn.name.startswith('__') and fn.name.endswith('__')
            internal = _is_private(fn.name) or (
                cls is not None and cls.name not in api_classes and
                not dunder)
            if q in canon or q in renamed_new_names or not internal or \
                    not _inlinable(fn) or fn.name in _BUILTIN_METHODS:
                continue
            ambiguous = count[fn.name] != 1
            if ambiguous and cls is None:
                continue
            is_static = cls is None or any(
                isinstance(d, ast.Name) and d.id == 'staticmethod'
                for d in fn.decorator_list)
            # a call that is the whole test of an ``if`` / ``while`` (possibly
            # negated) is first bound to a temporary in front of the test
            for m2, tree in modules.items():
                _hoist_tests(tree, fn.name, K)
            # all syntactic call sites
            sites = []
            other_use = False
            for m2, tree in modules.items():
                parents = {}
                for n in ast.walk(tree):
                    for c in ast.iter_child_nodes(n):
                        parents[id(c)] = n
                for n in ast.walk(tree):
                    if isinstance(n, ast.Attribute) and n.attr == fn.name \
                            or isinstance(n, ast.Name) and n.id == fn.name:
                        if ambiguous:
                            # the same name in several classes: a site is
                            # this helper's when its receiver is the self
                            # of a method of the same class, or the class
                            own = _own_receiver(n, parents, cls)
                            if own is None:
                                other_use = True
                                continue
                            if not own:
                                continue
                        p = parents.get(id(n))
                        if isinstance(p, ast.Call) and p.func is n:
                            sites.append((tree, parents, p))
                        elif n is not fn:
                            other_use = True     # passed around as a value
            if other_use or not sites:
                continue
            done = 0
            failed = 0
            free = _free_globals(fn)
            home = _module_bindings(modules[mod], mod)
            for tree, parents, call in sites:
                if tree is not modules[mod]:
                    # another module: every global the helper reads must be
                    # the same thing there (same import statement)
                    there = _module_bindings(tree)
                    if any(home.get(nm) is None or (
                            there.get(nm) is not None and
                            home.get(nm) != there.get(nm)) or (
                            there.get(nm) is None and
                            _binds_otherwise(tree, nm)) for nm in free):
                        failed += 1
                        continue
                    for nm in free:
                        if there.get(nm) is None:
                            # the name is importable there the same way
                            tree.body.insert(_after_imports(tree), ast.parse(
                                home[nm]).body[0])
                stmt = parents.get(id(call))
                ok = isinstance(stmt, (ast.Expr, ast.Return)) and \
                    stmt.value is call or (
                        isinstance(stmt, ast.Assign) and stmt.value is call)
                recv = call.func.value if isinstance(
                    call.func, ast.Attribute) else None
                if cls is not None and recv is None:
                    ok = False
                if cls is None and recv is not None:
                    ok = False
                if is_static and recv is not None and not isinstance(
                        recv, ast.Name):
                    ok = False
                # the enclosing function must not be the helper itself
                encl = stmt
                while encl is not None and not isinstance(
                        encl, ast.FunctionDef):
                    encl = parents.get(id(encl))
                if encl is fn:
                    ok = False
                new = _inline_site(fn, is_static, stmt, call, recv, None,
                                   K) if ok else None
                if new is None:
                    failed += 1
                    continue
                holder = parents.get(id(stmt))
                placed = False
                for fld, val in ast.iter_fields(holder):
                    if isinstance(val, list) and any(x is stmt for x in val):
                        i0 = [i for i, x in enumerate(val) if x is stmt][0]
                        val[i0:i0 + 1] = new
                        placed = True
                if placed:
                    done += 1
                    progress = True
                else:
                    failed += 1
            if done and not failed:
                (cls.body if cls is not None else
                 modules[mod].body).remove(fn)
            if done:
                report.append((q, done, bool(failed)))
        for tree in modules.values():
            ast.fix_missing_locations(tree)
        if not progress and not cm_progress:
            break
    return report


# ---------------------------------------------------------------------------
# expression helpers and class-based context managers
def _expr_helper(fn):
    """``def h(self, a, b): return EXPR`` (docstring aside)."""
    body = _body(fn)
    if len(body) != 1 or not isinstance(body[0], ast.Return) or \
            body[0].value is None:
        return None
    for d in fn.decorator_list:
        if not (isinstance(d, ast.Name) and d.id == 'staticmethod'):
            return None
    a = fn.args
    if a.vararg or a.kwarg or a.kwonlyargs or a.posonlyargs or a.defaults:
        return None
    for n in ast.walk(body[0].value):
        if isinstance(n, (ast.Lambda, ast.NamedExpr, ast.Yield,
                          ast.YieldFrom, ast.Await)):
            return None
    return body[0].value


def _pure_arg(e):
    while isinstance(e, ast.Attribute):
        e = e.value
    return isinstance(e, (ast.Name, ast.Constant))


def _inline_expression_helpers(modules, canon, renamed_new_names,
                               api_classes, report):
    """A new helper whose body is one ``return EXPR`` is substituted at call
    sites in any expression position when the receiver and the arguments are
    names, attribute chains or constants (evaluating them where the
    parameters stood changes nothing)."""
    progress = False
    cands = []
    for mod, tree in modules.items():
        for st in tree.body:
            if isinstance(st, ast.ClassDef):
                for m in st.body:
                    if isinstance(m, ast.FunctionDef):
                        cands.append((mod, st, m, st.name + '.' + m.name))
            elif isinstance(st, ast.FunctionDef):
                cands.append((mod, None, st, st.name))
    count = {}
    for _m, _c, fn, q in cands:
        count[fn.name] = count.get(fn.name, 0) + 1
    for mod, cls, fn, q in cands:
        dunder = fn.name.startswith('__') and fn.name.endswith('__')
        internal = _is_private(fn.name) or (
            cls is not None and cls.name not in api_classes and
            not dunder) or (cls is None and fn.name not in api_classes)
        if q in canon or q in renamed_new_names or not internal or \
                count[fn.name] != 1 or fn.name in _BUILTIN_METHODS:
            continue
        expr = _expr_helper(fn)
        if expr is None:
            continue
        is_static = cls is None or any(
            isinstance(d, ast.Name) and d.id == 'staticmethod'
            for d in fn.decorator_list)
        params = [a.arg for a in fn.args.args]
        self_name = None if is_static else (params[0] if params else None)
        pnames = params if is_static else params[1:]
        # the helper calls itself?
        if any(isinstance(n, ast.Attribute) and n.attr == fn.name or
               isinstance(n, ast.Name) and n.id == fn.name
               for n in ast.walk(expr)):
            continue
        free = _free_globals(fn)
        home = _module_bindings(modules[mod], mod)
        done = failed = 0
        for m2, tree in modules.items():
            parents = {}
            for n in ast.walk(tree):
                for c in ast.iter_child_nodes(n):
                    parents[id(c)] = n
            for n in list(ast.walk(tree)):
                if not (isinstance(n, ast.Attribute) and n.attr == fn.name
                        or isinstance(n, ast.Name) and n.id == fn.name):
                    continue
                if n is fn:
                    continue
                call = parents.get(id(n))
                if not (isinstance(call, ast.Call) and call.func is n):
                    failed += 1
                    continue
                # statement-level sites are left to the statement inliner
                recv = n.value if isinstance(n, ast.Attribute) else None
                if (cls is not None) != (recv is not None) or (
                        recv is not None and not _pure_arg(recv)) or \
                        call.keywords or len(call.args) != len(pnames) or \
                        any(isinstance(a, ast.Starred) or not _pure_arg(a)
                            for a in call.args):
                    failed += 1
                    continue
                if tree is not modules[mod]:
                    there = _module_bindings(tree)
                    if any(home.get(nm) is None or (
                            there.get(nm) is not None and
                            home.get(nm) != there.get(nm)) or (
                            there.get(nm) is None and
                            _binds_otherwise(tree, nm)) for nm in free):
                        failed += 1
                        continue
                    for nm in free:
                        if there.get(nm) is None:
                            tree.body.insert(_after_imports(tree), ast.parse(
                                home[nm]).body[0])
                sub = dict(zip(pnames, call.args))
                if self_name is not None:
                    if is_static:
                        pass
                    sub[self_name] = recv

                class S(ast.NodeTransformer):
                    def visit_Name(self_, x):
                        if isinstance(x.ctx, ast.Load) and x.id in sub:
                            return copy.deepcopy(sub[x.id])
                        return x
                new = S().visit(copy.deepcopy(expr))
                holder = parents.get(id(call))
                placed = False
                for fld, val in ast.iter_fields(holder):
                    if val is call:
                        setattr(holder, fld, new)
                        placed = True
                    elif isinstance(val, list):
                        for i, x in enumerate(val):
                            if x is call:
                                val[i] = new
                                placed = True
                if placed:
                    done += 1
                    progress = True
                else:
                    failed += 1
        if done and not failed:
            (cls.body if cls is not None else modules[mod].body).remove(fn)
        if done:
            report.append((q, done, bool(failed)))
    for tree in modules.values():
        ast.fix_missing_locations(tree)
    return progress


def _class_cm(cls):
    """(params, attr->param, enter statements, enter value, exception class
    node, exit statements) of a context-manager class of the shape

        class C:
            def __init__(self, a, b): self.x = a; self.y = b
            def __enter__(self): [stmts]; return EXPR
            def __exit__(self, t, v, tb):
                if t is not None and issubclass(t, E): stmts
                return False

    or None."""
    ms = {m.name: m for m in cls.body if isinstance(m, ast.FunctionDef)}
    others = [b for b in cls.body if not isinstance(b, ast.FunctionDef) and
              not (isinstance(b, ast.Expr) and isinstance(
                  b.value, ast.Constant))]
    if others or set(ms) != {'__init__', '__enter__', '__exit__'} or \
            cls.bases or cls.decorator_list:
        return None
    init, ent, ext = ms['__init__'], ms['__enter__'], ms['__exit__']
    for m in (init, ent, ext):
        a = m.args
        if m.decorator_list or a.vararg or a.kwarg or a.kwonlyargs or \
                a.defaults or not a.args:
            return None
    s0 = init.args.args[0].arg
    params = [a.arg for a in init.args.args[1:]]
    amap = {}
    for st in _body(init):
        if not (isinstance(st, ast.Assign) and len(st.targets) == 1 and
                isinstance(st.targets[0], ast.Attribute) and isinstance(
                    st.targets[0].value, ast.Name) and
                st.targets[0].value.id == s0 and isinstance(
                    st.value, ast.Name) and st.value.id in params):
            return None
        amap[st.targets[0].attr] = st.value.id
    eb = _body(ent)
    evalue = None
    if eb and isinstance(eb[-1], ast.Return):
        evalue = eb[-1].value
        eb = eb[:-1]
    if any(isinstance(x, ast.Return) for st in eb for x in ast.walk(st)):
        return None
    if len(ext.args.args) != 4:
        return None
    t_, v_ = ext.args.args[1].arg, ext.args.args[2].arg
    xb = _body(ext)
    if xb and isinstance(xb[-1], ast.Return):
        r = xb[-1].value
        if not (r is None or (isinstance(r, ast.Constant) and
                              r.value in (False, None))):
            return None
        xb = xb[:-1]
    if len(xb) != 1 or not isinstance(xb[0], ast.If) or xb[0].orelse:
        return None
    test = xb[0].test
    parts = test.values if isinstance(test, ast.BoolOp) and isinstance(
        test.op, ast.And) else [test]
    exc = None
    saw_not_none = False
    for p_ in parts:
        if isinstance(p_, ast.Compare) and len(p_.ops) == 1 and isinstance(
                p_.ops[0], ast.IsNot) and isinstance(
                    p_.left, ast.Name) and p_.left.id in (t_, v_) and \
                isinstance(p_.comparators[0], ast.Constant) and \
                p_.comparators[0].value is None:
            saw_not_none = True
        elif isinstance(p_, ast.Call) and isinstance(
                p_.func, ast.Name) and p_.func.id in (
                    'issubclass', 'isinstance') and len(p_.args) == 2 and \
                isinstance(p_.args[0], ast.Name) and \
                p_.args[0].id in (t_, v_):
            exc = p_.args[1]
        else:
            return None
    if not saw_not_none and exc is None:
        return None
    if exc is None:
        exc = ast.Name(id='BaseException', ctx=ast.Load())
    used = {x.id for st in xb[0].body for x in ast.walk(st)
            if isinstance(x, ast.Name)}
    if used & {t_, v_, ext.args.args[3].arg}:
        return None
    return params, amap, (ent.args.args[0].arg, eb, evalue), exc, (
        ext.args.args[0].arg, xb[0].body)


def _inline_class_context_managers(modules, canon, K, report):
    """``with C(a, b) as v: BODY`` for a new context-manager class C of the
    shape above is ``<enter>; v = EXPR; try: BODY except E: <exit>; raise``
    (``__exit__`` returning False re-raises; on a normal end it does
    nothing)."""
    progress = False
    canon_classes = {q.split('.')[0] for q in canon if '.' in q}
    for mod, tree in list(modules.items()):
        for cdef in list(tree.body):
            if not isinstance(cdef, ast.ClassDef) or \
                    cdef.name in canon_classes:
                continue
            shape = _class_cm(cdef)
            if shape is None:
                continue
            params, amap, (es, ebody, evalue), exc, (xs, xbody) = shape
            for t2 in modules.values():
                _split_with(t2, cdef.name)
            sites, other = [], False
            for m2, t2 in modules.items():
                parents = {}
                for n in ast.walk(t2):
                    for c in ast.iter_child_nodes(n):
                        parents[id(c)] = n
                for n in ast.walk(t2):
                    if isinstance(n, ast.Name) and n.id == cdef.name and \
                            isinstance(n.ctx, ast.Load):
                        p = parents.get(id(n))
                        it = parents.get(id(p)) if p else None
                        w = parents.get(id(it)) if it else None
                        if isinstance(p, ast.Call) and p.func is n and \
                                isinstance(it, ast.withitem) and \
                                it.context_expr is p and isinstance(
                                    w, ast.With) and len(w.items) == 1:
                            sites.append((t2, parents, p, it, w))
                        else:
                            other = True
            if other or not sites:
                continue
            home = _module_bindings(tree, mod)
            free = set()
            for m in cdef.body:
                if isinstance(m, ast.FunctionDef):
                    free |= _free_globals(m)
            done = failed = 0
            for t2, parents, call, it, w in sites:
                if t2 is not tree:
                    there = _module_bindings(t2)
                    if any(home.get(nm) is None or
                           home.get(nm) != there.get(nm) for nm in free):
                        failed += 1
                        continue
                if call.keywords or len(call.args) != len(params) or any(
                        isinstance(a, ast.Starred) for a in call.args):
                    failed += 1
                    continue
                K.n += 1
                pre = '_x%d_' % K.n
                stmts = [ast.Assign(
                    targets=[ast.Name(id=pre + p_, ctx=ast.Store())],
                    value=a, lineno=w.lineno)
                    for p_, a in zip(params, call.args)]

                def conv(node, sname):
                    node = copy.deepcopy(node)

                    class A(ast.NodeTransformer):
                        bad = False

                        def visit_Attribute(self_, x):
                            self_.generic_visit(x)
                            if isinstance(x.value, ast.Name) and \
                                    x.value.id == sname:
                                if x.attr in amap and isinstance(
                                        x.ctx, ast.Load):
                                    return ast.Name(id=pre + amap[x.attr],
                                                    ctx=ast.Load())
                                self_.bad = True
                            return x

                        def visit_Name(self_, x):
                            if x.id == sname:
                                self_.bad = True
                            return x
                    a_ = A()
                    out = a_.visit(node)
                    # a bare use of self (after attribute replacement)
                    bad = any(isinstance(x, ast.Name) and x.id == sname
                              for x in ast.walk(out))
                    return None if bad else out
                enter = [conv(s_, es) for s_ in ebody]
                need_value = it.optional_vars is not None
                ev = conv(evalue, es) if (evalue is not None and
                                          need_value) else None
                exit_ = [conv(s_, xs) for s_ in xbody]
                if any(s_ is None for s_ in enter + exit_) or (
                        evalue is not None and need_value and ev is None):
                    failed += 1
                    continue
                new = stmts + enter
                if it.optional_vars is not None:
                    new.append(ast.Assign(
                        targets=[it.optional_vars],
                        value=ev if ev is not None else ast.Constant(
                            value=None), lineno=w.lineno))
                elif ev is not None and not isinstance(
                        ev, (ast.Name, ast.Constant)):
                    new.append(ast.Expr(value=ev))
                new.append(ast.Try(
                    body=w.body,
                    handlers=[ast.ExceptHandler(
                        type=copy.deepcopy(exc), name=None,
                        body=exit_ + [ast.Raise(exc=None, cause=None)])],
                    orelse=[], finalbody=[], lineno=w.lineno))
                holder = parents.get(id(w))
                placed = False
                for fld, val in ast.iter_fields(holder):
                    if isinstance(val, list) and any(x is w for x in val):
                        i0 = [i for i, x in enumerate(val) if x is w][0]
                        val[i0:i0 + 1] = new
                        placed = True
                if placed:
                    done += 1
                    progress = True
                else:
                    failed += 1
            if done and not failed:
                tree.body.remove(cdef)
            if done:
                report.append((cdef.name, done, bool(failed)))
    for t2 in modules.values():
        ast.fix_missing_locations(t2)
    return progress


def inline_nested_defs(tree):
    """A function defined inside a function (a local closure: no decorator,
    no default arguments, not a generator, not recursive, writes no
    enclosing variable) and only ever called directly as a whole statement,
    the right-hand side of an assignment or a returned value is inlined at
    those calls (its free variables are the enclosing function's, looked up
    when it is called - exactly where the inlined statements now stand) and
    its definition removed.  Anything else stays (and is reported as an
    unsupported construct)."""
    K = _Ctx()
    K.n = 900
    for outer in [n for n in ast.walk(tree) if isinstance(n, ast.FunctionDef)]:
        nested = [s for s in ast.walk(outer) if isinstance(
            s, ast.FunctionDef) and s is not outer]
        for g in nested:
            # directly nested only (not inside another nested def)
            parents = {}
            for n in ast.walk(outer):
                for c in ast.iter_child_nodes(n):
                    parents[id(c)] = n
            p = parents.get(id(g))
            enclosing = p
            while enclosing is not None and not isinstance(
                    enclosing, (ast.FunctionDef, ast.Lambda, ast.ClassDef)):
                enclosing = parents.get(id(enclosing))
            if enclosing is not outer:
                continue
            if g.decorator_list or g.args.defaults or g.args.kw_defaults or \
                    not _inlinable_closure(g):
                continue
            outer_stores = {x.id for x in ast.walk(outer)
                            if isinstance(x, ast.Name) and isinstance(
                                x.ctx, (ast.Store, ast.Del)) and not any(
                                x is y for y in ast.walk(g))}
            g_stores = {x.id for x in ast.walk(g) if isinstance(
                x, ast.Name) and isinstance(x.ctx, (ast.Store, ast.Del))}
            g_params = {a.arg for a in g.args.args}
            sites, other = [], False
            for n in ast.walk(outer):
                if isinstance(n, ast.Name) and n.id == g.name and not any(
                        n is y for y in ast.walk(g)):
                    c = parents.get(id(n))
                    if isinstance(n.ctx, ast.Load) and isinstance(
                            c, ast.Call) and c.func is n:
                        sites.append(c)
                    else:
                        other = True
            if other or not sites:
                continue
            ok = True
            plan = []
            for call in sites:
                stmt = parents.get(id(call))
                if not ((isinstance(stmt, (ast.Expr, ast.Return)) and
                         stmt.value is call) or (
                             isinstance(stmt, ast.Assign) and
                             stmt.value is call)):
                    ok = False
                    break
                new = _inline_site(g, True, stmt, call, None, None, K)
                if new is None:
                    ok = False
                    break
                plan.append((stmt, new))
            if not ok:
                continue
            for stmt, new in plan:
                holder = parents.get(id(stmt))
                for fld, val in ast.iter_fields(holder):
                    if isinstance(val, list) and any(x is stmt for x in val):
                        i0 = [i for i, x in enumerate(val) if x is stmt][0]
                        val[i0:i0 + 1] = new
            holder = parents.get(id(g))
            for fld, val in ast.iter_fields(holder):
                if isinstance(val, list) and any(x is g for x in val):
                    val.remove(g)
                    if not val:
                        val.append(ast.Pass())
    ast.fix_missing_locations(tree)


def _inlinable_closure(g):
    for n in ast.walk(g):
        if isinstance(n, (ast.Yield, ast.YieldFrom, ast.Lambda, ast.Global,
                          ast.Nonlocal, ast.NamedExpr)):
            return False
        if isinstance(n, (ast.FunctionDef, ast.ClassDef)) and n is not g:
            return False
        if isinstance(n, ast.Name) and n.id == g.name:
            return False
    a = g.args
    return not (a.vararg or a.kwarg or a.kwonlyargs or a.posonlyargs)
