"""R1.4 guard completeness: the reuse decision is taken only after every
required comparison.  Shared by C01 (whole table) and C05/C06/C07/C08 (their
columns).

A requirement is a set of atom matchers (a disjunction).  Each matcher maps
a branch atom to the polarity under which the semantic fact holds, or None.
The requirement holds for a decider iff, after deleting every branch edge
that establishes one of the facts, no positive exit of the decider is
reachable from its entry (a must-pass-through query on the inlined graph, so
helper predicates, nested ifs and and/or chains are all the same to it).
"""
import ast

from ..model import Func, AnalysisError
from ..analyses import attr_chain
from ..supergraph import callee_name
from .. import queries as Q


class Guards:
    def __init__(self, ctx):
        self.ctx = ctx
        R = ctx.R
        prog = ctx.prog
        self.replay = R.replay_routine()
        self.nested = {}      # Func -> kind
        from ..astpaths import cond_paths, isinstance_fact
        # the dispatch over record classes sits in the replay routine or in
        # a private helper it calls per suboperation
        disp = [self.replay]
        for c in prog.calls_in(self.replay):
            for g in prog.resolve_call(c, self.replay):
                if isinstance(g, Func) and g.cls == R.builder and \
                        not g.is_public and g is not self.replay and \
                        any(isinstance(x, ast.Call) and isinstance(
                            x.func, ast.Name) and x.func.id == 'isinstance'
                            for x in ast.walk(g.node)) and g not in disp:
                    disp.append(g)
        self.dispatchers = disp
        all_paths = [(d, conds, st) for d in disp
                     for conds, st in cond_paths(d.node.body)]
        for dfunc, conds, st in all_paths:
            idx = None
            cls = None
            for i, (t, pol) in enumerate(conds):
                fct = isinstance_fact(t)
                if fct and pol:
                    for c in fct[1]:
                        if c in R.record_classes:
                            idx, cls = i, c
            if cls is None:
                continue
            fields = R.record_fields.get(cls, [])
            if 'suboperations' not in fields:
                kind = 'simple'
            elif 'filename' in fields:
                kind = 'nested_file'
            else:
                kind = 'nested_sub'
            scope = [t for t, _ in conds[idx + 1:]] + [st]
            for e in scope:
                for c in ast.walk(e):
                    if isinstance(c, ast.Call):
                        for g in prog.resolve_call(c, dfunc):
                            if isinstance(g, Func) and g.cls == R.builder \
                                    and g not in disp:
                                self.nested[g] = kind
        self.top = {}
        cands = list(R.deciders())
        # a lookup is also any builder function that fetches a record from
        # the old cache by key (so that a lookup which stopped replaying is
        # reported, not lost)
        for f in prog.funcs.values():
            if f.cls == R.builder and f not in cands and any(
                    isinstance(g, Func) and g.cls == R.cache and
                    g.name in ('get_file', 'get_subbuild')
                    for c in prog.calls_in(f)
                    for g in prog.resolve_call(c, f)):
                cands.append(f)
        for d in cands:
            if d in self.nested or d in disp:
                continue
            getters = set()
            for c in prog.calls_in(d):
                for g in prog.resolve_call(c, d):
                    if isinstance(g, Func) and g.cls == R.cache and \
                            g.name in ('get_file', 'get_subbuild',
                                       'get_norm_cased_file'):
                        getters.add(g.name)
            if 'get_file' in getters or 'get_norm_cased_file' in getters:
                self.top[d] = 'top_file'
            elif 'get_subbuild' in getters:
                self.top[d] = 'top_sub'
            else:
                raise AnalysisError(
                    'reuse decider %s fetches no record from the old cache'
                    % d.qualname)
        kinds = set(self.nested.values()) | set(self.top.values())
        for k in ('simple', 'nested_file', 'nested_sub', 'top_file',
                  'top_sub'):
            if k not in kinds:
                raise AnalysisError('no reuse decider of kind ' + k)
        self.all = dict(self.nested)
        self.all.update(self.top)
        self._sg = {}
        # a lookup inlined into the function that acts on the decision (it
        # registers / applies the cached record itself) is not a predicate
        # any more: other rules look inside it instead of treating it as an
        # opaque answer
        acts = {R.cache + '.use_cached_operation',
                R.builder + '._apply_cached_suboperations'}
        self.acting = {
            d for d in self.top if any(
                isinstance(g, Func) and g.qualname in acts
                for c in prog.calls_in(d) for g in prog.resolve_call(c, d))}
        self.opaque = (set(self.all) - self.acting) | {self.replay}

    def _isinstance_class(self, test):
        for c in ast.walk(test):
            if (isinstance(c, ast.Call) and isinstance(c.func, ast.Name) and
                    c.func.id == 'isinstance' and len(c.args) == 2 and
                    isinstance(c.args[1], ast.Name) and
                    c.args[1].id in self.ctx.prog.classes):
                return c.args[1].id
        return None

    def graph(self, d):
        if d.qualname not in self._sg:
            stop = (set(self.all) | {self.replay}) - {d}
            R = self.ctx.R

            prog = self.ctx.prog

            def compares(g):
                # a helper of another class that wraps a JSON-equality
                # comparison (e.g. Cache.has_same_func_version)
                return any(isinstance(h, Func) and
                           h.qualname == 'JsonUtil.is_equal'
                           for c in prog.calls_in(g)
                           for h in prog.resolve_call(c, g))

            def key_tester(g):
                # a thin wrapper around the "is this key taken" tests
                return g.name not in ('has_norm_cased_file',
                                      'has_subbuild') and any(
                    isinstance(h, Func) and h.cls == R.cache and h.name in (
                        'has_norm_cased_file', 'has_subbuild')
                    for c in prog.calls_in(g)
                    for h in prog.resolve_call(c, g)) and \
                    len(list(ast.walk(g.node))) < 80

            def tests_registry(g):
                # a helper that answers whether a name is a registered
                # operation (``name in OPERATIONS``)
                return any(isinstance(n, ast.Compare) and any(
                    isinstance(c, ast.Attribute) and c.attr == 'OPERATIONS'
                    for c in n.comparators) for n in ast.walk(g.node)) and \
                    len(list(ast.walk(g.node))) < 60

            def inline(g):
                if g in stop or g.is_ctor_call:
                    return False
                if g.cls == R.builder:
                    return not g.is_public
                if tests_registry(g):
                    return True
                return g.cls == R.cache and (compares(g) or key_tester(g))
            self._sg[d.qualname] = self.ctx.E.super(d, inline)
        return self._sg[d.qualname]

    # ------------------------------------------------------------------
    # atom matchers: (atom, func, cn) -> 'T' | 'F' | None
    def _is_equal_args(self, e, func):
        if isinstance(e, ast.Call):
            for g in self.ctx.prog.resolve_call(e, func):
                if isinstance(g, Func) and g.qualname == 'JsonUtil.is_equal' \
                        and len(e.args) == 2:
                    return e.args
        return None

    def _cache_call(self, e, func, cn, method, role):
        """e is <cache of role>.method(...): returns the call or None."""
        if not (isinstance(e, ast.Call) and isinstance(e.func, ast.Attribute)
                and e.func.attr == method):
            return None
        ok = False
        for g in self.ctx.prog.resolve_call(e, func):
            if isinstance(g, Func) and g.cls == self.ctx.R.cache:
                ok = True
        if not ok:
            return None
        roles = self.ctx.H.expr_roles(e.func.value, func, cn)
        if roles != {role}:
            return None
        return e

    def m_version_eq(self, method='get_func_version', need_field='func_name'):
        def m(atom, func, cn):
            a = self.ctx.H.subst(atom, func, cn)
            args = self._is_equal_args(a, func)
            if not args:
                return None
            for x, y in ((args[0], args[1]), (args[1], args[0])):
                cx = self._cache_call(x, func, cn, method, 'old')
                cy = self._cache_call(y, func, cn, method, 'new')
                if cx is None or cy is None:
                    continue
                if not cx.args or not cy.args:
                    continue
                if ast.dump(cx.args[0]) != ast.dump(cy.args[0]):
                    continue
                if need_field and not (
                        isinstance(cx.args[0], ast.Attribute) and
                        cx.args[0].attr == need_field):
                    # through a helper parameter: the argument must still
                    # originate from a record's func_name
                    org = self.ctx.H.origins(cx.args[0], func, cn)
                    if not any(o[0] in ('attr', 'field') and
                               o[-1] == need_field for o in org):
                        continue
                return 'T'
            return None
        return m

    def raw_version_compare(self, d, method='get_func_version'):
        """A ==/is comparison of two versions anywhere in the decider."""
        for n in ast.walk(d.node):
            if isinstance(n, ast.Compare) and len(n.comparators) == 1:
                sides = [n.left, n.comparators[0]]
                if all(isinstance(s, ast.Call) and
                       isinstance(s.func, ast.Attribute) and
                       s.func.attr == method for s in sides):
                    return n
        return None

    def m_field_is_equal(self, field):
        def m(atom, func, cn):
            a = self.ctx.H.subst(atom, func, cn)
            args = self._is_equal_args(a, func)
            if not args:
                return None
            if all(isinstance(x, ast.Attribute) and x.attr == field
                   for x in args) and ast.dump(args[0]) != ast.dump(args[1]):
                return 'T'
            return None
        return m

    def m_field_compare_eq(self, field):
        def m(atom, func, cn):
            a = self.ctx.H.subst(atom, func, cn)
            if isinstance(a, ast.Compare) and len(a.ops) == 1:
                l, r = a.left, a.comparators[0]
                if all(isinstance(x, ast.Attribute) and x.attr == field
                       for x in (l, r)) and ast.dump(l) != ast.dump(r):
                    if isinstance(a.ops[0], ast.Eq):
                        return 'T'
                    if isinstance(a.ops[0], ast.NotEq):
                        return 'F'
            args = self._is_equal_args(a, func)
            if args and all(isinstance(x, ast.Attribute) and x.attr == field
                            for x in args):
                return 'T'
            return None
        return m

    def m_flag(self, field, holds_when):
        """atom is <rec>.field; fact 'field is false' holds on F."""
        def m(atom, func, cn):
            a = self.ctx.H.subst(atom, func, cn)
            if isinstance(a, ast.Attribute) and a.attr == field:
                return holds_when
            return None
        return m

    def m_not_none(self):
        def m(atom, func, cn):
            if isinstance(atom, ast.Compare) and len(atom.ops) == 1 and \
                    isinstance(atom.comparators[0], ast.Constant) and \
                    atom.comparators[0].value is None:
                if isinstance(atom.ops[0], ast.IsNot):
                    return 'T'
                if isinstance(atom.ops[0], ast.Is):
                    return 'F'
            return None
        return m

    def m_call(self, qualnames, holds_when, role=None):
        def m(atom, func, cn):
            if not isinstance(atom, ast.Call):
                return None
            for g in self.ctx.prog.resolve_call(atom, func):
                if isinstance(g, Func) and g.qualname in qualnames:
                    if role is not None:
                        if not isinstance(atom.func, ast.Attribute):
                            return None
                        if self.ctx.H.expr_roles(
                                atom.func.value, func, cn) != {role}:
                            return None
                    return holds_when
            return None
        return m

    def m_cache_file_compare(self):
        """``x == <executor>.<attr>`` where <attr> is what ``is_cache_file``
        compares a norm-cased name with (the question asked directly)."""
        prog = self.ctx.prog
        R = self.ctx.R
        attrs = set()
        F = prog.funcs.get(R.executor + '.is_cache_file')
        todo, seen = [F] if F is not None else [], set()
        while todo:
            f0 = todo.pop()
            if f0.qualname in seen:
                continue
            seen.add(f0.qualname)
            for n in ast.walk(f0.node):
                if isinstance(n, ast.Compare) and len(n.ops) == 1 and \
                        isinstance(n.ops[0], ast.Eq):
                    for e in (n.left, n.comparators[0]):
                        if isinstance(e, ast.Attribute) and isinstance(
                                e.value, ast.Name) and \
                                e.value.id == f0.self_name:
                            attrs.add(e.attr)
            for c in prog.calls_in(f0):
                for g in prog.resolve_call(c, f0):
                    if isinstance(g, Func) and g.cls == f0.cls:
                        todo.append(g)

        def m(atom, func, cn):
            if not (isinstance(atom, ast.Compare) and len(atom.ops) == 1 and
                    isinstance(atom.ops[0], (ast.Eq, ast.NotEq))):
                return None
            for e in (atom.left, atom.comparators[0]):
                if isinstance(e, ast.Attribute) and e.attr in attrs and \
                        R.executor in prog.type_of(e.value, func):
                    return 'F' if isinstance(atom.ops[0], ast.Eq) else 'T'
            return None
        return m

    def m_output_intact(self):
        ex = self.ctx.R.executor + '.file_comparison_result'

        def m(atom, func, cn):
            args = self._is_equal_args(atom, func)
            if not args:
                return None
            for x, y in ((args[0], args[1]), (args[1], args[0])):
                xs = self.ctx.H.subst(x, func, cn)
                if not (isinstance(xs, ast.Attribute) and
                        xs.attr == 'file_comparison_result'):
                    continue
                org = self.ctx.H.origins(y, func, cn, stop=lambda n: n == ex)
                if any(o[0] == 'call' and o[1] == ex for o in org):
                    return 'T'
            return None
        return m

    def m_result_eq(self):
        ex = self.ctx.R.executor + '.exec'

        def m(atom, func, cn):
            args = self._is_equal_args(atom, func)
            if not args:
                return None
            for x, y in ((args[0], args[1]), (args[1], args[0])):
                xs = self.ctx.H.subst(x, func, cn)
                if not (isinstance(xs, ast.Attribute) and
                        xs.attr == 'return_value'):
                    continue
                org = self.ctx.H.origins(y, func, cn, stop=lambda n: n == ex)
                if any(o[0] == 'call' and o[1] == ex for o in org):
                    return 'T'
            return None
        return m

    def m_exc_eq(self):
        def m(atom, func, cn):
            if isinstance(atom, ast.Compare) and len(atom.ops) == 1:
                sides = [self.ctx.H.subst(s, func, cn)
                         for s in (atom.left, atom.comparators[0])]
                if any(isinstance(s, ast.Attribute) and
                       s.attr == 'exception_type_str' for s in sides):
                    other = [s for s in (atom.left, atom.comparators[0])]
                    if isinstance(atom.ops[0], ast.Eq):
                        return 'T'
                    if isinstance(atom.ops[0], ast.NotEq):
                        return 'F'
            return None
        return m

    def m_name_known(self):
        def m(atom, func, cn):
            if isinstance(atom, ast.Compare) and len(atom.ops) == 1:
                r = atom.comparators[0]
                if isinstance(r, ast.Attribute) and r.attr == 'OPERATIONS':
                    if isinstance(atom.ops[0], ast.In):
                        return 'T'
                    if isinstance(atom.ops[0], ast.NotIn):
                        return 'F'
            return None
        return m

    # ------------------------------------------------------------------
    def requirements(self, kind):
        """column name -> list of matchers (disjunction)."""
        R = self.ctx.R
        C = R.cache
        rr = self.replay.qualname
        req = {}
        if kind in ('top_file', 'top_sub', 'nested_file', 'nested_sub'):
            req['VERSION_EQ'] = [self.m_version_eq()]
            req['REPLAY_OK'] = [self.m_call({rr}, 'T')]
        if kind in ('top_file', 'top_sub'):
            req['NOT_NONE'] = [self.m_not_none()]
            req['NOT_RAISED'] = [self.m_flag('raised', 'F')]
        if kind == 'top_file':
            req['FUNC_NAME_EQ'] = [self.m_field_compare_eq('func_name')]
            req['ARGS_EQ'] = [self.m_field_is_equal('args')]
            req['KWARGS_EQ'] = [self.m_field_is_equal('kwargs')]
            req['OUTPUT_INTACT'] = [self.m_output_intact()]
        if kind in ('nested_file', 'nested_sub'):
            req['NOT_SETUP_FAILED'] = [self.m_flag('setup_failed', 'F')]
        if kind == 'nested_file':
            req['RAISED_OR_OUTPUT_INTACT'] = [
                self.m_flag('raised', 'T'), self.m_output_intact()]
            req['KEY_FREE'] = [self.m_call(
                {C + '.has_norm_cased_file'}, 'F', role='new')]
            req['NOT_CACHE_FILE'] = [self.m_call(
                {R.executor + '.is_cache_file'}, 'F'),
                self.m_cache_file_compare()]
            dtm = R.builder + '._dirs_to_make'
            req['PARENTS_MAKEABLE'] = [
                ('node', lambda sn: Q.is_done(sn, dtm))]
            # the overlay mirrors execution: the output's directories are
            # regarded as created while its recorded suboperations are
            # replayed, and the output is closed (visible / removed again)
            req['OVERLAY_STARTED'] = [('node', lambda sn: Q.is_done(
                sn, 'CreatedFiles.started_building_file'))]
            req['OVERLAY_CLOSED'] = [
                ('node', lambda sn: Q.is_done(
                    sn, 'CreatedFiles.finished_building_file')),
                ('node', lambda sn: Q.is_done(
                    sn, 'CreatedFiles.error_building_file'))]
        if kind == 'nested_sub':
            req['KEY_FREE'] = [self.m_call(
                {C + '.has_subbuild'}, 'F', role='new')]
        if kind == 'simple':
            req['OPVERSION_EQ'] = [self.m_version_eq(
                'get_operation_version', None)]
            req['NAME_KNOWN'] = [self.m_name_known()]
            req['RESULT_EQ'] = [self.m_result_eq()]
            req['EXC_EQ'] = [self.m_exc_eq()]
        return req

    def positive_exits(self, sg):
        """Where the decider has answered "reuse": its True / value exits -
        or, when the decision is taken inline in the function that also acts
        on it (the lookup inlined into its caller), the first action on the
        cached record: registering it in the new cache or applying it."""
        C = self.ctx.R.cache
        acts = {C + '.use_cached_operation'}
        try:
            from .apply_rules import apply_routine
            acts.add(apply_routine(self.ctx).qualname)
        except AnalysisError:
            pass
        targets = {x.id for x in sg.nodes
                   if any(Q.is_call(x, a) for a in acts)}
        if targets:
            return targets
        return {sg.exits['T'], sg.exits['N']}

    def check_requirement(self, d, matchers):
        """None if the requirement holds; else a witness path."""
        sg = self.graph(d)
        nodems = [m[1] for m in matchers if isinstance(m, tuple)]
        matchers = [m for m in matchers if not isinstance(m, tuple)]

        def edge_ok(a, b, lab):
            if isinstance(lab, tuple) and len(lab) == 4 and \
                    lab[0] in ('T', 'F'):
                for m in matchers:
                    if m(lab[1], lab[2], lab[3]) == lab[0]:
                        return False
            return True
        pos = self.positive_exits(sg)
        avoid = (lambda sn: any(p(sn) for p in nodems)) if nodems else None
        seen = sg.reach([sg.entry], edge_ok=edge_ok, avoid=avoid)
        for p in pos:
            if p in seen:
                return sg.describe_path(sg.witness(seen, p))
        return None

    def check(self, rc, columns=None, kinds=None, rule_prefix='guard'):
        """Evaluate the table (restricted to columns / kinds)."""
        for d, kind in sorted(self.all.items(), key=lambda x: x[0].qualname):
            if kinds and kind not in kinds:
                continue
            sg = self.graph(d)
            pos = self.positive_exits(sg)
            full = sg.reach([sg.entry])
            if not any(p in full for p in pos):
                raise AnalysisError(
                    'decider %s has no reachable positive exit' % d.qualname)
            for col, ms in sorted(self.requirements(kind).items()):
                if columns and col not in columns:
                    continue
                key = '%s | %s | %s' % (kind, d.qualname, col)
                w = self.check_requirement(d, ms)
                if w is None:
                    rc.ok({'decider': d.qualname, 'kind': kind,
                           'requires': col}, key=key)
                else:
                    extra = ''
                    if col in ('VERSION_EQ', 'OPVERSION_EQ'):
                        raw = self.raw_version_compare(
                            d, 'get_func_version' if col == 'VERSION_EQ'
                            else 'get_operation_version')
                        if raw is not None:
                            extra = (' (versions are compared with a raw '
                                     '==/is at line %d, not through JSON '
                                     'equality)' % raw.lineno)
                    rc.violation(
                        '%s | %s' % (rule_prefix, key),
                        'reuse decider %s (%s) can answer "reuse" on a path '
                        'that never established %s%s' % (
                            d.qualname, kind, col, extra),
                        self.ctx.prog.loc(d, d.node), w, key=key)


def guards(ctx):
    if 'guards' not in ctx.memo:
        ctx.memo['guards'] = Guards(ctx)
    return ctx.memo['guards']
