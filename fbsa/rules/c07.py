"""C07 - cache identity is JSON equality of name, path and arguments."""
import ast

from ..model import Func, AnalysisError
from .guards import guards
from . import c18

EXPLANATION = (
    'R7.1: every public path parameter is normalised before any use (the '
    'raw definition is used only as the argument of the normaliser or in '
    'delegation to the same-role parameter of another public method); every '
    'path stored in a record, put in a recorded argument list or opened '
    'has the normaliser as its only origin; the normaliser is '
    'str(abspath(fsdecode(x))). R7.2: identity fields are only set in '
    'constructors. R7.3: one key function - subbuild_key covers exactly '
    'func_name, args, kwargs through to_hashable, every access to the '
    'subbuild map uses it, the file maps are keyed by filename resp. '
    'normcase(filename). R7.4: the lookups compare func_name, args and '
    'kwargs through JSON equality. R7.6: tag discipline of the hashable '
    'form (R18.4) and structural equality rules (R18.3/R18.5). Decides that '
    'identity is computed from normalised paths and sanitised arguments '
    'through one key function and JSON equality; the JSON-equality '
    'semantics over all values are C18\'s undecided part.'
    ' R7.5: the callee receives copies of the sanitised arguments (R11.1).')

IDENTITY_FIELDS = ('func_name', 'args', 'kwargs', 'filename')


def _normaliser(ctx):
    return ctx.R.builder_f('_sanitize_filename')


def path_params(ctx):
    """(builder function, parameter) pairs that carry a raw path: passed
    directly to the normaliser, or delegated to such a parameter of another
    builder function (public method or private helper)."""
    R = ctx.R
    prog = ctx.prog
    N = _normaliser(ctx)
    fs = [f for f in prog.funcs.values()
          if f.cls == R.builder and f.qualname != N.qualname]
    pp = set()
    for F in fs:
        for call in prog.calls_in(F):
            for g in prog.resolve_call(call, F):
                if isinstance(g, Func) and g.qualname == N.qualname and \
                        call.args and isinstance(call.args[0], ast.Name) and \
                        call.args[0].id in F.params:
                    pp.add((F.qualname, call.args[0].id))
    changed = True
    while changed:
        changed = False
        for F in fs:
            for call in prog.calls_in(F):
                for g in prog.resolve_call(call, F):
                    if isinstance(g, Func) and g in fs:
                        b = prog.bind_args(call, g)
                        for p, a in b.items():
                            if (g.qualname, p) in pp and isinstance(
                                    a, ast.Name) and a.id in F.params and \
                                    (F.qualname, a.id) not in pp:
                                pp.add((F.qualname, a.id))
                                changed = True
    return pp


def memoised_ambient_census(ctx, rc):
    prog = ctx.prog
    # nothing whose answer depends on ambient state (working directory,
    # file system) is memoised across calls
    MEMO = {'lru_cache', 'cache', 'cached_property', 'memoize', 'memoized'}
    AMBIENT = ('os.path.abspath', 'os.getcwd', 'os.path.realpath',
               'os.path.expanduser', 'os.stat', 'os.listdir',
               'os.path.isfile', 'os.path.isdir', 'os.path.exists',
               'os.path.getsize', 'os.path.getmtime', 'builtins.open',
               'gzip.open', 'io.open', 'os.scandir', 'os.lstat')
    n_memo = 0
    for f in prog.funcs.values():
        decs = {ast.unparse(d).split('(')[0].split('.')[-1]
                for d in f.node.decorator_list}
        if not (decs & MEMO):
            continue
        n_memo += 1
        prims = set()
        todo, seenf = [f], set()
        while todo:
            f0 = todo.pop()
            if f0.qualname in seenf:
                continue
            seenf.add(f0.qualname)
            for c in prog.calls_in(f0):
                for g in prog.resolve_call(c, f0):
                    if isinstance(g, Func):
                        todo.append(g)
                    else:
                        prims.add(g)
        amb = sorted(p for p in prims if p in AMBIENT)
        key = 'memoised function ' + f.qualname
        if amb:
            rc.violation(
                'memoised-ambient | ' + f.qualname,
                '%s is memoised (%s) although its result depends on %s: '
                'after a change of the working directory / file system the '
                'same spelling maps to a stale answer (two identities for '
                'one path, or one for two)' % (
                    f.qualname, sorted(decs & MEMO), amb),
                prog.loc(f, f.node), key=key)
        else:
            rc.ok({'memoised': f.qualname, 'pure': True}, key=key)
    if n_memo == 0:
        rc.ok({'memoised_functions': 0}, key='no memoised function reads '
              'ambient state')


def r7_1(ctx, rc):
    R = ctx.R
    prog = ctx.prog
    N = _normaliser(ctx)
    pp = path_params(ctx)
    pub = {f.qualname for f in R.public_methods}
    npub = len([1 for fq, _ in pp if fq in pub])
    if npub < 10:
        raise AnalysisError('only %d public path parameters found' % npub)
    for fq, p in sorted(pp):
        F = prog.funcs[fq]
        cfg = ctx.E.cfgs.get(F)
        rd = cfg.reaching_defs()
        bad = None
        for cn in cfg.nodes:
            for e in cn.exprs:
                for n in ast.walk(e):
                    if not (isinstance(n, ast.Name) and n.id == p and
                            isinstance(n.ctx, ast.Load)):
                        continue
                    defs = rd[cn.id].get(p, ())
                    if not any(cfg.nodes[d].kind == 'entry' for d in defs):
                        continue      # already re-assigned (normalised)
                    par = prog.parent(n)
                    ok = False
                    if isinstance(par, ast.Call) and n in par.args:
                        for g in prog.resolve_call(par, F):
                            if isinstance(g, Func) and \
                                    g.qualname == N.qualname:
                                ok = True
                            elif isinstance(g, Func) and \
                                    g.cls == R.builder:
                                b = prog.bind_args(par, g)
                                for p2, a in b.items():
                                    if a is n and (g.qualname, p2) in pp:
                                        ok = True
                    if not ok:
                        bad = n
        key = 'raw %s of %s' % (p, fq)
        if bad is not None:
            rc.violation(
                'raw-path-use | %s | %s' % (fq, p),
                'the raw (un-normalised) path parameter %s of %s is used '
                'other than as the argument of the normaliser' % (p, fq),
                prog.loc(F, bad), key=key)
        else:
            rc.ok({'param': p, 'method': fq}, key=key)
    # paths stored / recorded / opened inside public methods come from the
    # normaliser only
    stop = lambda n: n == N.qualname
    n_sinks = 0
    sink_funcs = list(R.public_methods) + [
        prog.funcs[fq] for fq in sorted({fq for fq, _ in pp})
        if fq not in pub]
    for F in sink_funcs:
        for call in prog.calls_in(F):
            sinks = []
            for g in prog.resolve_call(call, F):
                if isinstance(g, Func) and g.is_ctor_call and \
                        g.cls_for_ctor in R.record_classes:
                    b = prog.bind_args(call, g)
                    for p2, a in b.items():
                        if isinstance(a, list):
                            continue
                        fld = c11_param_field(ctx, g.cls_for_ctor, p2)
                        if fld == 'filename':
                            sinks.append((a, 'record field .filename'))
                        if fld == 'args' and 'suboperations' not in \
                                R.record_fields[g.cls_for_ctor]:
                            a0 = a
                            while isinstance(a0, ast.BinOp):
                                a0 = a0.left
                            if isinstance(a0, ast.List) and a0.elts:
                                sinks.append((a0.elts[0],
                                              'recorded query argument'))
                elif g in ('builtins.open',):
                    sinks.append((call.args[0], 'open()'))
            for a, what in sinks:
                n_sinks += 1
                cn = ctx.H.node_of(F, a)[0]
                org = ctx.H.origins(a, F, cn, stop=stop)
                okset = {o for o in org
                         if o[0] == 'call' and o[1] == N.qualname}
                key = '%s in %s' % (what, F.qualname)
                if org - okset:
                    rc.violation(
                        'unnormalised-path | ' + key,
                        'a path reaching %s in %s does not (only) come from '
                        'the normaliser: %s' % (
                            what, F.qualname, sorted(
                                str(o[:2]) for o in org - okset)),
                        prog.loc(F, a), key=key)
                else:
                    rc.ok({'sink': key}, key=key)
    if n_sinks < 4:
        raise AnalysisError('only %d path sinks found' % n_sinks)
    memoised_ambient_census(ctx, rc)
    # shape of the normaliser: str(abspath(fsdecode(x)))
    rets = [n for n in ast.walk(N.node) if isinstance(n, ast.Return)]
    key = 'normaliser shape'
    ok = len(rets) == 1
    if ok:
        v = rets[0].value
        rn = [x for x in ctx.E.cfgs.get(N).nodes
              if x.kind == 'return' and x.ast is rets[0]]
        if rn and v is not None:
            # through single-assignment temporaries
            v = ctx.H.subst(v, N, rn[0])

        def peel(e, name):
            if isinstance(e, ast.Call) and name in prog.resolve_call(e, N) \
                    and e.args:
                return e.args[0]
            return None
        inner = peel(v, 'builtins.str')
        v2 = inner if inner is not None else v
        a = peel(v2, 'os.path.abspath')
        if a is None:
            nrm = peel(v2, 'os.path.normpath')
            a = peel(nrm, 'os.path.abspath') if nrm is not None else None
        d = peel(a, 'os.fsdecode') if a is not None else None
        ok = inner is not None and d is not None and isinstance(
            d, ast.Name) and d.id in N.params
    if ok:
        rc.ok({'normaliser': 'str(os.path.abspath(os.fsdecode(x)))'},
              key=key)
    else:
        rc.violation(
            'normaliser-shape | ' + N.qualname,
            'the path normaliser does not return str(os.path.abspath('
            'os.fsdecode(x))) on every path (absolute + normalised + '
            'accepts bytes/PathLike): two spellings of one path would be '
            'two cache identities', prog.loc(N, N.node), key=key)


def c11_param_field(ctx, cname, p):
    from .c11 import _param_field
    return _param_field(ctx, cname, p)


def r7_2(ctx, rc):
    R = ctx.R
    prog = ctx.prog
    n = 0
    for f in prog.funcs.values():
        if f.cls in R.record_classes and f.name == '__init__':
            continue
        for node in ast.walk(f.node):
            tgts = []
            if isinstance(node, ast.Assign):
                tgts = node.targets
            elif isinstance(node, (ast.AugAssign, ast.AnnAssign)):
                tgts = [node.target]
            for t in tgts:
                if isinstance(t, ast.Attribute) and \
                        t.attr in IDENTITY_FIELDS:
                    ts = prog.type_of(t.value, f)
                    if any(x in prog.classes and x not in R.record_classes
                           for x in ts):
                        continue
                    n += 1
                    rc.violation(
                        'identity-reassigned | %s | .%s' % (f.qualname,
                                                            t.attr),
                        'identity field .%s of a record is assigned outside '
                        'a constructor' % t.attr, prog.loc(f, node),
                        key='store .%s in %s' % (t.attr, f.qualname))
    if n == 0:
        rc.ok({'stores_to_identity_fields_outside_constructors': 0},
              key='no identity store')
    # API constructor sites: args/kwargs come from the sanitiser
    for F in R.public_instance_methods:
        for call in prog.calls_in(F):
            for g in prog.resolve_call(call, F):
                if isinstance(g, Func) and g.is_ctor_call and \
                        g.cls_for_ctor in R.record_classes and \
                        'kwargs' in R.record_fields[g.cls_for_ctor]:
                    b = prog.bind_args(call, g)
                    for p, a in b.items():
                        if isinstance(a, list):
                            continue
                        fld = c11_param_field(ctx, g.cls_for_ctor, p)
                        if fld not in ('args', 'kwargs'):
                            continue
                        cn = ctx.H.node_of(F, a)[0]
                        org = ctx.H.origins(
                            a, F, cn,
                            stop=lambda n: n == 'JsonUtil.sanitize')
                        key = '.%s of %s built in %s' % (
                            fld, g.cls_for_ctor, F.qualname)
                        if {o[1] for o in org if o[0] == 'call'} == \
                                {'JsonUtil.sanitize'} and all(
                                    o[0] == 'call' for o in org):
                            rc.ok({'field': key, 'origin': 'sanitiser'},
                                  key=key)
                        else:
                            rc.violation(
                                'identity-unsanitised | ' + key,
                                '%s does not come from the sanitiser only: '
                                '%s' % (key, sorted(str(o[:2]) for o in org)),
                                prog.loc(F, a), key=key)


def r7_3(ctx, rc):
    R = ctx.R
    prog = ctx.prog
    C = R.cache
    K = ctx.E.func(C + '.subbuild_key')
    rets = [n for n in ast.walk(K.node) if isinstance(n, ast.Return)]
    key = 'subbuild_key covers func_name, args, kwargs via to_hashable'
    ok = False
    if len(rets) == 1 and isinstance(rets[0].value, ast.Call):
        c = rets[0].value
        if any(isinstance(g, Func) and g.qualname == 'JsonUtil.to_hashable'
               for g in prog.resolve_call(c, K)) and c.args and \
                isinstance(c.args[0], (ast.List, ast.Tuple)):
            attrs = [e.attr for e in c.args[0].elts
                     if isinstance(e, ast.Attribute) and
                     isinstance(e.value, ast.Name) and
                     e.value.id == (K.params[0] if K.params
                                    else K.self_name)]
            ok = sorted(attrs) == ['args', 'func_name', 'kwargs'] and \
                len(c.args[0].elts) == 3
    if ok:
        rc.ok({'key': 'to_hashable([func_name, args, kwargs])'}, key=key)
    else:
        rc.violation('key-fields | ' + K.qualname,
                     'the subbuild key is not JsonUtil.to_hashable of '
                     'exactly [func_name, args, kwargs] of the record',
                     prog.loc(K, K.node), key=key)
    # every access to the subbuild map uses a key that originates from the
    # key function; the file maps are keyed by filename / normcase(filename)
    stopk = lambda n: n in (K.qualname, 'os.path.normcase')
    n = 0
    for f in prog.funcs.values():
        for node in ast.walk(f.node):
            keyexpr = None
            mp = None
            if isinstance(node, ast.Subscript) and isinstance(
                    node.value, ast.Attribute) and node.value.attr in (
                        '_subbuilds', '_files', '_norm_cased_files'):
                keyexpr, mp = node.slice, node.value.attr
            elif isinstance(node, ast.Compare) and len(node.ops) == 1 and \
                    isinstance(node.ops[0], (ast.In, ast.NotIn)) and \
                    isinstance(node.comparators[0], ast.Attribute) and \
                    node.comparators[0].attr in (
                        '_subbuilds', '_files', '_norm_cased_files'):
                keyexpr, mp = node.left, node.comparators[0].attr
            elif isinstance(node, ast.Call) and isinstance(
                    node.func, ast.Attribute) and node.func.attr in (
                        'get', 'pop', 'setdefault') and isinstance(
                            node.func.value, ast.Attribute) and \
                    node.func.value.attr in (
                        '_subbuilds', '_files', '_norm_cased_files') and \
                    node.args:
                keyexpr, mp = node.args[0], node.func.value.attr
            if keyexpr is None or f.cls != C:
                continue
            n += 1
            cn = ctx.H.node_of(f, keyexpr)
            if not cn:
                continue
            org = ctx.H.origins(keyexpr, f, cn[0], stop=stopk)
            calls = {o[1] for o in org if o[0] == 'call'}
            key = 'key of %s in %s' % (mp, f.qualname)
            if mp == '_subbuilds':
                good = calls == {K.qualname} and all(
                    o[0] == 'call' for o in org)
                why = 'must originate from %s only' % K.qualname
            elif mp == '_norm_cased_files':
                good = 'os.path.normcase' in calls and K.qualname not in calls
                why = 'must be os.path.normcase of a filename'
            else:
                good = not calls & {K.qualname, 'os.path.normcase'}
                why = 'must be the (non-norm-cased) filename'
            if good:
                rc.ok({'map': mp, 'in': f.qualname}, key=key)
            else:
                rc.violation('map-key | ' + key,
                             'the key used for %s in %s %s; origins: %s' % (
                                 mp, f.qualname, why,
                                 sorted(str(o[:2]) for o in org)),
                             prog.loc(f, keyexpr), key=key)
    if n < 12:
        raise AnalysisError('only %d map accesses found' % n)


def r7_4(ctx, rc):
    guards(ctx).check(rc, columns={'FUNC_NAME_EQ', 'ARGS_EQ', 'KWARGS_EQ'},
                      rule_prefix='identity')
    # the record is fetched from the old cache by the operation's own key
    G = guards(ctx)
    for d, kind in G.top.items():
        getter = 'get_file' if kind == 'top_file' else 'get_subbuild'
        calls = [c for c in ctx.prog.calls_in(d)
                 for g in ctx.prog.resolve_call(c, d)
                 if isinstance(g, Func) and g.name == getter]
        key = '%s fetches by the operation\'s own key' % d.qualname
        ok = False
        for c in calls:
            cn = ctx.H.node_of(d, c)[0]
            roles = ctx.H.expr_roles(c.func.value, d, cn)
            a = ctx.H.subst_callers(c.args[0], d, cn) if c.args else None
            if kind == 'top_file':
                good = isinstance(a, ast.Attribute) and \
                    a.attr == 'filename' and isinstance(
                        a.value, ast.Attribute) and \
                    a.value.attr == '_operation'
            else:
                org = ctx.H.origins(
                    c.args[0], d, cn,
                    stop=lambda n: n == ctx.R.cache + '.subbuild_key')
                good = {o[1] for o in org if o[0] == 'call'} == {
                    ctx.R.cache + '.subbuild_key'}
            if roles == {'old'} and good:
                ok = True
        if ok:
            rc.ok({'lookup': key}, key=key)
        else:
            rc.violation('lookup-key | ' + d.qualname,
                         'the record is not fetched from the old cache by '
                         'the operation\'s own key', d.file, key=key)


def r7_5(ctx, rc):
    """The function receives copies of the sanitised values; the recorded
    identity cannot drift through the callee (R11.1)."""
    from .c11 import r11_1
    r11_1(ctx, rc)


def r7_6(ctx, rc):
    c18.r18_4(ctx, rc)
    c18.r18_3(ctx, rc)
    c18.r18_5(ctx, rc)
    c18.r18_7(ctx, rc)


def r7_7(ctx, rc):
    """Identities survive the cache file: what is written is read back by
    the inverse codec (R16.3) - a lossy decode (``errors='replace'``) turns
    a path or argument of the previous build into a different one."""
    from .c16 import r16_3
    r16_3(ctx, rc)


RULES = [
    ('R7.1', 'public path parameters are normalised before any use', r7_1),
    ('R7.2', 'identity fields come from the sanitiser, never reassigned',
     r7_2),
    ('R7.3', 'one key function for claim, duplicate test and lookup', r7_3),
    ('R7.4', 'lookups compare name/args/kwargs through JSON equality', r7_4),
    ('R7.5', 'the callee receives copies of the sanitised arguments', r7_5),
    ('R7.6', 'hashable-form tags and structural equality rules', r7_6),
    ('R7.7', 'identities survive the cache file (R16.3)', r7_7),
]
