"""C03 - foreign files and directories are never modified or deleted."""
import ast

from ..model import Func, AnalysisError
from ..effects import DESTROY, CREATE, UNKNOWN
from ..supergraph import callee_name
from .. import queries as Q

EXPLANATION = (
    'R3.1 census: every destructive primitive call site of the package fits '
    'an allowed shape (directories only by os.rmdir; shutil.rmtree only on '
    'the private temp dir; os.rename/os.replace with one side under the '
    'temp dir or identical source and destination; os.remove only under an '
    'ISFILE guard on the same path; write-mode open only on the cache file). '
    'R3.2 provenance: for every sink that can delete or move a path '
    '(_try_to_remove_file, _remove_empty_dirs, back_up_and_remove, '
    '_make_room, os.rmdir) the backward slice of the path is contained in '
    'the allowed origins (recorded outputs/directories of a cache, '
    'BuildDirs\' created/error-created directories, the cache file name, '
    'the builder\'s own target, ancestors returned by _dirs_to_make, '
    'children listed in a directory being made room for) with the required '
    'dominating guards. R3.4: directories are created only from '
    '_dirs_to_make results, the old cache\'s created_dirs and backup '
    'parents. Decides which paths the library can delete, move or overwrite '
    'on any path of its code; that the run-time contents of the recorded '
    'sets are right is not decided.'
    ' R3.5: overwritten foreign files are moved aside (R2.4) into distinct backup slots (R2.6b) and restored last by a rollback that cannot be cut short (R2.3, R2.7).')
# round 3/4 additions
EXPLANATION += (
    ' R3.5 includes the slot encoding (R2.6b) and the hand-off of partially created directories (R14.3).')


def _tag(ctx, o):
    R = ctx.R
    C = R.cache
    if o[0] == 'call':
        n = o[1]
        if n == C + '.created_files':
            return 'cache.created_files'
        if n == C + '.created_dirs':
            return 'cache.created_dirs'
        if n == 'BuildDirs.created_dirs':
            return 'bd.created_dirs'
        if n == 'BuildDirs.norm_cased_error_created_dirs':
            return 'bd.error_dirs'
        if n == R.builder + '._sanitize_filename':
            return 'normalised-api-path'
        if n == R.builder + '._dirs_to_make':
            return 'dirs_to_make'
        if n == 'os.listdir':
            return 'listdir'
        return 'call:' + n
    if o[0] == 'attr' and o[2] == 'filename':
        return 'record.filename'
    if o[0] == 'field' and o[1] == 'filename':
        return 'record.filename'
    if o[0] == 'attr' and o[2] == '_temp_dir':
        return 'tempdir'
    if o[0] == 'call' and o[1] == 'tempfile.mkdtemp':
        return 'tempdir'
    if o[0] in ('const', 'aug'):
        return 'const'
    if o[0] == 'format':
        return 'format'
    if o[0] == 'attr' and o[2] == '_backups':
        return 'backups-list'
    if o[0] == 'attr' and o[2] == '_next_backup_index':
        return 'const'
    return ':'.join(str(x) for x in o[:3])


def _stop(ctx):
    R = ctx.R
    C = R.cache
    names = {C + '.created_files', C + '.created_dirs',
             'BuildDirs.created_dirs',
             'BuildDirs.norm_cased_error_created_dirs',
             R.builder + '._sanitize_filename', R.builder + '._dirs_to_make',
             'os.listdir', 'tempfile.mkdtemp'}
    return lambda n: n in names


def _origin_tags(ctx, expr, func, cn):
    org = ctx.H.origins(expr, func, cn, stop=_stop(ctx))
    return {_tag(ctx, o) for o in org} - {'const', 'format'}


def _same(ctx, a, fa, cna, b, fb, cnb):
    return ast.dump(ctx.H.subst(a, fa, cna)) == ast.dump(
        ctx.H.subst(b, fb, cnb))


def _fact(ctx, lab, pol, callee_names, arg, func, cn, role=None,
          allow_normcase=True):
    """Edge label establishes <callee>(arg) == pol."""
    if not (isinstance(lab, tuple) and len(lab) == 4 and lab[0] == pol):
        return False
    a = lab[1]
    if not isinstance(a, ast.Call) or not a.args:
        return False
    names = [g.qualname if isinstance(g, Func) else g
             for g in ctx.prog.resolve_call(a, lab[2])]
    if not any(n in callee_names for n in names):
        return False
    if role is not None:
        if not isinstance(a.func, ast.Attribute) or \
                ctx.H.expr_roles(a.func.value, lab[2], lab[3]) != {role}:
            return False
    x = a.args[0]
    if allow_normcase and isinstance(x, ast.Call) and \
            'os.path.normcase' in ctx.prog.resolve_call(x, lab[2]):
        x = x.args[0]
    return _same(ctx, x, lab[2], lab[3], arg, func, cn)


def r3_1(ctx, rc):
    prog = ctx.prog
    eff = ctx.E.eff
    n = 0
    for f in prog.funcs.values():
        sg = None
        for call in prog.calls_in(f):
            for g in prog.resolve_call(call, f):
                if isinstance(g, Func):
                    continue
                k, _ = eff.classify(g, call, f)
                if k not in (DESTROY, UNKNOWN):
                    continue
                n += 1
                key = '%s in %s' % (g, f.qualname)
                cn = ctx.H.node_of(f, call)[0]
                why = None
                if k == UNKNOWN:
                    why = 'unclassified file-system primitive'
                elif g == 'os.rmdir':
                    why = None
                elif g == 'shutil.rmtree':
                    if _origin_tags(ctx, call.args[0], f, cn) != {'tempdir'}:
                        why = 'rmtree on a path that is not the private ' \
                            'temp dir'
                elif g in ('os.rename', 'os.replace'):
                    t0 = _origin_tags(ctx, call.args[0], f, cn)
                    t1 = _origin_tags(ctx, call.args[1], f, cn)
                    same = ast.dump(call.args[0]) == ast.dump(call.args[1])
                    if not same and not ({'tempdir', 'backups-list'} &
                                         (t0 | t1)):
                        why = 'rename/replace with neither side under the ' \
                            'temp dir'
                elif g == 'os.remove':
                    if sg is None:
                        sg = ctx.E.super(f, lambda g: False)
                    tgt = [x for x in sg.nodes if x.kind == 'leaf' and
                           x.call is call]
                    seen = sg.reach(
                        [sg.entry], edge_ok=lambda a, b, lab: not _fact(
                            ctx, lab, 'T', {'os.path.isfile'}, call.args[0],
                            f, cn))
                    if any(t.id in seen for t in tgt):
                        why = 'os.remove without an ISFILE guard on the ' \
                            'same path'
                elif g in ('builtins.open', 'gzip.open'):
                    tags = _origin_tags(ctx, call.args[0], f, cn)
                    if tags != {'normalised-api-path'}:
                        why = 'write-mode open on %s' % sorted(tags)
                elif g.startswith('method:file.'):
                    why = None      # the open() that produced it is censused
                else:
                    why = 'destructive primitive %s is not in the census' % g
                if why:
                    rc.violation('census | ' + key,
                                 '%s in %s: %s' % (g, f.qualname, why),
                                 prog.loc(f, call), key=key)
                else:
                    rc.ok({'primitive': g, 'in': f.qualname}, key=key)
    if n < 7:
        raise AnalysisError('only %d destructive primitive sites found' % n)
    rc.note('%d destructive primitive call sites' % n)


SINKS = ('_try_to_remove_file', '_remove_empty_dirs', '_make_room')


def r3_2(ctx, rc):
    R = ctx.R
    prog = ctx.prog
    B = R.builder
    C = R.cache
    ex = R.executor
    sinks = {B + '.' + s for s in SINKS} | {'FileBackups.back_up_and_remove'}
    n = 0
    for f in prog.funcs.values():
        sg = None
        for call in prog.calls_in(f):
            for g in prog.resolve_call(call, f):
                if not (isinstance(g, Func) and g.qualname in sinks):
                    continue
                if not call.args:
                    continue
                n += 1
                arg = call.args[0]
                cn = ctx.H.node_of(f, call)[0]
                tags = _origin_tags(ctx, arg, f, cn)
                sink = g.name
                key = '%s(%s) in %s' % (sink, ast.unparse(arg)[:30],
                                        f.qualname)
                if sg is None:
                    sg = ctx.E.super(f, lambda g: False)
                tgt = [x for x in sg.nodes if x.kind in ('leaf',) and
                       x.call is call]

                def needs(*facts):
                    """each fact: (pol, names, role) - all must dominate"""
                    missing = []
                    for pol, names, role in facts:
                        seen = sg.reach(
                            [sg.entry],
                            edge_ok=lambda a, b, lab: not _fact(
                                ctx, lab, pol, names, arg, f, cn, role))
                        if any(t.id in seen for t in tgt):
                            missing.append('%s=%s' % (
                                '/'.join(sorted(names)), pol))
                    return missing
                ISFILE = ('T', {'os.path.isfile'}, None)
                problems = []
                if sink == '_try_to_remove_file':
                    allowed = {'cache.created_files', 'normalised-api-path',
                               'record.filename'}
                    if tags - allowed:
                        problems.append('origins %s' % sorted(tags - allowed))
                    if 'cache.created_files' in tags:
                        roles = _getter_roles(ctx, arg, f, cn,
                                              C + '.created_files')
                        if roles == {'new'}:
                            problems += needs(('F', {
                                C + '.created_file',
                                C + '.created_norm_cased_file'}, 'old'))
                        elif roles == {'old'} and not _static_api_only(
                                ctx, f):
                            problems += needs(
                                ('F', {ex + '.is_file'}, None),
                                ('F', {ex + '.is_cache_file'}, None))
                        elif roles != {'old'}:
                            problems.append('cache role %s' % sorted(roles))
                elif sink == '_remove_empty_dirs':
                    allowed = {'cache.created_dirs', 'bd.created_dirs',
                               'bd.error_dirs', 'dirs_to_make'}
                    if tags - allowed:
                        problems.append('origins %s' % sorted(tags - allowed))
                elif sink == 'back_up_and_remove':
                    allowed = {'normalised-api-path', 'record.filename',
                               'dirs_to_make', 'listdir'}
                    if tags - allowed:
                        problems.append('origins %s' % sorted(tags - allowed))
                    if 'listdir' in tags:
                        problems += needs(
                            ('F', {'os.path.isdir'}, None),
                            ('F', {ex + '.is_file'}, None))
                    else:
                        problems += needs(ISFILE)
                        if 'dirs_to_make' in tags:
                            problems += needs(('T', {
                                C + '.created_file',
                                C + '.created_norm_cased_file'}, 'old'))
                elif sink == '_make_room':
                    allowed = {'record.filename', 'listdir'}
                    if tags - allowed:
                        problems.append('origins %s' % sorted(tags - allowed))
                    problems += needs(('T', {'os.path.isdir'}, None),
                                      ('F', {ex + '.is_dir'}, None))
                if problems:
                    rc.violation(
                        'deletable-path | ' + key,
                        '%s can act on a path it must not touch: %s' % (
                            key, '; '.join(
                                p if p.startswith('origins') or
                                p.startswith('cache role')
                                else 'missing guard ' + p
                                for p in problems)),
                        prog.loc(f, call), key=key)
                else:
                    rc.ok({'sink': key, 'origins': sorted(tags)}, key=key)
    if n < 12:
        raise AnalysisError('only %d deletable-path sinks found' % n)
    created_predicates_agree(ctx, rc)
    # os.rmdir arguments (through the parameters of their functions)
    for f in prog.funcs.values():
        for call in prog.calls_in(f):
            if 'os.rmdir' in prog.resolve_call(call, f):
                cn = ctx.H.node_of(f, call)[0]
                tags = _origin_tags(ctx, call.args[0], f, cn)
                allowed = {'cache.created_dirs', 'bd.created_dirs',
                           'bd.error_dirs', 'dirs_to_make',
                           'record.filename', 'listdir'}
                key = 'os.rmdir in ' + f.qualname
                if tags - allowed:
                    rc.violation('rmdir-origin | ' + key,
                                 'os.rmdir can be applied to %s' % sorted(
                                     tags - allowed), prog.loc(f, call),
                                 key=key)
                else:
                    rc.ok({'sink': key, 'origins': sorted(tags)}, key=key)


def created_predicates_agree(ctx, rc):
    """Sibling agreement: the cache's three views of "this path is an
    output of the build" (by name, by norm-cased name, as a list) decide by
    the same record flags.  Rollback, commit, clean and the virtual view use
    different ones of them for the same question; a view that tests another
    flag makes them disagree about one file (kept by one, deleted or hidden
    by the other)."""
    prog = ctx.prog
    C = ctx.R.cache
    flags = {'raised', 'setup_failed', 'is_finished'}
    views = {}
    for m in prog.classes[C].methods.values():
        if not (m.name.startswith('created_') and 'file' in m.name):
            continue
        fs = [m]
        for c in prog.calls_in(m):       # a shared private predicate
            for g in prog.resolve_call(c, m):
                if isinstance(g, Func) and g.cls == C and \
                        not g.is_public and g not in fs:
                    fs.append(g)
        # the flags (with the value they must have) on which the positive
        # outcome of the view depends: "returns True" for the predicates,
        # "appends the entry" for the list - read off the control
        # dependence, so that negations, De Morgan and early ``continue``
        # make no difference
        sgv = ctx.E.super(m, lambda g: g in fs and g is not m)
        targets = [x.id for x in sgv.nodes if x.kind == 'leaf' and
                   x.call is not None and isinstance(
                       x.call.func, ast.Attribute) and
                   x.call.func.attr in ('append', 'add')]
        used = set()
        comps = [n for f0 in fs for n in ast.walk(f0.node)
                 if isinstance(n, (ast.ListComp, ast.SetComp,
                                   ast.GeneratorExp)) and any(
                     g.ifs for g in n.generators)]
        if comps and not targets:
            # the list view written as a comprehension: its filter
            from ..astpaths import _facts
            for cnode in comps:
                for g in cnode.generators:
                    for t in g.ifs:
                        for atom, pol in _facts(t, True):
                            if isinstance(atom, ast.Attribute) and \
                                    atom.attr in flags:
                                used.add((atom.attr, 'T' if pol else 'F'))
            targets = []
        elif not targets:
            targets = [sgv.exits['T']]
        for tg in targets:
            for pol, atom, fn_, cn_ in Q.control_facts(sgv, tg):
                if isinstance(atom, ast.Attribute) and atom.attr in flags:
                    used.add((atom.attr, pol))
        views[m.qualname] = used
    if len(views) < 3:
        raise AnalysisError('only %d created-file views on %s' % (
            len(views), C))
    key = 'created-file views decide by the same record flags'
    if len({frozenset(v) for v in views.values()}) > 1:
        rc.violation(
            'created-views-disagree | ' + C,
            'the created-file views of %s test different record flags: %s'
            % (C, {k: sorted(v) for k, v in sorted(views.items())}),
            prog.classes[C].module, key=key)
    else:
        rc.ok({'views': sorted(views), 'flags': sorted(
            next(iter(views.values())))}, key=key)


def _static_api_only(ctx, f, seen=None):
    """f is a public static method (clean: no build is running), or a
    private helper all of whose callers are."""
    R = ctx.R
    if f in R.public_static_methods:
        return True
    seen = seen or set()
    if f.qualname in seen or f.is_public or f.has_self:
        # an instance method runs inside a build
        return False
    seen.add(f.qualname)
    callers = [cf for cf, _ in ctx.prog.callers().get(f.qualname, [])]
    return bool(callers) and all(
        _static_api_only(ctx, cf, seen) for cf in callers)


def _getter_roles(ctx, arg, func, cn, getter):
    """Roles of the cache whose getter produced the value (through loops
    and parameters)."""
    roles = set()
    seen = set()

    def visit(e, f, c):
        for n in ast.walk(e):
            if isinstance(n, ast.Call) and isinstance(n.func, ast.Attribute) \
                    and any(isinstance(g, Func) and g.qualname == getter
                            for g in ctx.prog.resolve_call(n, f)):
                roles.update(ctx.H.expr_roles(n.func.value, f, c))
            if isinstance(n, ast.Name) and (f.qualname, n.id) not in seen:
                seen.add((f.qualname, n.id))
                cfg = ctx.E.cfgs.get(f)
                for d in cfg.nodes:
                    if n.id in d.defs:
                        v = cfg.def_value(d.id, n.id)
                        if isinstance(v, ast.AST):
                            visit(v, f, d)
                        elif v[0] in ('iter', 'with', 'unpack'):
                            visit(v[1], f, d)
    visit(arg, func, cn)
    return roles or {'unknown'}


def r3_4(ctx, rc):
    prog = ctx.prog
    n = 0
    for f in prog.funcs.values():
        for call in prog.calls_in(f):
            for g in prog.resolve_call(call, f):
                if g not in ('os.mkdir', 'os.makedirs'):
                    continue
                n += 1
                cn = ctx.H.node_of(f, call)[0]
                tags = _origin_tags(ctx, call.args[0], f, cn)
                allowed = {'dirs_to_make', 'cache.created_dirs', 'tempdir',
                           'backups-list'}
                key = '%s in %s' % (g, f.qualname)
                bad = tags - allowed
                if 'cache.created_dirs' in tags and _getter_roles(
                        ctx, call.args[0], f, cn,
                        ctx.R.cache + '.created_dirs') - {'old', 'unknown'}:
                    bad.add('created_dirs of the new cache')
                if bad:
                    rc.violation('mkdir-origin | ' + key,
                                 '%s can create %s' % (g, sorted(bad)),
                                 prog.loc(f, call), key=key)
                else:
                    rc.ok({'create': key, 'origins': sorted(tags)}, key=key)
    if n < 4:
        raise AnalysisError('only %d directory creation sites' % n)


def r3_5(ctx, rc):
    """After a rolled-back build even overwritten foreign files are back:
    they are moved aside before being overwritten, rollback cannot be cut
    short, and restoration comes after the failed build's own files and
    directories were removed (C02 rules R2.3, R2.4, R2.6, R2.7)."""
    from . import c02
    c02.r2_4(ctx, rc)
    c02.r2_3(ctx, rc)
    c02.r2_6(ctx, rc)
    c02.r2_6b(ctx, rc)
    c02.r2_7(ctx, rc)
    # directories made before a failing mkdir are handed off for removal
    # (a leftover directory blocks the restoration of a foreign file)
    from .c14 import r14_3, r14_4
    r14_3(ctx, rc)
    # a directory nobody owns is not removed by rollback and blocks the
    # restoration the same way (R9.6); a file that could not be moved aside
    # must not be taken for "nothing there" (R14.4)
    from .c09 import r9_6
    r9_6(ctx, rc)
    r14_4(ctx, rc)
    # what rollback keeps and removes (R2.8): a directory of the failed
    # build that is kept occupies the path of a backed-up foreign file
    c02.r2_8(ctx, rc)


RULES = [
    ('R3.1', 'census of destructive primitives', r3_1),
    ('R3.2', 'provenance and guards of every deletable path', r3_2),
    ('R3.4', 'provenance of every created directory', r3_4),
    ('R3.5', 'overwritten foreign files are moved aside and restored last',
     r3_5),
]
