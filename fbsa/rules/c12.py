"""C12 - clean removes exactly what the last build created."""
import ast

from ..model import Func, AnalysisError
from ..effects import DESTROY, CREATE, USER, UNKNOWN
from ..supergraph import callee_name
from .. import queries as Q
from . import c03
from .apply_rules import apply_rules

EXPLANATION = (
    'R12.1: the only mutating effects reachable from clean are os.remove '
    '(through the ISFILE-guarded remover) and os.rmdir (through the '
    'failure-swallowing directory remover), applied to created_files()/'
    'created_dirs() of the cache just read and to the normalised cache file '
    'name. R12.2: clean does nothing before validation and nothing without '
    'a cache file (every effect requires the cache file to exist). R12.3: '
    'the cache file is removed on every non-refused path (idempotence). '
    'R12.4: the created-directory set is persisted on every success path - '
    'assembled from BuildDirs.created_dirs() and the directories made for '
    'the cache file before the cache is written. R12.5: clean, commit and '
    'rollback remove files only through the guarded remover and '
    'directories only through the longest-first, failure-swallowing rmdir '
    'helper. R12.6: the directory bookkeeping is seeded with the old '
    'cache\'s directories and files plus the cache file; reused subtrees '
    're-register the directories of every nested output. Exactness of the '
    'created-directory set after arbitrary histories is not decided.'
    ' R12.3b: files and the cache file are removed before directories. R12.4b: createdDirs is written from and read into one field and every registered operation reaches the cache file (R16.2, R16.5, R16.6). R12.7: a concurrently created directory keeps an owner (R9.6).')
# round 3/4 additions
EXPLANATION += (
    ' R12.5 includes: no containment decision between paths by a plain string-prefix test. R12.8 = R2.9 (the previous cache file survives a failed write). R12.9 = R4.10-R4.12 (removed-directory knowledge: memoised, kept while reserved, vanished = removed).')


def _clean(ctx):
    return ctx.R.builder_f('clean')


def _clean_funcs(ctx):
    """clean and the private builder helpers that only clean (transitively)
    calls, except the removers themselves."""
    R = ctx.R
    prog = ctx.prog
    F = _clean(ctx)
    out = [F]
    todo = [F]
    while todo:
        f = todo.pop()
        for c in prog.calls_in(f):
            for g in prog.resolve_call(c, f):
                if isinstance(g, Func) and g.cls == R.builder and \
                        not g.is_public and not g.is_ctor_call and \
                        g not in out and g.name not in (
                            '_try_to_remove_file', '_remove_empty_dirs',
                            '_sanitize_filename'):
                    callers = {cf.qualname for cf, _ in
                               prog.callers().get(g.qualname, [])}
                    if callers <= {x.qualname for x in out}:
                        out.append(g)
                        todo.append(g)
    return out


def r12_1(ctx, rc):
    R = ctx.R
    F = _clean(ctx)
    prims = ctx.E.eff.summaries()[F.qualname]['prims']
    bad = sorted(p for k, p in prims if k in (DESTROY, CREATE, USER, UNKNOWN)
                 and p not in ('os.remove', 'os.rmdir'))
    key = 'effects reachable from clean'
    if bad:
        rc.violation('clean-effects | ' + ','.join(bad),
                     'clean can reach the mutating primitives %s (only '
                     'os.remove and os.rmdir are allowed)' % bad, F.file,
                     key=key)
    else:
        rc.ok({'mutating_primitives': sorted(
            p for k, p in prims if k in (DESTROY, CREATE))}, key=key)
    # path arguments (in clean and in private helpers only clean uses)
    n = 0
    cfuncs = _clean_funcs(ctx)
    for F2, call in [(f2, c) for f2 in cfuncs for c in ctx.prog.calls_in(f2)]:
        for g in ctx.prog.resolve_call(call, F2):
            if isinstance(g, Func) and g.name in (
                    '_try_to_remove_file', '_remove_empty_dirs'):
                n += 1
                cn = ctx.H.node_of(F2, call)[0]
                tags = c03._origin_tags(ctx, call.args[0], F2, cn)
                allowed = {'cache.created_files', 'normalised-api-path'} \
                    if g.name == '_try_to_remove_file' else \
                    {'cache.created_dirs'}
                key = '%s(%s) in clean' % (g.name, ast.unparse(
                    call.args[0])[:30])
                if tags - allowed or not tags:
                    rc.violation('clean-path | ' + key,
                                 'clean applies %s to %s' % (
                                     g.name, sorted(tags - allowed) or
                                     'an unknown path'),
                                 ctx.prog.loc(F2, call), key=key)
                else:
                    rc.ok({'sink': key, 'origins': sorted(tags)}, key=key)
    if n < 2:
        raise AnalysisError('only %d removal sites in clean' % n)
    # the cache whose sets are used is the one read from the cache file
    for F2, call in [(f2, c) for f2 in cfuncs for c in ctx.prog.calls_in(f2)]:
        if isinstance(call.func, ast.Attribute) and call.func.attr in (
                'created_files', 'created_dirs'):
            cn = ctx.H.node_of(F2, call)[0]
            org = ctx.H.origins(
                call.func.value, F2, cn,
                stop=lambda n: n == R.cache + '.read_immutable')
            key = 'receiver of %s in clean' % call.func.attr
            if {o[1] for o in org if o[0] == 'call'} == {
                    R.cache + '.read_immutable'}:
                rc.ok({'receiver': 'Cache.read_immutable(cache_filename)'},
                      key=key)
            else:
                rc.violation('clean-cache | ' + key,
                             'clean does not take its sets from the cache '
                             'file it was given', ctx.prog.loc(F2, call),
                             key=key)


def _exists_true(ctx, lab):
    if not (isinstance(lab, tuple) and len(lab) == 4 and lab[0] == 'T'):
        return False
    a = lab[1]
    return isinstance(a, ast.Call) and any(
        n in ('os.path.exists', 'os.path.isfile')
        for n in ctx.prog.resolve_call(a, lab[2]) if isinstance(n, str))


def r12_2(ctx, rc):
    from .c15 import r15_1, r15_4, r15_5, _is_effect_begin
    r15_1(ctx, rc)
    r15_4(ctx, rc)
    r15_5(ctx, rc)
    F = _clean(ctx)
    sg = ctx.E.super(F)
    seen = sg.reach([sg.entry],
                    edge_ok=lambda a, b, lab: not _exists_true(ctx, lab))
    effs = [x for x in sg.nodes if x.id in seen and _is_effect_begin(ctx, x)]
    key = 'clean: every effect requires the cache file to exist'
    if effs:
        rc.violation('clean-without-cache | ' + F.qualname,
                     'clean can have an effect (%s) although the cache file '
                     'does not exist' % callee_name(effs[0]),
                     effs[0].where(), sg.describe_path(
                         sg.witness(seen, effs[0].id)), key=key)
    else:
        rc.ok({'guard': key}, key=key)


def _loop_removes_cache(ctx, F, sg, starts, rm, cparam):
    """Alternative form: one loop over a statically non-empty list that
    contains the cache file name removes every element unconditionally, and
    that loop is on every non-refused path."""
    for x in sg.nodes:
        if not (x.kind == 'in' and x.cn.kind == 'for_iter'):
            continue
        it = x.cn.ast.iter
        nonempty = any(isinstance(n, ast.List) and any(
            isinstance(e, ast.Name) and e.id == cparam for e in n.elts)
            for n in ast.walk(it)) and isinstance(it, (ast.BinOp, ast.List))
        if not nonempty:
            continue
        tgt = x.cn.ast.target
        if not isinstance(tgt, ast.Name):
            continue
        # the loop is reached on every non-refused path
        if Q.first_unguarded(sg, starts, lambda y: y.id == x.id,
                             lambda y: y.id in sg.normal_exits()):
            continue
        # the body removes the loop variable unconditionally
        heads = [h for h in sg.nodes if h.kind == 'out' and
                 h.cn.kind == 'for_next' and h.cn.ast is x.cn.ast]
        okb = True
        for h in heads:
            body = [d for d, l in h.succ
                    if isinstance(l, tuple) and l[0] == 'iter']

            def removes_var(y):
                return Q.is_done(y, rm) and y.call.args and isinstance(
                    y.call.args[0], ast.Name) and \
                    y.call.args[0].id == tgt.id
            seen = sg.reach(body, avoid=removes_var)
            if any(sg.nodes[m].kind == 'in' and sg.nodes[m].cn is h.cn
                   for m in seen):
                okb = False
        if heads and okb:
            return True
    return False


def r12_3(ctx, rc):
    F = _clean(ctx)
    sg = ctx.helpers_graph(F, stop=(ctx.R.builder + '._try_to_remove_file',
                                   ctx.R.builder + '._remove_empty_dirs'))
    rm = ctx.R.builder + '._try_to_remove_file'
    cparam = F.params[0]

    def removes_cache(x):
        if not Q.is_done(x, rm) or not x.call.args:
            return False
        a = x.call.args[0]
        return isinstance(a, ast.Name) and a.id == cparam
    starts = []
    for x in sg.nodes:
        for d, lab in x.succ:
            if _exists_true(ctx, lab):
                starts.append(d)
    if not starts:
        raise AnalysisError('existence test of the cache file not found in '
                            'clean')
    w = Q.first_unguarded(sg, starts, removes_cache,
                          lambda x: x.id in sg.normal_exits())
    key = 'clean removes the cache file on every non-refused path'
    if w and _loop_removes_cache(ctx, F, sg, starts, rm, cparam):
        w = None
    if w:
        rc.violation('cache-file-kept | ' + F.qualname,
                     'clean can return normally with the cache file still '
                     'present (a second call would act again)', F.file,
                     sg.describe_path(w), key=key)
    else:
        rc.ok({'must_pass': '_try_to_remove_file(cache_filename)'}, key=key)
    # and the recorded files and directories are removed as well
    for name in ('_try_to_remove_file', '_remove_empty_dirs'):
        q = ctx.R.builder + '.' + name
        w = Q.first_unguarded(sg, starts, lambda x: Q.is_done(x, q),
                              lambda x: x.id in sg.normal_exits())
        key = 'clean calls %s on every non-refused path' % name
        if w and name == '_try_to_remove_file' and _loop_removes_cache(
                ctx, F, sg, starts, rm, cparam):
            w = None
        if w:
            rc.violation('clean-step-skipped | ' + name,
                         'clean can return normally without calling ' + name,
                         F.file, sg.describe_path(w), key=key)
        else:
            rc.ok({'must_pass': name}, key=key)


def r12_3b(ctx, rc):
    """Order inside clean: files, then the cache file, then directories -
    a directory that holds the cache file is empty only afterwards."""
    F = _clean(ctx)
    sg = ctx.helpers_graph(F, stop=(ctx.R.builder + '._try_to_remove_file',
                                   ctx.R.builder + '._remove_empty_dirs'))
    rm = ctx.R.builder + '._try_to_remove_file'
    dr = ctx.R.builder + '._remove_empty_dirs'
    starts = [x.id for x in sg.nodes if Q.is_call(x, dr)]
    seen = sg.reach(starts)
    late = [x for x in sg.nodes if x.id in seen and Q.is_call(x, rm)]
    key = 'clean removes files (and the cache file) before directories'
    if late:
        rc.violation('clean-order | ' + F.qualname,
                     'clean tries to remove directories before it removed '
                     'the files in them (the directory that holds the cache '
                     'file or an output is not empty yet and stays behind)',
                     late[0].where(), key=key)
    else:
        rc.ok({'order': key}, key=key)


def r12_4(ctx, rc):
    R = ctx.R
    prog = ctx.prog
    root = R.root_runner()
    sg = ctx.E.super(root, lambda g: g.qualname == R.builder +
                     '._set_created_dirs')
    add = R.cache + '.add_created_dirs'
    wr = R.cache + '.write'
    ctx.E.func(add)
    w = Q.first_unguarded(sg, [sg.entry], lambda x: Q.is_done(x, add),
                          lambda x: Q.is_call(x, wr))
    key = 'created directories are added to the new cache before it is ' \
        'written'
    if w:
        rc.violation('created-dirs-not-persisted | ' + root.qualname,
                     'the cache can be written without the set of created '
                     'directories having been added to it (clean would '
                     'leave them behind)', sg.nodes[w[-1]].where(),
                     sg.describe_path(w), key=key)
    else:
        rc.ok({'order': key}, key=key)
    # what is added: BuildDirs.created_dirs() and the cache-file directories
    S = R.builder_f('_set_created_dirs')
    for call in prog.calls_in(S):
        for g in prog.resolve_call(call, S):
            if isinstance(g, Func) and g.qualname == add:
                cn = ctx.H.node_of(S, call)[0]
                org = ctx.H.origins(
                    call.args[0], S, cn,
                    stop=lambda n: n in ('BuildDirs.created_dirs',
                                         R.builder + '._make_dirs'))
                calls = {o[1] for o in org if o[0] == 'call'}
                for need, what in (
                        ('BuildDirs.created_dirs',
                         'BuildDirs.created_dirs()'),
                        (R.builder + '._make_dirs',
                         'the directories made for the cache file')):
                    key = 'persisted set includes ' + what
                    if need in calls:
                        rc.ok({'includes': what}, key=key)
                    else:
                        rc.violation('created-dirs-incomplete | ' + what,
                                     'the created-directory set written to '
                                     'the cache does not include ' + what,
                                     prog.loc(S, call), key=key)
                # a cache-file directory is left out only when it is already
                # in the set
                sgs = ctx.E.super(S, lambda g0: False)
                argname = call.args[0].id if isinstance(
                    call.args[0], ast.Name) else None
                apps = [x for x in sgs.nodes if x.kind == 'leaf' and
                        x.call is not None and isinstance(
                            x.call.func, ast.Attribute) and
                        x.call.func.attr in ('append', 'add') and
                        isinstance(x.call.func.value, ast.Name) and
                        x.call.func.value.id == argname]
                def same_source(coll, fn_, cn_):
                    # the collection asked is a view of the very list that
                    # is appended to (derived from the same getter call)
                    o1 = {o[1] for o in ctx.H.origins(
                        coll, fn_, cn_, stop=lambda n: n.startswith(
                            'BuildDirs.')) if o[0] == 'call'}
                    o2 = {o[1] for o in ctx.H.origins(
                        call.args[0], S, cn, stop=lambda n: n.startswith(
                            'BuildDirs.')) if o[0] == 'call' and
                        str(o[1]).startswith('BuildDirs.')}
                    return bool(o1) and o1 <= o2
                for ap in apps:
                    odd = []
                    for pol, atom, fn_, cn_ in Q.control_facts(sgs, ap.id):
                        good = isinstance(atom, ast.Compare) and len(
                            atom.ops) == 1 and isinstance(
                                atom.ops[0], ast.In) and pol == 'F' and \
                            same_source(atom.comparators[0], fn_, cn_)
                        if not good:
                            odd.append('%s is %s' % (
                                ast.unparse(atom)[:50], pol))
                    key = 'cache-file directories are added unless present'
                    if odd:
                        rc.violation(
                            'created-dirs-condition | ' + S.qualname,
                            'a directory made for the cache file is added '
                            'to the persisted set only when %s; the only '
                            'admissible reason to skip it is that it is '
                            'already in the set (clean would leave it '
                            'behind)' % '; '.join(odd),
                            ap.where(), key=key)
                    else:
                        rc.ok({'append': 'unless already present'}, key=key)
                roles = ctx.H.expr_roles(call.func.value, S, cn)
                key = 'created directories are added to the new cache'
                if roles == {'new'}:
                    rc.ok({'receiver': 'new cache'}, key=key)
                else:
                    rc.violation('created-dirs-wrong-cache | ' + S.qualname,
                                 'created directories are added to the %s '
                                 'cache' % sorted(roles), prog.loc(S, call),
                                 key=key)


def r12_4b(ctx, rc):
    from .c16 import r16_2, r16_5, r16_6
    r16_2(ctx, rc)
    # clean works from the recorded outputs: every registered operation must
    # reach the cache file
    r16_5(ctx, rc)
    r16_6(ctx, rc)


def path_prefix_tests(ctx, rc):
    """No containment decision between paths is taken by a plain string
    prefix test: ``a.startswith(b)`` / ``os.path.commonprefix`` also match a
    sibling whose name merely begins alike (out/gen vs out/gen2), so a
    directory can be skipped (or removed) because of an unrelated one.  A
    separator-terminated prefix (``b + os.sep``, ``os.path.join(b, '')``)
    is a containment test."""
    prog = ctx.prog
    PATHY = ('os.path.', 'os.listdir', 'os.getcwd', 'os.fsdecode')
    n = 0

    def comp_iter(e):
        # a comprehension variable stands for the elements of its iterable
        if not isinstance(e, ast.Name):
            return e
        n = e
        while n is not None:
            n = prog.parent(n)
            if isinstance(n, (ast.GeneratorExp, ast.ListComp, ast.SetComp,
                              ast.DictComp)):
                for g in n.generators:
                    if any(isinstance(t, ast.Name) and t.id == e.id
                           for t in ast.walk(g.target)):
                        return g.iter
            if isinstance(n, ast.FunctionDef):
                break
        return e

    def pathlike(e, f, cn):
        org = ctx.H.origins(comp_iter(e), f, cn)
        for o in org:
            if o[0] == 'call' and (str(o[1]).startswith(PATHY) or any(
                    k in str(o[1]) for k in (
                        'created_dirs', 'created_files', '_dirs_to_make',
                        '_sanitize_filename'))):
                return True
            if o[0] in ('attr', 'field') and ('dir' in str(o[-1]) or
                                              'filename' in str(o[-1])):
                return True
            if o[0] in ('param', 'api_param') and ('dir' in str(o[-1]) or
                                                   'file' in str(o[-1])):
                return True
        return False
    for f in prog.funcs.values():
        for call in prog.calls_in(f):
            fn = call.func
            is_sw = isinstance(fn, ast.Attribute) and fn.attr == \
                'startswith' and call.args
            is_cp = 'os.path.commonprefix' in prog.resolve_call(call, f)
            if not (is_sw or is_cp):
                continue
            cns = ctx.H.node_of(f, call)
            if not cns:
                continue
            if is_sw:
                arg = call.args[0]
                sep_ok = any(
                    (isinstance(x, ast.Attribute) and x.attr in (
                        'sep', 'altsep')) or
                    (isinstance(x, ast.Constant) and x.value in ('/', ''))
                    for x in ast.walk(arg)) and not isinstance(arg, ast.Name)
                if sep_ok or isinstance(arg, ast.Constant):
                    continue
                if not (pathlike(fn.value, f, cns[0]) and
                        pathlike(arg, f, cns[0])):
                    continue
            n += 1
            rc.violation(
                'path-prefix-test | ' + f.qualname,
                '%s decides a relation between two paths with a plain '
                'string prefix test (%s): a sibling whose name begins alike '
                'is taken for a descendant' % (
                    f.qualname, ast.unparse(call)[:60]),
                prog.loc(f, call), key='prefix test in ' + f.qualname)
    if n == 0:
        rc.ok({'string_prefix_tests_on_paths': 0},
              key='no string-prefix containment test on paths')


def r12_5(ctx, rc):
    R = ctx.R
    prog = ctx.prog
    path_prefix_tests(ctx, rc)
    for name in ('clean', '_commit', '_roll_back'):
        F = R.builder_f(name)
        direct = []
        for call in prog.calls_in(F):
            for g in prog.resolve_call(call, F):
                if not isinstance(g, Func):
                    k, _ = ctx.E.eff.classify(g, call, F)
                    if k in (DESTROY, UNKNOWN):
                        direct.append((g, call))
        key = '%s removes only through the guarded helpers' % F.qualname
        if direct:
            rc.violation('raw-removal | %s | %s' % (F.qualname, direct[0][0]),
                         '%s calls %s directly instead of the guarded '
                         'remover / rmdir helper' % (F.qualname,
                                                     direct[0][0]),
                         prog.loc(F, direct[0][1]), key=key)
        else:
            rc.ok({'function': F.qualname, 'raw_destructive_calls': 0},
                  key=key)
    # the directory remover: longest first, failures swallowed, rmdir only
    D = R.builder_f('_remove_empty_dirs')
    key = '_remove_empty_dirs: rmdir only, failures swallowed'
    prims = {p for k, p in ctx.E.eff.summaries()[D.qualname]['prims']
             if k in (DESTROY, CREATE, UNKNOWN)}
    raises = ctx.E.fault_all.summary.get(D.qualname, set())
    if prims != {'os.rmdir'} or raises:
        rc.violation('dir-remover | ' + D.qualname,
                     'the directory remover uses %s and may raise %s' % (
                         sorted(prims), sorted(raises)), D.file, key=key)
    else:
        rc.ok({'primitives': ['os.rmdir'], 'raises': []}, key=key)
    srt = [c for c in prog.calls_in(D)
           if 'builtins.sorted' in prog.resolve_call(c, D)]
    key = '_remove_empty_dirs: children before parents'
    ok = False
    for c in srt:
        for kw in c.keywords:
            if kw.arg == 'key' and isinstance(kw.value, ast.Lambda):
                b = kw.value.body
                if isinstance(b, ast.UnaryOp) and isinstance(
                        b.op, ast.USub) and 'len' in ast.unparse(b):
                    ok = True
            if kw.arg == 'reverse' and isinstance(
                    kw.value, ast.Constant) and kw.value.value is True:
                ok = True
    if ok:
        rc.ok({'order': 'longest path first'}, key=key)
    else:
        rc.violation('dir-remover-order | ' + D.qualname,
                     'directories are not removed longest-first: a parent '
                     'is tried before its child and stays behind',
                     D.file, key=key)
    Rm = R.builder_f('_try_to_remove_file')
    raises = ctx.E.fault_all.summary.get(Rm.qualname, set())
    key = '_try_to_remove_file: ISFILE-guarded, failures swallowed'
    if raises:
        rc.violation('file-remover | ' + Rm.qualname,
                     'the file remover may raise %s' % sorted(raises),
                     Rm.file, key=key)
    else:
        rc.ok({'raises': []}, key=key)


def r12_6(ctx, rc):
    R = ctx.R
    prog = ctx.prog
    C = R.cache
    # BuildDirs is seeded with the old cache's directories, its files and
    # the cache file
    init = prog.lookup_method('BuildDirs', '__init__')
    sites = prog.callers().get(init.qualname, [])
    if not sites:
        raise AnalysisError('BuildDirs construction not found')
    for caller, call in sites:
        b = prog.bind_args(call, init)
        cn = ctx.H.node_of(caller, call)[0]
        # by field, not by position: the constructor parameters that flow
        # into the initial value of each set
        def params_into(field):
            ps_ = set()
            found = False
            for st in ast.walk(init.node):
                if isinstance(st, ast.Assign) and any(
                        isinstance(t, ast.Attribute) and t.attr == field
                        for t in st.targets):
                    found = True
                    cns_ = [x for x in ctx.E.cfgs.get(init).nodes
                            if x.ast is st]
                    v = ctx.H.subst(st.value, init, cns_[0]) if cns_ \
                        else st.value
                    ps_ |= {n.id for n in ast.walk(v) if isinstance(
                        n, ast.Name) and n.id in init.params}
            if not found:
                raise AnalysisError('BuildDirs.__init__ does not '
                                    'initialise .' + field)
            return ps_
        want = {
            '_maybe_removed_dirs': ({'cache.created_dirs'},
                                    'the old cache\'s directories'),
            '_removed_files': ({'cache.created_files',
                                'normalised-api-path'},
                               'the old cache\'s files and the cache file'),
        }
        for field, (need, what) in want.items():
            key = 'BuildDirs seeded with ' + what
            p = field
            tags = set()
            for pn in sorted(params_into(field)):
                a = b.get(pn)
                if a is not None and not isinstance(a, list):
                    tags |= c03._origin_tags(ctx, a, caller, cn)
            if need <= tags:
                rc.ok({'param': p, 'origins': sorted(tags)}, key=key)
            else:
                rc.violation(
                    'builddirs-seed | ' + what,
                    'the directory bookkeeping is not seeded with %s '
                    '(missing %s): a directory holding only such files is '
                    'taken for foreign content and drops out of the '
                    'created-directory set' % (what, sorted(need - tags)),
                    prog.loc(caller, call), key=key)
    apply_rules(ctx, rc)


def r12_7(ctx, rc):
    from .c09 import r9_6
    r9_6(ctx, rc)


def r12_9(ctx, rc):
    """The created-directory set stays exact under external deletion: a
    directory of the previous build that vanished is known as removed
    (R4.12), removed-knowledge survives while the directory is reserved
    (R4.11) and the scan's verdict is memoised (R4.10)."""
    from .c04 import r4_10, r4_11, r4_12
    r4_10(ctx, rc)
    r4_11(ctx, rc)
    r4_12(ctx, rc)


def r12_8(ctx, rc):
    """The cache file of the last committed build survives a failed write
    of the next one (R2.9): without it clean has nothing to go by."""
    from .c02 import r2_9, r2_8
    r2_9(ctx, rc)
    # ... and a rolled-back build leaves nothing the restored cache does
    # not know about: the undo sets and questions of rollback (R2.8)
    r2_8(ctx, rc)


def r12_10(ctx, rc):
    """Directories a failed set-up had already created are handed off for
    removal (R14.3): otherwise they stay on disk unrecorded and no later
    clean can know about them."""
    from .c14 import r14_3
    r14_3(ctx, rc)


RULES = [
    ('R12.1', 'what clean can touch', r12_1),
    ('R12.2', 'nothing before validation, nothing without a cache file',
     r12_2),
    ('R12.3', 'the cache file and recorded outputs are always removed',
     r12_3),
    ('R12.3b', 'clean removes files before directories', r12_3b),
    ('R12.4', 'the created-directory set is persisted', r12_4),
    ('R12.4b', 'createdDirs is written from and read back into one field',
     r12_4b),
    ('R12.5', 'clean/commit/rollback agree on the removal discipline', r12_5),
    ('R12.6', 'directory bookkeeping is seeded and re-registered', r12_6),
    ('R12.7', 'a concurrently created directory keeps an owner', r12_7),
    ('R12.8', 'a failed cache write keeps the previous cache file', r12_8),
    ('R12.9', 'removed-directory knowledge: vanished, reserved, memoised',
     r12_9),
    ('R12.10', 'partially created directories are handed off (R14.3)',
     r12_10),
]
