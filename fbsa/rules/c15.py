"""C15 - refused calls have no side effects."""
import ast

from ..model import Func, AnalysisError
from ..effects import DESTROY, CREATE, USER, UNKNOWN, PURE, LOG
from ..supergraph import callee_name

EXPLANATION = (
    'Effect-ordering analysis on the fully inlined interprocedural graph of '
    'every public static entry point (build, build_versioned, clean). '
    'R15.1: no refusal point - an explicit raise, or a may-fail call, located '
    'in the entry point itself or in a chain of effect-free callees - is '
    'reachable after a statement that begins a mutating effect (FS_DESTROY, '
    'FS_CREATE, user callback). R15.2: every callee that can refuse is '
    'transitively read-only. R15.3: the temporary directory is created only '
    'in __enter__ and removed in __exit__ of a class that is only used as a '
    'with-item. Decides the property completely relative to the primitive '
    'table.')

EFFECTS = (DESTROY, CREATE, USER, UNKNOWN)


def _effect_free_chain(ctx, sn):
    """All functions on the inlining chain below the root are effect-free."""
    fr = sn.frame
    while fr is not None and fr.parent is not None:
        if (fr.func not in ctx.R.public_static_methods and
                ctx.E.eff.has_effect(fr.func, EFFECTS)):
            return False
        fr = fr.parent
    return True


def _is_effect_begin(ctx, sn):
    if sn.kind != 'leaf':
        return False
    c = sn.callee
    if isinstance(c, Func):
        return ctx.E.eff.has_effect(c, EFFECTS)
    k, _ = ctx.E.eff.classify(c, sn.call)
    return k in EFFECTS


def entry_points(ctx):
    eps = ctx.R.public_static_methods
    if len(eps) < 2:
        raise AnalysisError('expected >= 2 public static entry points')
    return eps


def r15_1(ctx, rc):
    for F in entry_points(ctx):
        sg = ctx.E.super(F)
        effects = [n.id for n in sg.nodes if _is_effect_begin(ctx, n)]
        if not effects:
            # pure delegation wrappers have no effect node of their own only
            # if everything is inlined away - never the case here
            raise AnalysisError('no effect node found in ' + F.qualname)
        seen = sg.reach(effects)
        roots = set(sg.raise_exits.values())
        n_ref = 0
        for n in sg.nodes:
            refusal = False
            if n.kind == 'out' and n.cn.kind == 'raise':
                refusal = True
            elif n.kind == 'leaf' and not _is_effect_begin(ctx, n):
                refusal = any(isinstance(l, tuple) and l[0] == 'exc'
                              for _, l in n.succ)
            if not refusal or not _effect_free_chain(ctx, n):
                continue
            # does this raise leave the entry point?
            excs = [d for d, l in n.succ
                    if isinstance(l, tuple) and l[0] == 'exc']
            out = sg.reach(excs)
            if not (roots & set(out)):
                continue
            n_ref += 1
            what = ('raise' if n.kind == 'out' else
                    'call ' + str(callee_name(n)))
            key = '%s | %s in %s' % (F.qualname, what, n.func.qualname)
            if n.id in seen:
                path = sg.describe_path(sg.witness(seen, n.id))
                rc.violation(
                    'effect-before-refusal | ' + key,
                    '%s can refuse (%s at %s) after a mutating effect has '
                    'begun' % (F.qualname, what, n.where()),
                    n.where(), path, key=key)
            else:
                rc.ok({'entry': F.qualname, 'refusal': what,
                       'at': n.where()}, key=key)
        rc.note('%s: %d refusal points, %d effect-begin nodes, %d graph '
                'nodes' % (F.qualname, n_ref, len(effects), len(sg.nodes)))


def r15_2(ctx, rc):
    """Callees invoked directly by an entry point that may raise and run
    before its first effect are read-only (PROBE/READ/PURE only)."""
    eff = ctx.E.eff
    for F in entry_points(ctx):
        for call in ctx.prog.calls_in(F):
            for g in ctx.prog.resolve_call(call, F):
                if not isinstance(g, Func) or g.is_ctor_call:
                    continue
                if not ctx.E.fault_all.summary.get(g.qualname):
                    continue
                kinds = eff.kinds(g)
                if kinds & set(EFFECTS):
                    continue      # failures in progress (C02/C14), not refusals
                key = '%s -> %s' % (F.qualname, g.qualname)
                rc.ok({'refusal_callee': g.qualname,
                       'effects': sorted(kinds)}, key=key)
    # the reader of the cache file opens it read-only
    reader = ctx.E.func(ctx.R.cache + '.read_immutable')
    for call in ctx.prog.calls_in(reader):
        for g in ctx.prog.resolve_call(call, reader):
            if g in ('gzip.open', 'builtins.open'):
                k, _ = eff.classify(g, call)
                key = 'open mode in ' + reader.qualname
                if k in EFFECTS:
                    rc.violation(
                        'reader-opens-for-write | ' + reader.qualname,
                        'the cache reader opens the cache file in a mode '
                        'that can modify it', ctx.prog.loc(reader, call),
                        key=key)
                else:
                    rc.ok({'open': ast.unparse(call)[:60]}, key=key)
    if eff.has_effect(reader, EFFECTS):
        rc.violation('reader-has-effects | ' + reader.qualname,
                     'the cache reader has mutating effects: %s' % sorted(
                         eff.kinds(reader)), ctx.prog.loc(reader, reader.node))
    else:
        rc.ok({'reader': reader.qualname,
               'effects': sorted(eff.kinds(reader))},
              key='reader read-only')


def r15_3(ctx, rc):
    prog = ctx.prog
    mk = []
    rm = []
    for f in prog.funcs.values():
        for call in prog.calls_in(f):
            for g in prog.resolve_call(call, f):
                if g in ('tempfile.mkdtemp', 'tempfile.mkstemp',
                         'tempfile.TemporaryDirectory'):
                    mk.append((f, call))
                elif g == 'shutil.rmtree':
                    rm.append((f, call))
    if not mk:
        raise AnalysisError('no temporary-directory acquisition found')
    for f, call in mk:
        key = 'mkdtemp in ' + f.qualname
        if f.name != '__enter__':
            rc.violation('tempdir-outside-enter | ' + f.qualname,
                         'temporary directory acquired outside __enter__',
                         prog.loc(f, call), key=key)
            continue
        cls = f.cls
        ex = prog.lookup_method(cls, '__exit__')
        paired = [c for (g, c) in rm if g.qualname == (
            ex.qualname if ex else None)]
        # the attribute assigned from mkdtemp is the one removed
        attr = None
        for n in ast.walk(f.node):
            if isinstance(n, ast.Assign) and n.value is call:
                for t in n.targets:
                    if isinstance(t, ast.Attribute):
                        attr = t.attr
        ok = bool(paired) and attr is not None and any(
            isinstance(c.args[0], ast.Attribute) and c.args[0].attr == attr
            for c in paired if c.args)
        if not ok:
            rc.violation('tempdir-unpaired | ' + cls,
                         'mkdtemp in %s.__enter__ has no matching rmtree of '
                         'the same attribute in __exit__' % cls,
                         prog.loc(f, call), key=key)
        else:
            rc.ok({'class': cls, 'attr': attr}, key=key)
        # the class is only ever constructed as a with-item
        init = prog.lookup_method(cls, '__init__')
        n_sites = 0
        for caller, c in prog.callers().get(init.qualname, []) if init else []:
            n_sites += 1
            par = prog.parent(c)
            k2 = 'construction of %s in %s' % (cls, caller.qualname)
            if not isinstance(par, ast.withitem):
                rc.violation('tempdir-owner-not-with | ' + k2,
                             '%s is constructed outside a with statement; '
                             'its temporary directory may be left behind'
                             % cls, prog.loc(caller, c), key=k2)
            else:
                rc.ok({'with': k2}, key=k2)
        if n_sites == 0:
            raise AnalysisError('no construction site of ' + cls)
    for f, call in rm:
        key = 'rmtree in ' + f.qualname
        if f.name != '__exit__':
            rc.violation('rmtree-outside-exit | ' + f.qualname,
                         'shutil.rmtree outside the temp-dir owner\'s '
                         '__exit__', prog.loc(f, call), key=key)
        else:
            rc.ok({'rmtree': f.qualname}, key=key)


RULES = [
    ('R15.1', 'no mutating effect can precede a refusal point', r15_1),
    ('R15.2', 'refusal callees are read-only', r15_2),
    ('R15.3', 'temporary directory acquisition is paired', r15_3),
]
