"""C15 - refused calls have no side effects."""
import ast

from ..model import Func, AnalysisError
from ..effects import DESTROY, CREATE, USER, UNKNOWN, PURE, LOG
from ..supergraph import callee_name
from . import opt

EXPLANATION = (
    'Effect-ordering analysis on the fully inlined interprocedural graph of '
    'every public static entry point (build, build_versioned, clean). '
    'R15.1: no refusal point - an explicit raise, or a may-fail call, located '
    'in the entry point itself or in a chain of effect-free callees - is '
    'reachable after a statement that begins a mutating effect (FS_DESTROY, '
    'FS_CREATE, user callback). R15.2: every callee that can refuse is '
    'transitively read-only. R15.3: the temporary directory is created only '
    'in __enter__ and removed in __exit__ of a class that is only used as a '
    'with-item. Decides the property completely relative to the primitive '
    'table.'
    " R15.4: every validation check (build-name comparison, cache reader, validators, argument type tests) precedes every effect wherever it lives. R15.5: no effect unless the build name was compared, except when the name is None or there is no cache file. R15.6: the reader returns normally only after it decoded with the writer's inverse codec and established dict / software tag / format version. R15.7: no handler around a call of the reader lets the entry point carry on (except exactly FileNotFoundError).")

EFFECTS = (DESTROY, CREATE, USER, UNKNOWN)


def _effect_free_chain(ctx, sn):
    """All functions on the inlining chain below the root are effect-free."""
    fr = sn.frame
    while fr is not None and fr.parent is not None:
        if (fr.func not in ctx.R.public_static_methods and
                ctx.E.eff.has_effect(fr.func, EFFECTS)):
            return False
        fr = fr.parent
    return True


def _is_effect_begin(ctx, sn):
    if sn.kind != 'leaf':
        return False
    c = sn.callee
    if isinstance(c, Func):
        return ctx.E.eff.has_effect(c, EFFECTS)
    k, _ = ctx.E.eff.classify(c, sn.call, sn.func)
    return k in EFFECTS


def entry_points(ctx):
    eps = ctx.R.public_static_methods
    if len(eps) < 2:
        raise AnalysisError('expected >= 2 public static entry points')
    return eps


def r15_1(ctx, rc):
    for F in entry_points(ctx):
        sg = ctx.E.super(F)
        effects = [n.id for n in sg.nodes if _is_effect_begin(ctx, n)]
        if not effects:
            # pure delegation wrappers have no effect node of their own only
            # if everything is inlined away - never the case here
            raise AnalysisError('no effect node found in ' + F.qualname)
        seen = sg.reach(effects)
        roots = set(sg.raise_exits.values())
        n_ref = 0
        for n in sg.nodes:
            refusal = False
            if n.kind == 'out' and n.cn.kind == 'raise':
                # a bare ``raise`` in a handler passes on a failure that is
                # already in progress; it is not a refusal decision
                refusal = getattr(n.cn.ast, 'exc', None) is not None
            elif n.kind == 'leaf' and not _is_effect_begin(ctx, n):
                refusal = any(isinstance(l, tuple) and l[0] == 'exc'
                              for _, l in n.succ)
            if not refusal or not _effect_free_chain(ctx, n):
                continue
            # does this raise leave the entry point?
            excs = [d for d, l in n.succ
                    if isinstance(l, tuple) and l[0] == 'exc']
            out = sg.reach(excs)
            if not (roots & set(out)):
                continue
            n_ref += 1
            what = ('raise' if n.kind == 'out' else
                    'call ' + str(callee_name(n)))
            key = '%s | %s in %s' % (F.qualname, what, n.func.qualname)
            if n.id in seen:
                path = sg.describe_path(sg.witness(seen, n.id))
                rc.violation(
                    'effect-before-refusal | ' + key,
                    '%s can refuse (%s at %s) after a mutating effect has '
                    'begun' % (F.qualname, what, n.where()),
                    n.where(), path, key=key)
            else:
                rc.ok({'entry': F.qualname, 'refusal': what,
                       'at': n.where()}, key=key)
        rc.note('%s: %d refusal points, %d effect-begin nodes, %d graph '
                'nodes' % (F.qualname, n_ref, len(effects), len(sg.nodes)))


def r15_2(ctx, rc):
    """Callees invoked directly by an entry point that may raise and run
    before its first effect are read-only (PROBE/READ/PURE only)."""
    eff = ctx.E.eff
    for F in entry_points(ctx):
        for call in ctx.prog.calls_in(F):
            for g in ctx.prog.resolve_call(call, F):
                if not isinstance(g, Func) or g.is_ctor_call:
                    continue
                if not ctx.E.fault_all.summary.get(g.qualname):
                    continue
                kinds = eff.kinds(g)
                if kinds & set(EFFECTS):
                    continue      # failures in progress (C02/C14), not refusals
                key = '%s -> %s' % (F.qualname, g.qualname)
                rc.ok({'refusal_callee': g.qualname,
                       'effects': sorted(kinds)}, key=key)
    # the reader of the cache file opens it read-only
    reader = ctx.E.func(ctx.R.cache + '.read_immutable')
    for call in ctx.prog.calls_in(reader):
        for g in ctx.prog.resolve_call(call, reader):
            if g in ('gzip.open', 'builtins.open'):
                k, _ = eff.classify(g, call, reader)
                key = 'open mode in ' + reader.qualname
                if k in EFFECTS:
                    rc.violation(
                        'reader-opens-for-write | ' + reader.qualname,
                        'the cache reader opens the cache file in a mode '
                        'that can modify it', ctx.prog.loc(reader, call),
                        key=key)
                else:
                    rc.ok({'open': ast.unparse(call)[:60]}, key=key)
    if eff.has_effect(reader, EFFECTS):
        rc.violation('reader-has-effects | ' + reader.qualname,
                     'the cache reader has mutating effects: %s' % sorted(
                         eff.kinds(reader)), ctx.prog.loc(reader, reader.node))
    else:
        rc.ok({'reader': reader.qualname,
               'effects': sorted(eff.kinds(reader))},
              key='reader read-only')


def r15_3(ctx, rc):
    prog = ctx.prog
    mk = []
    rm = []
    for f in prog.funcs.values():
        for call in prog.calls_in(f):
            for g in prog.resolve_call(call, f):
                if g in ('tempfile.mkdtemp', 'tempfile.mkstemp',
                         'tempfile.TemporaryDirectory'):
                    mk.append((f, call))
                elif g == 'shutil.rmtree':
                    rm.append((f, call))
    if not mk:
        raise AnalysisError('no temporary-directory acquisition found')
    for f, call in mk:
        key = 'mkdtemp in ' + f.qualname
        if f.name != '__enter__':
            rc.violation('tempdir-outside-enter | ' + f.qualname,
                         'temporary directory acquired outside __enter__',
                         prog.loc(f, call), key=key)
            continue
        cls = f.cls
        ex = prog.lookup_method(cls, '__exit__')
        paired = [c for (g, c) in rm if g.qualname == (
            ex.qualname if ex else None)]
        # the attribute assigned from mkdtemp is the one removed
        attr = None
        for n in ast.walk(f.node):
            if isinstance(n, ast.Assign) and n.value is call:
                for t in n.targets:
                    if isinstance(t, ast.Attribute):
                        attr = t.attr
        def removed_attr(c):
            a = c.args[0]
            cn = ctx.H.node_of(ex, c)
            if cn:
                a = ctx.H.subst(a, ex, cn[0])      # through a local
            return a.attr if isinstance(a, ast.Attribute) else None
        ok = bool(paired) and attr is not None and any(
            removed_attr(c) == attr for c in paired if c.args)
        if not ok:
            rc.violation('tempdir-unpaired | ' + cls,
                         'mkdtemp in %s.__enter__ has no matching rmtree of '
                         'the same attribute in __exit__' % cls,
                         prog.loc(f, call), key=key)
        else:
            rc.ok({'class': cls, 'attr': attr}, key=key)
        # the class is only ever constructed as a with-item
        init = prog.lookup_method(cls, '__init__')
        n_sites = 0
        for caller, c in prog.callers().get(init.qualname, []) if init else []:
            n_sites += 1
            par = prog.parent(c)
            k2 = 'construction of %s in %s' % (cls, caller.qualname)
            if not isinstance(par, ast.withitem):
                rc.violation('tempdir-owner-not-with | ' + k2,
                             '%s is constructed outside a with statement; '
                             'its temporary directory may be left behind'
                             % cls, prog.loc(caller, c), key=k2)
            else:
                rc.ok({'with': k2}, key=k2)
        if n_sites == 0:
            raise AnalysisError('no construction site of ' + cls)
    for f, call in rm:
        key = 'rmtree in ' + f.qualname
        if f.name != '__exit__':
            rc.violation('rmtree-outside-exit | ' + f.qualname,
                         'shutil.rmtree outside the temp-dir owner\'s '
                         '__exit__', prog.loc(f, call), key=key)
        else:
            rc.ok({'rmtree': f.qualname}, key=key)


def _mentions_build_name(ctx, e, func):
    for n in ast.walk(e):
        if isinstance(n, ast.Call) and isinstance(n.func, ast.Attribute) \
                and n.func.attr == 'build_name' and any(
                    isinstance(g, Func) and g.cls == ctx.R.cache
                    for g in ctx.prog.resolve_call(n, func)):
            return True
        # the getter turned into a property (inlined at load time): a read
        # of the field it returned, on a cache
        if isinstance(n, ast.Attribute) and isinstance(n.ctx, ast.Load) \
                and n.attr in _build_name_fields(ctx) and \
                ctx.R.cache in ctx.prog.type_of(n.value, func):
            return True
    return False


def _build_name_fields(ctx):
    if 'bn_fields' not in ctx.memo:
        out = {'_build_name'}
        g = ctx.prog.funcs.get(ctx.R.cache + '.build_name')
        if g is not None and any(
                isinstance(d, ast.Name) and d.id == 'property'
                for d in g.node.decorator_list):
            out.add('build_name')       # read as an attribute
        if g is not None:
            out |= {x.attr for r in ast.walk(g.node)
                    if isinstance(r, ast.Return) and r.value is not None
                    for x in ast.walk(r.value)
                    if isinstance(x, ast.Attribute) and isinstance(
                        x.value, ast.Name) and x.value.id == g.self_name}
        ctx.memo['bn_fields'] = out
    return ctx.memo['bn_fields']


def r15_4(ctx, rc):
    """Every validation check (build-name comparison, cache reader,
    argument validators and type tests) runs before any effect, wherever it
    lives - also inside effectful callees."""
    R = ctx.R
    validators = {R.cache + '.read_immutable',
                  R.builder + '._sanitize_filename',
                  R.builder + '._sanitize_versions'}
    for q in validators:
        ctx.E.func(q)
    total = 0
    for F in entry_points(ctx):
        sg = ctx.E.super(F)
        effects = [n.id for n in sg.nodes if _is_effect_begin(ctx, n)]
        seen = sg.reach(effects)
        for n in sg.nodes:
            what = None
            if n.kind == 'out' and n.cn.kind == 'cond':
                a = ctx.H.subst(n.cn.atom, n.func, n.cn)
                if _mentions_build_name(ctx, a, n.func):
                    what = 'build-name comparison'
                elif n.frame.parent is None or \
                        n.frame.func in R.public_static_methods:
                    if isinstance(a, ast.Call) and isinstance(
                            a.func, ast.Name) and a.func.id in (
                                'isinstance', 'callable'):
                        what = 'argument type test %s' % ast.unparse(a)[:40]
            elif n.kind in ('leaf', 'enter') and \
                    callee_name(n) in validators:
                what = 'call of ' + callee_name(n)
            if what is None:
                continue
            total += 1
            key = '%s | %s in %s' % (F.qualname, what, n.func.qualname)
            if n.id in seen:
                rc.violation(
                    'validation-after-effect | ' + key,
                    '%s performs the %s (at %s) after a mutating effect has '
                    'begun: a refused call is no longer free of side '
                    'effects' % (F.qualname, what, n.where()), n.where(),
                    sg.describe_path(sg.witness(seen, n.id)), key=key)
            else:
                rc.ok({'entry': F.qualname, 'check': what}, key=key)
    if total < 8:
        raise AnalysisError('only %d validation checks found' % total)


def r15_5(ctx, rc):
    """No effect can begin unless the build name was compared, except when
    the name is unknown (None) or there is no cache file."""
    R = ctx.R
    for F in entry_points(ctx):
        sg = ctx.E.super(F)
        cmp_nodes = [n for n in sg.nodes if n.kind == 'out' and
                     n.cn.kind == 'cond' and _mentions_build_name(
                         ctx, ctx.H.subst(n.cn.atom, n.func, n.cn), n.func)]
        if not cmp_nodes:
            raise AnalysisError('no build-name comparison reachable from '
                                + F.qualname)
        cmp_ids = {n.id for n in cmp_nodes}
        # the parameter compared with the stored name
        names = set()
        for n in cmp_nodes:
            for x in ast.walk(n.cn.atom):
                if isinstance(x, ast.Name) and x.id in n.func.params:
                    names.add((n.func.qualname, x.id))

        def allowed_skip(lab):
            if not (isinstance(lab, tuple) and len(lab) == 4):
                return False
            pol, a, func, cn = lab
            if isinstance(a, ast.Compare) and len(a.ops) == 1 and \
                    isinstance(a.comparators[0], ast.Constant) and \
                    a.comparators[0].value is None and \
                    isinstance(a.left, ast.Name) and \
                    (func.qualname, a.left.id) in names:
                return (isinstance(a.ops[0], ast.Is) and pol == 'T') or (
                    isinstance(a.ops[0], ast.IsNot) and pol == 'F')
            if isinstance(a, ast.Call) and pol == 'F' and a.args and any(
                    g in ('os.path.isfile', 'os.path.exists')
                    for g in ctx.prog.resolve_call(a, func)
                    if isinstance(g, str)):
                # "there is no cache file": the tested path is the
                # normalised cache file name
                norm = R.builder + '._sanitize_filename'
                org = ctx.H.origins(a.args[0], func, cn,
                                    stop=lambda n: n == norm)
                return bool(org) and all(
                    o[0] == 'call' and o[1] == norm for o in org)
            return False
        seen = sg.reach([sg.entry], avoid=lambda x: x.id in cmp_ids,
                        edge_ok=lambda a, b, lab: not allowed_skip(lab))
        effs = [n for n in sg.nodes if n.id in seen and
                _is_effect_begin(ctx, n)]
        key = '%s: effects only after the build name was compared' % \
            F.qualname
        if effs:
            rc.violation(
                'name-check-skippable | ' + F.qualname,
                '%s can begin a mutating effect (%s) on a path that neither '
                'compared the build name with the one stored in the cache '
                'file nor established that the name is None or that there '
                'is no cache file' % (F.qualname, callee_name(effs[0])),
                effs[0].where(), sg.describe_path(
                    sg.witness(seen, effs[0].id)), key=key)
        else:
            rc.ok({'entry': F.qualname, 'comparisons': len(cmp_nodes)},
                  key=key)


def r15_6(ctx, rc):
    """The cache reader can return normally only after it established that
    the file decodes with the writer's codec, is a dict carrying this
    software's tag, and has the current format version."""
    from .c16 import r16_3
    r16_3(ctx, rc)          # includes the sibling-construction agreement
    C = ctx.R.cache
    Rd = ctx.E.func(C + '.read_immutable')
    sg = ctx.helpers_graph(Rd, stop=(C + opt('._operations_from_json'),
                                    C + opt('._operation_from_json')))

    def mentions(e, text):
        return text in ast.unparse(e)

    def fact(lab, pred):
        return isinstance(lab, tuple) and len(lab) == 4 and pred(lab)
    checks = [
        ('the parsed value is a dict',
         lambda lab: lab[0] == 'T' and isinstance(lab[1], ast.Call) and
         isinstance(lab[1].func, ast.Name) and
         lab[1].func.id == 'isinstance' and mentions(lab[1], 'dict')),
        ('the software tag equals this package\'s',
         lambda lab: isinstance(lab[1], ast.Compare) and
         mentions(lab[1], "'software'") and mentions(lab[1], '_SOFTWARE')
         and ((isinstance(lab[1].ops[0], ast.NotEq) and lab[0] == 'F') or
              (isinstance(lab[1].ops[0], ast.Eq) and lab[0] == 'T'))),
        ('the format version equals the current one',
         lambda lab: lab[0] == 'T' and isinstance(lab[1], ast.Call) and
         mentions(lab[1], 'cacheFileVersion') and
         mentions(lab[1], '_CACHE_FILE_VERSION')),
    ]
    ends = set(sg.normal_exits())
    for what, pred in checks:
        seen = sg.reach([sg.entry], edge_ok=lambda a, b, lab, pred=pred:
                        not fact(lab, pred))
        hit = [e for e in ends if e in seen]
        key = 'reader accepts only if ' + what
        if hit:
            rc.violation(
                'reader-accepts | ' + what,
                'the cache reader can accept a file without having '
                'established that %s (a foreign or damaged file is then '
                'used, overwritten or cleaned from)' % what, Rd.file,
                sg.describe_path(sg.witness(seen, hit[0])), key=key)
        else:
            rc.ok({'reader_requires': what}, key=key)
    # the members of the cache file are read by subscript: a file that lacks
    # one is refused (KeyError), it is not given a default - ``.get`` would
    # turn a missing version into None, which may well be the current one
    n = 0
    for f0 in {x.func for x in sg.nodes if x.func is not None}:
        for call in ctx.prog.calls_in(f0):
            f = call.func
            if isinstance(f, ast.Attribute) and f.attr in (
                    'get', 'setdefault', 'pop') and call.args and \
                    isinstance(call.args[0], ast.Constant) and isinstance(
                        call.args[0].value, str) and \
                    call.args[0].value in _top_keys(ctx):
                # harmless when the default can never be the value that is
                # asked for: ``j.get('software') != 'file_builder'``
                par = ctx.prog.parent(call)
                other = None
                if isinstance(par, ast.Compare) and len(par.ops) == 1:
                    other = par.comparators[0] if par.left is call else \
                        par.left
                elif isinstance(par, ast.Call) and len(par.args) == 2 and \
                        call in par.args:
                    other = par.args[1] if par.args[0] is call else \
                        par.args[0]
                cv = ctx.prog.const_value(other, f0) if other is not None \
                    else None
                dflt = call.args[1] if len(call.args) > 1 else None
                if f.attr == 'get' and cv is not None and \
                        cv.value is not None and (
                            dflt is None or (isinstance(dflt, ast.Constant)
                                             and dflt.value != cv.value)):
                    continue
                n += 1
                rc.violation(
                    'reader-default | %s | %s' % (f0.qualname,
                                                  call.args[0].value),
                    '%s reads the cache file\'s member %r with .%s(): a file '
                    'without that member is accepted with a default instead '
                    'of being refused' % (f0.qualname, call.args[0].value,
                                          f.attr),
                    ctx.prog.loc(f0, call),
                    key='member %s read by subscript' % call.args[0].value)
    if n == 0:
        rc.ok({'members_read_by': 'subscript'},
              key='cache-file members are read by subscript')


def _top_keys(ctx):
    """Top-level keys the writer emits (string keys of the dict display it
    dumps)."""
    if 'top_keys' in ctx.memo:
        return ctx.memo['top_keys']
    W = ctx.E.func(ctx.R.cache + '.write')
    keys = set()
    for n in ast.walk(W.node):
        if isinstance(n, ast.Dict):
            ks = {k.value for k in n.keys if isinstance(k, ast.Constant)
                  and isinstance(k.value, str)}
            if len(ks) > len(keys):
                keys = ks
    if len(keys) < 4:
        # the writer builds the object another way: the keys the reader
        # subscripts the parsed object with
        Rd = ctx.E.func(ctx.R.cache + '.read_immutable')
        keys = {n.slice.value for n in ast.walk(Rd.node)
                if isinstance(n, ast.Subscript) and isinstance(
                    n.slice, ast.Constant) and isinstance(
                    n.slice.value, str)}
    if len(keys) < 4:
        raise AnalysisError('top-level keys of the cache file not found')
    ctx.memo['top_keys'] = keys
    return keys


def _always_raises(stmts):
    if not stmts:
        return False
    last = stmts[-1]
    if isinstance(last, ast.Raise):
        return True
    if isinstance(last, ast.If):
        return bool(last.orelse) and _always_raises(last.body) and \
            _always_raises(last.orelse)
    return False


def r15_7(ctx, rc):
    """A refusal of the cache reader is never swallowed: no handler around a
    call of the reader (or of a helper that calls it) lets the entry point
    carry on - except for exactly FileNotFoundError, which is the "no cache
    file" case the entry points handle anyway."""
    R = ctx.R
    prog = ctx.prog
    reader = R.cache + '.read_immutable'
    ctx.E.func(reader)
    todo = [reader]
    seen = set()
    n = 0
    while todo:
        q = todo.pop()
        if q in seen:
            continue
        seen.add(q)
        for caller, call in prog.callers().get(q, []):
            if caller.cls != R.builder:
                continue
            n += 1
            key = 'call of %s in %s' % (q, caller.qualname)
            bad = None
            node = call
            while node is not None and node is not caller.node:
                par = prog.parent(node)
                if isinstance(par, ast.Try) and any(
                        node is b or any(node is x for x in ast.walk(b))
                        for b in par.body):
                    for h in par.handlers:
                        names = []
                        if h.type is None:
                            names = ['BaseException']
                        else:
                            ts = h.type.elts if isinstance(
                                h.type, ast.Tuple) else [h.type]
                            names = [ast.unparse(t).split('.')[-1]
                                     for t in ts]
                        if _always_raises(h.body):
                            continue
                        if names == ['FileNotFoundError']:
                            continue
                        bad = (h, names)
                node = par
            if bad:
                rc.violation(
                    'reader-refusal-swallowed | ' + caller.qualname,
                    'a handler for %s around the call of %s does not '
                    're-raise: a cache path that is a directory, unreadable '
                    'or not a cache file is treated like a first build, and '
                    'the whole build runs before the path is rejected' % (
                        '/'.join(bad[1]), q), prog.loc(caller, bad[0]),
                    key=key)
            else:
                rc.ok({'site': key}, key=key)
            if not caller.is_public:
                todo.append(caller.qualname)
    if n < 2:
        raise AnalysisError('only %d call sites of the cache reader' % n)


def r15_8(ctx, rc):
    """An argument type test is not bypassed: in a function that refuses
    ``not isinstance(P, T)`` with TypeError, every normal exit lies behind
    the edge on which the test succeeded (a fast path placed before the test
    lets wrongly typed arguments through, and the call is carried out
    instead of refused)."""
    R = ctx.R
    prog = ctx.prog
    from .. import queries as Q
    n = 0
    for f in prog.funcs.values():
        if f.cls != R.builder:
            continue
        tests = []
        for st in ast.walk(f.node):
            if not isinstance(st, ast.If) or not st.body or not isinstance(
                    st.body[-1], ast.Raise):
                continue
            for t in ast.walk(st.test):
                if isinstance(t, ast.Call) and isinstance(
                        t.func, ast.Name) and t.func.id == 'isinstance' and \
                        len(t.args) == 2 and isinstance(
                            t.args[0], ast.Name) and \
                        t.args[0].id in f.params:
                    tests.append((st, t))
        if not tests:
            continue
        sg = ctx.E.super(f, lambda g: False)
        ends = set(sg.normal_exits())
        for st, t in tests:
            # only tests that sit at the top level of the function body:
            # validation of the argument as such
            if st not in f.node.body:
                continue
            n += 1
            # the guard is evaluated on every path to a normal exit (its
            # condition may allow more than the isinstance, e.g. None)
            atoms = {id(x) for x in ast.walk(st.test)}
            seen = sg.reach(
                [sg.entry],
                avoid=lambda x: x.frame.parent is None and
                x.cn is not None and x.cn.kind == 'cond' and
                (id(x.cn.atom) in atoms or id(x.cn.ast) in atoms))
            hit = [e for e in ends if e in seen]
            key = 'type test of %s in %s' % (t.args[0].id, f.qualname)
            if hit:
                rc.violation(
                    'type-test-bypassed | %s | %s' % (f.qualname,
                                                      t.args[0].id),
                    '%s can return normally without %s having succeeded: a '
                    'wrongly typed argument is accepted and the call is '
                    'carried out instead of refused' % (
                        f.qualname, ast.unparse(t)), prog.loc(f, st),
                    sg.describe_path(sg.witness(seen, hit[0])), key=key)
            else:
                rc.ok({'validator': f.qualname, 'test': ast.unparse(t)},
                      key=key)
    if n < 5:
        raise AnalysisError('only %d argument type tests found' % n)


def r15_9(ctx, rc):
    """Every call decides on what the files say now: no memoised function
    reads ambient state (the memo census of R7.1) - a cache file validated
    once would be accepted after it was damaged."""
    from .c07 import memoised_ambient_census
    memoised_ambient_census(ctx, rc)
    # a versions / argument value that is not JSON is refused by the
    # sanitiser: it is total and rejects with TypeError (R18.2)
    from .c18 import r18_2
    r18_2(ctx, rc)


RULES = [
    ('R15.1', 'no mutating effect can precede a refusal point', r15_1),
    ('R15.2', 'refusal callees are read-only', r15_2),
    ('R15.3', 'temporary directory acquisition is paired', r15_3),
    ('R15.4', 'every validation check precedes every effect', r15_4),
    ('R15.5', 'no effect unless the build name was compared', r15_5),
    ('R15.6', 'the reader accepts only files it can vouch for', r15_6),
    ('R15.7', 'a refusal of the cache reader is never swallowed', r15_7),
    ('R15.8', 'argument type tests are not bypassed', r15_8),
    ('R15.9', 'no refusal decision is served from a memo', r15_9),
]
