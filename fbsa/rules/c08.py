"""C08 - at most one execution per output file and per subbuild key."""
import ast

from ..model import Func, AnalysisError
from ..supergraph import callee_name
from .. import queries as Q
from . import locks as L
from .guards import guards

from . import perform_names
EXPLANATION = (
    'R8.1: static lockset on the claim maps of Cache. R8.2: every store that '
    'claims a key is dominated, inside the same critical section, by the '
    'raise-if-present test of that map (check-and-claim is atomic); reuse of '
    'a cached subtree tests and registers the whole subtree in one section '
    'holding both locks. R8.3: in _build_file/_subbuild the atomic claim '
    'precedes the user callback on every path, a served-from-cache return is '
    'preceded by use_cached_operation, and after a claim every path to either '
    'exit passes finish_*. R8.4/R8.5: the replay refuses keys already taken '
    'and records whose setup failed; setup failures are never registered; '
    'a failure that arrives before the record was marked raised marks it '
    'raised and setup_failed. R8.6: between the unlocked early duplicate test '
    'and the atomic claim no destructive step is applied to the key\'s own '
    'path. Decides atomicity and ordering of claim/execute/register for all '
    'schedules via lock discipline; does not enumerate interleavings.'
    ' R8.2b: the whole-subtree repeat test and registration visit every complex suboperation (path enumeration over the two recursive walkers). R8.3d: finish_* only after a claim that succeeded.')
# round 3/4 additions
EXPLANATION += (
    ' R8.7: a reused record registers everything nested in it (R1.5 incl. copy-before-register).')

CLAIM_MAPS = {'_files': 'files', '_norm_cased_files': 'files',
              '_subbuilds': 'subbuilds'}
CLAIMERS = ('start_building_file', 'start_subbuild', 'use_cached_operation')


def r8_1(ctx, rc):
    L.check_table(ctx)
    L.lockset_rule(ctx, rc, [ctx.R.cache], rule_key='claim-map lockset')


def _check_functions(ctx):
    """Cache methods that raise when a key is present: qualname -> groups."""
    if 'check_functions' in ctx.memo:
        return ctx.memo['check_functions']
    prog = ctx.prog
    C = ctx.R.cache
    direct = {}
    for m in prog.classes[C].methods.values():
        groups = set()
        mentions = any(
            isinstance(c, ast.Compare) and len(c.ops) == 1 and isinstance(
                c.ops[0], (ast.In, ast.NotIn)) and isinstance(
                    c.comparators[0], ast.Attribute) and
            c.comparators[0].attr in CLAIM_MAPS for c in ast.walk(m.node))
        if not mentions or not any(isinstance(x, ast.Raise)
                                   for x in ast.walk(m.node)):
            continue
        # on the function's own flow graph: once the key was found in the
        # map, every path ends in a raise (whatever the shape: ``if k in m:
        # raise`` or ``if k not in m: return`` followed by the raise)
        sg = ctx.E.super(m, lambda g: False)
        for x in sg.nodes:
            for d, lab in x.succ:
                if not (isinstance(lab, tuple) and len(lab) == 4 and
                        lab[0] in ('T', 'F')):
                    continue
                a = lab[1]
                if not (isinstance(a, ast.Compare) and len(a.ops) == 1 and
                        isinstance(a.ops[0], (ast.In, ast.NotIn)) and
                        isinstance(a.comparators[0], ast.Attribute) and
                        a.comparators[0].attr in CLAIM_MAPS):
                    continue
                present = (lab[0] == 'T') == isinstance(a.ops[0], ast.In)
                if not present:
                    continue
                seen = sg.reach([d])
                if not (set(sg.normal_exits()) & set(seen)) and any(
                        sg.nodes[k].kind == 'raise_exit' for k in seen):
                    groups.add(CLAIM_MAPS[a.comparators[0].attr])
        if groups:
            direct[m.qualname] = groups
    allc = dict(direct)
    changed = True
    while changed:
        changed = False
        for m in prog.classes[C].methods.values():
            for call in prog.calls_in(m):
                for g in prog.resolve_call(call, m):
                    if isinstance(g, Func) and g.qualname in allc and \
                            g.qualname != m.qualname and m.name.startswith('_'):
                        s = allc.setdefault(m.qualname, set())
                        if not allc[g.qualname] <= s:
                            s |= allc[g.qualname]
                            changed = True
    ctx.memo['check_functions'] = allc
    return allc


def _claim_store(sn):
    """The node completes a subscript store into a claim map: group name."""
    if sn.kind != 'out' or sn.cn.kind != 'stmt':
        return None
    st = sn.cn.ast
    if isinstance(st, ast.Assign):
        for t in st.targets:
            if isinstance(t, ast.Subscript) and \
                    isinstance(t.value, ast.Attribute) and \
                    t.value.attr in CLAIM_MAPS:
                return CLAIM_MAPS[t.value.attr]
    return None


def r8_2(ctx, rc):
    prog = ctx.prog
    C = ctx.R.cache
    checks = _check_functions(ctx)
    for nm, grp in (('_assert_doesnt_have_norm_cased_file', 'files'),
                    ('_assert_doesnt_have_subbuild', 'subbuilds')):
        q = C + '.' + nm
        ctx.E.func(q)
        key = '%s is a membership test of the %s map' % (nm, grp)
        if grp in checks.get(q, set()):
            rc.ok({'test': key}, key=key)
        else:
            rc.violation(
                'presence-test | ' + q,
                '%s does not raise on `key in <map>`: an entry that is '
                'claimed but unfinished (value None) must count as taken, '
                'otherwise a duplicate issued while the first call is still '
                'running is accepted' % nm, ctx.prog.loc(
                    ctx.prog.funcs[q], ctx.prog.funcs[q].node), key=key)
    if len(checks) < 2:
        return
    n = 0
    for name in CLAIMERS:
        M = ctx.E.func(C + '.' + name)

        def inline(g):
            return g.cls == C and g.name.startswith('_') and \
                g.qualname not in checks
        sg = ctx.E.super(M, inline)
        stores = [s for s in sg.nodes if _claim_store(s)]
        if not stores:
            raise AnalysisError('no claim store reachable from ' + M.qualname)
        for s in stores:
            n += 1
            grp = _claim_store(s)
            need = {('Cache', '_files_lock')} if grp == 'files' else \
                {('Cache', '_subbuilds_lock')}
            need = {(C, x[1]) for x in need}
            # the root-frame with region that encloses the store
            items = [it for it, f in sg.with_items(s) if f == M]
            region = [it for it in items
                      if ctx.H.lock_of_item(it, M) in need]
            key = 'claim of %s map in %s (store in %s)' % (
                grp, M.qualname, s.func.qualname)
            if not region:
                rc.violation('claim-unlocked | ' + key,
                             'a key is claimed without holding the map lock',
                             s.where(), key=key)
                continue
            region_ids = {id(it) for it in items}

            def guard(x, grp=grp, region_ids=region_ids):
                if x.kind != 'ret' or callee_name(x) not in checks:
                    return False
                if grp not in checks[callee_name(x)]:
                    return False
                inside = {id(it) for it, f in sg.with_items(x) if f == M}
                return region_ids <= inside
            w = Q.first_unguarded(sg, [sg.entry], guard,
                                  lambda x, s=s: x.id == s.id)
            if w is not None:
                rc.violation(
                    'check-claim-split | ' + key,
                    'the claim store is not dominated, within its own '
                    'critical section, by the raise-if-present test of the '
                    '%s map (check and claim are not atomic)' % grp,
                    s.where(), sg.describe_path(w), key=key)
            else:
                rc.ok({'claim': key, 'lock': sorted(need)[0][1]}, key=key)
    # use_cached_operation holds both locks over test + registration
    M = ctx.E.func(C + '.use_cached_operation')
    cfg = ctx.E.cfgs.get(M)
    for cn in cfg.nodes:
        for e in cn.exprs:
            for call in ast.walk(e):
                if isinstance(call, ast.Call):
                    for g in prog.resolve_call(call, M):
                        if isinstance(g, Func) and g.cls == C and \
                                g.name.startswith('_'):
                            held = set(ctx.H.syntactic_locks(cn, M))
                            need = {(C, '_files_lock'),
                                    (C, '_subbuilds_lock')}
                            key = 'both locks over %s in %s' % (
                                g.name, M.qualname)
                            if not need <= held:
                                rc.violation(
                                    'subtree-reuse-lock | ' + key,
                                    'reusing a cached subtree tests/'
                                    'registers file and subbuild keys '
                                    'without holding both locks',
                                    prog.loc(M, call), key=key)
                            else:
                                rc.ok({'region': key}, key=key)


def r8_2b(ctx, rc):
    """The whole-subtree repeat test and registration visit every complex
    suboperation of a reused record."""
    from .apply_rules import subtree_walk_rule
    C = ctx.R.cache
    prog = ctx.prog
    for name in ('_assert_no_repeats', '_use_cached_operation'):
        F = ctx.E.func(C + '.' + name)
        # the walk itself may live in a traversal helper (a generator that
        # yields the records of the tree) that F loops over
        W = F
        if not any(isinstance(n, ast.For) and isinstance(
                n.iter, ast.Attribute) and n.iter.attr == 'suboperations'
                for n in ast.walk(F.node)):
            for n in ast.walk(F.node):
                if isinstance(n, ast.For) and isinstance(n.iter, ast.Call):
                    for g in prog.resolve_call(n.iter, F):
                        if isinstance(g, Func) and g.cls == F.cls and \
                                not g.is_public and any(
                                    isinstance(y, (ast.Yield, ast.YieldFrom))
                                    for y in ast.walk(g.node)):
                            W = g
        subtree_walk_rule(
            ctx, rc, W, lambda x, W=W: Q.is_call(x, W.qualname),
            'recursing into it', 'subtree-walk')


def _builder_graph(ctx, fname):
    R = ctx.R
    F = R.builder_f(fname)
    G = guards(ctx)
    stop = G.opaque

    wrappers = ctx.backup_wrappers()

    def inline(g):
        return g in wrappers or (
            g.cls == R.builder and not g.is_public and g not in stop)
    return F, ctx.E.super(F, inline)


def _is_user(sn):
    return sn.kind == 'leaf' and sn.callee == 'USER'


def failed_record_is_marked(ctx, rc):
    """After the atomic claim, every path on which the call fails (leaves by
    an exception) has stored ``raised = True`` into the record: it is what
    the reuse deciders refuse later; a failed call recorded as a success is
    served from the cache (returning None) instead of failing again."""
    from .c10 import _store_true
    C = ctx.R.cache
    for fname, claim in (('_build_file', 'start_building_file'),
                         ('_subbuild', 'start_subbuild')):
        F, sg = _builder_graph(ctx, fname)
        starts = [n.id for n in sg.nodes if Q.is_done(n, C + '.' + claim)]
        key = '%s: a failure after the claim marks the record raised' % \
            F.qualname
        if not starts:
            rc.violation('claim-missing | %s | %s' % (F.qualname, claim),
                         '%s never performs the atomic claim %s' % (
                             F.qualname, claim), F.file, key=key)
            continue
        w = Q.first_unguarded(
            sg, starts, _store_true('raised'),
            lambda x: x.kind == 'raise_exit' and x.frame.parent is None)
        if w:
            rc.violation(
                'failure-unmarked | ' + F.qualname,
                'when the function run by %s fails, a path leaves with the '
                'exception without having stored raised = True into the '
                'record: the next build serves the failed call from the '
                'cache as if it had returned None' % F.qualname,
                sg.nodes[w[0]].where(), sg.describe_path(w), key=key)
        else:
            rc.ok({'procedure': F.qualname, 'marks': 'raised'}, key=key)


def r8_3(ctx, rc):
    C = ctx.R.cache
    for fname, claim, finish in (
            ('_build_file', 'start_building_file', 'finish_building_file'),
            ('_subbuild', 'start_subbuild', 'finish_subbuild')):
        F, sg = _builder_graph(ctx, fname)
        users = [n.id for n in sg.nodes if _is_user(n)]
        if not users:
            raise AnalysisError('no user callback reachable in ' + F.qualname)
        claimq = C + '.' + claim
        finq = C + '.' + finish
        useq = C + '.use_cached_operation'
        # (a) claim precedes the user callback
        w = Q.first_unguarded(sg, [sg.entry],
                              lambda x: Q.is_done(x, claimq), _is_user)
        key = '%s: %s before USER' % (F.qualname, claim)
        if w:
            rc.violation('run-unclaimed | ' + key,
                         'the user function can run without the atomic '
                         'claim %s having succeeded' % claim,
                         sg.nodes[w[-1]].where(), sg.describe_path(w),
                         key=key)
        else:
            rc.ok({'order': key}, key=key)
        # (b) a return without running the function registered the reuse
        w = Q.first_unguarded(
            sg, [sg.entry],
            lambda x: _is_user(x) or Q.is_done(x, useq),
            lambda x: x.id in sg.normal_exits())
        key = '%s: use_cached_operation before a served-from-cache return' \
            % F.qualname
        if w:
            rc.violation('reuse-unregistered | ' + key,
                         'the call can return without running the function '
                         'and without registering the reused record',
                         F.file, sg.describe_path(w), key=key)
        else:
            rc.ok({'order': key}, key=key)
        # (d) finish_* only for a claim that succeeded: a rejected duplicate
        # must not overwrite the owner's entry
        w = Q.first_unguarded(sg, [sg.entry],
                              lambda x: Q.is_done(x, claimq),
                              lambda x: Q.is_call(x, finq))
        key = '%s: %s only after a successful %s' % (F.qualname, finish,
                                                     claim)
        if w:
            rc.violation('finish-unclaimed | ' + key,
                         '%s can run although the atomic claim %s did not '
                         'succeed (a rejected duplicate overwrites the '
                         'record of the call that owns the key)' % (
                             finish, claim), sg.nodes[w[-1]].where(),
                         sg.describe_path(w), key=key)
        else:
            rc.ok({'order': key}, key=key)
        # (c) after a claim, every path to either exit passes finish_*
        starts = [n.id for n in sg.nodes if Q.is_done(n, claimq)]
        if not starts:
            rc.violation('claim-missing | %s | %s' % (F.qualname, claim),
                         '%s never performs the atomic claim %s' % (
                             F.qualname, claim), F.file,
                         key='%s: %s exists' % (F.qualname, claim))
            continue
        w = Q.first_unguarded(
            sg, starts, lambda x: Q.is_call(x, finq),
            lambda x: x.id in sg.all_exits())
        key = '%s: %s after %s on every exit' % (F.qualname, finish, claim)
        if w:
            rc.violation('claim-unfinished | ' + key,
                         'after the claim a path reaches an exit without %s '
                         '(a None entry survives; the cache write fails)'
                         % finish, sg.nodes[w[-1]].where(),
                         sg.describe_path(w), key=key)
        else:
            rc.ok({'order': key}, key=key)


def r8_4(ctx, rc):
    guards(ctx).check(rc, columns={'KEY_FREE', 'NOT_CACHE_FILE'},
                      rule_prefix='replay-key')


def _setup_failed_false_edge(lab):
    return (isinstance(lab, tuple) and len(lab) == 4 and lab[0] == 'F' and
            isinstance(lab[1], ast.Attribute) and
            lab[1].attr == 'setup_failed')


def r8_5(ctx, rc):
    prog = ctx.prog
    C = ctx.R.cache
    # (ii) deciders
    guards(ctx).check(rc, columns={'NOT_SETUP_FAILED'},
                      rule_prefix='setup-failed')
    # (i) registration is control-dependent on not setup_failed
    for fname in ('_operation_from_json', '_use_cached_operation'):
        M = ctx.E.func(C + '.' + fname)
        sg = ctx.helpers_graph(M)
        stores = []
        for s in sg.nodes:
            if s.kind == 'out' and s.cn.kind == 'stmt' and \
                    isinstance(s.cn.ast, ast.Assign):
                for t in s.cn.ast.targets:
                    if isinstance(t, ast.Subscript):
                        stores.append(s)
        if not stores:
            raise AnalysisError('no registration store in ' + M.qualname)
        for s in stores:
            key = 'registration at %s in %s' % (
                ast.unparse(s.cn.ast.targets[0])[:40], M.qualname)
            seen = sg.reach(
                [sg.entry],
                edge_ok=lambda a, b, lab: not _setup_failed_false_edge(lab))
            if s.id in seen:
                rc.violation(
                    'setup-failed-registered | ' + key,
                    'a record whose setup failed can be registered (and '
                    'then reused or counted as a duplicate)', s.where(),
                    sg.describe_path(sg.witness(seen, s.id)), key=key)
            else:
                rc.ok({'guarded': key}, key=key)
    M = ctx.E.func(C + '._assert_no_repeats')
    sg = ctx.E.super(M, lambda g: False)
    chk = _check_functions(ctx)
    sites = [n for n in sg.nodes if n.kind == 'leaf' and
             callee_name(n) in chk and callee_name(n) != M.qualname]
    if not sites:
        raise AnalysisError('no duplicate test in ' + M.qualname)
    for s in sites:
        key = 'duplicate test %s in %s' % (callee_name(s), M.qualname)
        seen = sg.reach(
            [sg.entry],
            edge_ok=lambda a, b, lab: not _setup_failed_false_edge(lab))
        if s.id in seen:
            rc.violation('setup-failed-counted | ' + key,
                         'a setup-failed record is counted as a duplicate',
                         s.where(), key=key)
        else:
            rc.ok({'guarded': key}, key=key)
    # (iii) handler shape in the API methods
    R = ctx.R
    appender = R.builder + '._append_suboperation'
    for F in R.public_instance_methods:
        made = [c for c in prog.calls_in(F)
                for g in prog.resolve_call(c, F)
                if isinstance(g, Func) and g.is_ctor_call and
                g.cls_for_ctor in R.record_classes and
                'setup_failed' in R.record_fields[g.cls_for_ctor]]
        if not made:
            continue
        sg = ctx.helpers_graph(F, stop=perform_names(ctx))
        performs = [n for n in sg.nodes if n.kind == 'leaf' and
                    isinstance(n.callee, Func) and
                    n.callee.cls == R.builder and not n.callee.is_public and
                    ctx.E.eff.has_effect(n.callee)]
        if not performs:
            raise AnalysisError('no perform call in ' + F.qualname)
        for p in performs:
            excs = [d for d, l in p.succ
                    if isinstance(l, tuple) and l[0] == 'exc']

            def store_of(attr):
                def pred(x):
                    if x.kind != 'out' or x.cn.kind != 'stmt' or \
                            not isinstance(x.cn.ast, ast.Assign):
                        return False
                    st = x.cn.ast
                    return any(isinstance(t, ast.Attribute) and
                               t.attr == attr for t in st.targets) and \
                        isinstance(st.value, ast.Constant) and \
                        st.value.value is True
                return pred

            def already_raised(a, b, lab):
                return not (isinstance(lab, tuple) and len(lab) == 4 and
                            lab[0] == 'T' and
                            isinstance(lab[1], ast.Attribute) and
                            lab[1].attr == 'raised')
            for attr in ('raised', 'setup_failed'):
                seen = sg.reach(excs, avoid=store_of(attr),
                                edge_ok=already_raised)
                hit = [e for e in sg.raise_exits.values() if e in seen]
                key = '%s: failure of %s marks .%s' % (
                    F.qualname, callee_name(p), attr)
                if hit:
                    rc.violation(
                        'setup-failure-unmarked | ' + key,
                        'an exception that arrives before the record was '
                        'marked raised can leave %s without marking the '
                        'record .%s (a caught rejection would later be '
                        'served from the cache)' % (F.qualname, attr),
                        p.where(), sg.describe_path(
                            sg.witness(seen, hit[0])), key=key)
                else:
                    rc.ok({'handler': key}, key=key)


def r8_6(ctx, rc):
    """Claim precedes destruction of the key's own path."""
    R = ctx.R
    F, sg = _builder_graph(ctx, '_build_file')
    claimq = R.cache + '.start_building_file'
    own = ('_operation', 'filename')

    def own_path(sn):
        if sn.call is None or not sn.call.args:
            return False
        a = ctx.H.subst_frames(sn.call.args[0], sn)
        return isinstance(a, ast.Attribute) and a.attr == 'filename' and \
            isinstance(a.value, ast.Attribute) and \
            a.value.attr == '_operation'

    # steps that move or remove a *regular file* at the target path.  The
    # make-room step is not one of them: it only acts when the target is a
    # real directory, which can never be the first call's output.
    destroyers = ('FileBackups.back_up_and_remove',
                  R.builder + '._try_to_remove_file')

    def destroys(sn):
        return sn.kind in ('leaf', 'enter') and \
            callee_name(sn) in destroyers and own_path(sn)
    seen = sg.reach([sg.entry], avoid=lambda x: Q.is_done(x, claimq))
    found = [n for n in sg.nodes if n.id in seen and destroys(n)]
    total = [n for n in sg.nodes if destroys(n)]
    if not total:
        raise AnalysisError('no destructive step on the target found in '
                            + F.qualname)
    done = set()
    for n in total:
        cal = callee_name(n)
        key = '%s | destroy=%s(target) | claim=%s' % (
            F.qualname, cal, claimq)
        if key in done:
            continue
        done.add(key)
        if n in found:
            rc.violation(
                'R8.6-order | ' + key,
                '%s is applied to the key\'s own path before the atomic '
                'claim %s; a duplicate call from another thread that is '
                'about to be rejected can move the first call\'s output '
                'aside' % (cal, claimq), n.where(),
                sg.describe_path(sg.witness(seen, n.id)), key=key)
        else:
            rc.ok({'order': key}, key=key)


def r8_7(ctx, rc):
    """A reused record registers everything nested in it (R1.5: copy of
    the suboperations before the registration, apply before register)."""
    from .c01 import r1_5
    r1_5(ctx, rc)


def r8_8(ctx, rc):
    """The duplicate key is recomputed from the record wherever it is
    needed again, so the record's arguments must stay what was claimed: one
    canonical key function (R7.3), the callee works on copies (R7.5), no
    record-owned value escapes (R11.1)."""
    from .c07 import r7_3, r7_5, r7_1
    from .c11 import r11_1
    r7_3(ctx, rc)
    r7_5(ctx, rc)
    r11_1(ctx, rc)
    # two spellings of one path are one key (R7.1), and the early duplicate
    # test stands before anything is prepared or moved aside (R10.1)
    r7_1(ctx, rc)
    from .c10 import r10_1
    r10_1(ctx, rc)


RULES = [
    ('R8.1', 'lockset on the claim maps', r8_1),
    ('R8.2', 'check-and-claim is one critical section', r8_2),
    ('R8.2b', 'subtree repeat test and registration visit every record',
     r8_2b),
    ('R8.3', 'claim precedes run, reuse registers, claim is finished', r8_3),
    ('R8.4', 'replay refuses keys already taken', r8_4),
    ('R8.5', 'setup failures are never registered or reused', r8_5),
    ('R8.6', 'claim precedes destruction of the own path', r8_6),
    ('R8.7', 'a reused record registers everything nested in it', r8_7),
    ('R8.8', 'the key is canonical and its inputs stay as claimed (R7.3, '
     'R7.5, R11.1)', r8_8),
]
