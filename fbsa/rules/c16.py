"""C16 - cache persistence is faithful (writer/reader agreement)."""
import ast

from ..model import Func, AnalysisError
from .. import queries as Q
from .c11 import _param_field
from . import opt

EXPLANATION = (
    'R16.1: for every record class the composition attribute -> JSON key '
    '(writer) -> constructor parameter (reader) -> attribute is the identity '
    'on every attribute except is_finished; keys emitted under a guard are '
    'read with a default equal to the omitted value; type literals written '
    'equal the literals dispatched on. R16.2: the same for the top-level '
    'keys of the cache file through the Cache constructor. R16.3: inverse '
    'codec pairs (gzip wt/rt, json.dumps/json.load without default/'
    'skipkeys/allow_nan=False, Enum.name/Enum[...], list/set). R16.4: the '
    'file is replaced after the root function returned, inside the rollback '
    'scope, after the old file was moved aside, and a failed write is '
    'compensated (C02 rules). R16.5: write() serialises every registered '
    'operation that is not nested in another one. Decides field-by-field '
    'agreement of the two hand-written codecs; value-level fidelity of json/'
    'gzip is library semantics (not decided).'
    " R16.6: the serialiser visits every suboperation and write()'s non-root set is built unconditionally from every operation.")
# round 3/4 additions
EXPLANATION += (
    " R16.1: a key emitted under a truthiness guard is admissible only for a bool flag. R16.3 includes the sibling agreement of the cache's construction sites (a set is never replaced by raw decoded JSON). R16.4 includes R2.6b.")

NOT_PERSISTED = {'is_finished': 'always True when read back'}


def _key_reads(expr):
    """(key, default-or-marker, how) for json['k'] / json.get('k', d)
    occurrences in expr."""
    out = []
    for n in ast.walk(expr):
        if isinstance(n, ast.Subscript) and isinstance(n.slice, ast.Constant) \
                and isinstance(n.slice.value, str) and \
                isinstance(n.value, ast.Name):
            out.append((n.slice.value, 'REQUIRED', n))
        elif (isinstance(n, ast.Call) and isinstance(n.func, ast.Attribute)
              and n.func.attr == 'get' and n.args and
              isinstance(n.args[0], ast.Constant) and
              isinstance(n.func.value, ast.Name)):
            d = n.args[1] if len(n.args) > 1 else ast.Constant(value=None)
            out.append((n.args[0].value, d, n))
        elif (isinstance(n, ast.Call) and 2 <= len(n.args) <= 3 and
              isinstance(n.args[0], ast.Name) and
              isinstance(n.args[1], ast.Constant) and
              isinstance(n.args[1].value, str) and not (
                  isinstance(n.func, ast.Attribute) and
                  n.func.attr in ('get', 'format', 'join'))):
            # a small accessor helper: helper(json, 'key'[, default])
            d = n.args[2] if len(n.args) > 2 else 'REQUIRED'
            out.append((n.args[1].value, d, n))
    return out


def _eval_isinstance(ctx, test, K, param):
    """True/False if the test is decided by K's class, else None."""
    if isinstance(test, ast.Call) and isinstance(test.func, ast.Name) and \
            test.func.id == 'isinstance' and len(test.args) == 2 and \
            isinstance(test.args[0], ast.Name) and test.args[0].id == param \
            and isinstance(test.args[1], ast.Name):
        return K in ctx.prog.subclasses(test.args[1].id)
    return None


def _dict_call(v):
    """[(key, value)] for dict(k=v, ...) (keywords only)."""
    if isinstance(v, ast.Call) and isinstance(v.func, ast.Name) and \
            v.func.id == 'dict' and not v.args and v.keywords and all(
                kw.arg for kw in v.keywords):
        return [(kw.arg, kw.value) for kw in v.keywords]
    return None


def _local_defs(F, wparam):
    """locals of a writer that stand for an attribute of the record:
    name -> (attr, codec)."""
    local_defs = {}
    for st in ast.walk(F.node):
        if isinstance(st, ast.Assign) and len(st.targets) == 1 and \
                isinstance(st.targets[0], ast.Name):
            v = st.value
            a, cd = _attr_of_value(v, wparam, {})
            if a:
                local_defs[st.targets[0].id] = (a, cd)
            # [ser(x) for x in <param>.attr]
            if isinstance(v, (ast.ListComp, ast.GeneratorExp)) and \
                    not v.generators[0].ifs and isinstance(
                        v.generators[0].iter, ast.Attribute) and isinstance(
                            v.generators[0].iter.value, ast.Name) and \
                    v.generators[0].iter.value.id == wparam:
                local_defs[st.targets[0].id] = (
                    v.generators[0].iter.attr, ('per-element',))
        if isinstance(st, ast.For) and isinstance(st.iter, ast.Attribute) \
                and isinstance(st.iter.value, ast.Name) and \
                st.iter.value.id == wparam:
            lv = {x.id for x in ast.walk(st.target)
                  if isinstance(x, ast.Name)}
            for c in ast.walk(st):
                if isinstance(c, ast.Call) and isinstance(
                        c.func, ast.Attribute) and c.func.attr == 'append' \
                        and isinstance(c.func.value, ast.Name):
                    local_defs[c.func.value.id] = (st.iter.attr,
                                                   ('per-element',))
                elif isinstance(c, ast.Call) and any(
                        isinstance(a, ast.Name) and a.id in lv
                        for a in c.args):
                    # accumulator passed along: helper(element, acc)
                    for a in c.args:
                        if isinstance(a, ast.Name) and a.id not in lv and \
                                a.id != wparam:
                            local_defs[a.id] = (st.iter.attr,
                                                ('per-element',))
    return local_defs


def _writes_for(ctx, K, F=None, depth=0, seen=None):
    """(key, value, guards, writer function, its record parameter, local
    defs) for every JSON key written for a record of class K, following
    the isinstance dispatch from _operation_to_json into helpers (or not,
    if they were inlined)."""
    from ..astpaths import cond_paths, decided_class
    C = ctx.R.cache
    prog = ctx.prog
    if F is None:
        F = ctx.E.func(C + '._operation_to_json')
        seen = set()
    if F.qualname in seen or depth > 4:
        return []
    seen.add(F.qualname)
    param = F.params[0]
    paths = cond_paths(F.node.body)
    dictvar = set()
    for conds, st in paths:
        if isinstance(st, ast.Assign):
            for t in st.targets:
                if isinstance(t, ast.Name) and (
                        isinstance(st.value, ast.Dict) or _dict_call(
                            st.value) is not None):
                    dictvar.add(t.id)
    local_defs = _local_defs(F, param)
    out = []
    for conds, st in paths:
        ok, other = decided_class(conds, prog, K, param)
        if not ok:
            continue
        gs = [t if pol else ast.UnaryOp(op=ast.Not(), operand=t)
              for t, pol in other]
        if isinstance(st, ast.Assign):
            for t in st.targets:
                if isinstance(t, ast.Name) and isinstance(st.value, ast.Dict):
                    for k, v in zip(st.value.keys, st.value.values):
                        if isinstance(k, ast.Constant):
                            out.append((k.value, v, list(gs), F, param,
                                        local_defs))
                elif (isinstance(t, ast.Subscript) and
                      isinstance(t.value, ast.Name) and
                      t.value.id in dictvar and
                      isinstance(t.slice, ast.Constant)):
                    out.append((t.slice.value, st.value, list(gs), F, param,
                                local_defs))
        if isinstance(st, ast.Return) and isinstance(st.value, ast.Dict):
            for k, v in zip(st.value.keys, st.value.values):
                if isinstance(k, ast.Constant):
                    out.append((k.value, v, list(gs), F, param, local_defs))
        # x = dict(k=v, ...) / return dict(k=v, ...)
        val = getattr(st, 'value', None)
        dc = _dict_call(val) if isinstance(st, (ast.Assign,
                                                 ast.Return)) else None
        if dc is not None:
            for k, v in dc:
                out.append((k, v, list(gs), F, param, local_defs))
        # x.update({...}) / x.update(k=v)
        if isinstance(st, ast.Expr) and isinstance(st.value, ast.Call) and \
                isinstance(st.value.func, ast.Attribute) and \
                st.value.func.attr == 'update' and isinstance(
                    st.value.func.value, ast.Name) and \
                st.value.func.value.id in dictvar:
            c = st.value
            for a in c.args:
                if isinstance(a, ast.Dict):
                    for k, v in zip(a.keys, a.values):
                        if isinstance(k, ast.Constant):
                            out.append((k.value, v, list(gs), F, param,
                                        local_defs))
            for kw in c.keywords:
                if kw.arg:
                    out.append((kw.arg, kw.value, list(gs), F, param,
                                local_defs))
        # delegation to another writer with the record as first argument
        if isinstance(st, (ast.Return, ast.Assign, ast.Expr)):
            for n in ast.walk(st):
                if isinstance(n, ast.Call) and n.args and isinstance(
                        n.args[0], ast.Name) and n.args[0].id == param:
                    for g in prog.resolve_call(n, F):
                        if isinstance(g, Func) and g.cls == C and \
                                g.name.startswith('_') and \
                                g.qualname != F.qualname:
                            out += _writes_for(ctx, K, g, depth + 1, seen)
    return out


def _attr_of_value(v, param, local_defs):
    """(attr, codec) when the value is derived from <param>.<attr>."""
    if isinstance(v, ast.Name) and v.id in local_defs:
        return local_defs[v.id]
    cur = v
    codec = []
    while True:
        if isinstance(cur, ast.Attribute) and isinstance(cur.value, ast.Name) \
                and cur.value.id == param:
            return cur.attr, tuple(codec)
        if isinstance(cur, ast.Attribute):
            codec.append('.' + cur.attr)
            cur = cur.value
            continue
        if isinstance(cur, ast.Call) and cur.args:
            codec.append('call')
            cur = cur.args[0]
            continue
        return None, tuple(codec)


def r16_1(ctx, rc):
    R = ctx.R
    prog = ctx.prog
    C = R.cache
    reader = ctx.E.func(C + '._operation_from_json')
    rfuncs = _cache_helpers(ctx, reader)
    # reader: constructor call per record class (in the reader or in a
    # per-class helper it dispatches to)
    ctor = {}
    built_in = {}
    for rf in rfuncs:
        for call in prog.calls_in(rf):
            for g in prog.resolve_call(call, rf):
                if isinstance(g, Func) and g.is_ctor_call and \
                        g.cls_for_ctor in R.record_classes:
                    ctor[g.cls_for_ctor] = (call, g, rf)
                    built_in.setdefault(rf.qualname, set()).add(
                        g.cls_for_ctor)

    def classes_built(fn, seen=None):
        seen = seen or set()
        if fn.qualname in seen:
            return set()
        seen.add(fn.qualname)
        out = set(built_in.get(fn.qualname, ()))
        for c in prog.calls_in(fn):
            for g in prog.resolve_call(c, fn):
                if isinstance(g, Func) and g in rfuncs and not g.is_ctor_call \
                        and g.name != '_operations_from_json':
                    out |= classes_built(g, seen)
        return out
    # type dispatch literals of the reader
    rd_types = {}
    from ..astpaths import cond_paths, eq_const_fact
    def eq_const(t):
        # ``x == 'lit'`` or ``x == Cls.NAMED_LITERAL``
        r = eq_const_fact(t)
        if r is not None:
            return r
        if isinstance(t, ast.Compare) and len(t.ops) == 1 and isinstance(
                t.ops[0], (ast.Eq, ast.NotEq)):
            neg = isinstance(t.ops[0], ast.NotEq)
            for a, b in ((t.left, t.comparators[0]),
                         (t.comparators[0], t.left)):
                c = prog.const_value(b, reader)
                if c is not None and not isinstance(b, ast.Constant):
                    return a, c.value, neg
        return None
    for conds, st in cond_paths(reader.node.body):
        lits = [eq_const(t)[1] for t, pol in conds
                if eq_const(t) is not None and
                isinstance(eq_const(t)[1], str) and
                pol != eq_const(t)[2]]
        if not lits:
            continue
        for c in ast.walk(st):
            if isinstance(c, ast.Call):
                for g in prog.resolve_call(c, reader):
                    if isinstance(g, Func) and g.is_ctor_call and \
                            g.cls_for_ctor in R.record_classes:
                        rd_types.setdefault(g.cls_for_ctor, lits[-1])
                    elif isinstance(g, Func) and g in rfuncs and \
                            g.name != '_operations_from_json':
                        for K2 in classes_built(g):
                            if len(classes_built(g)) == 1:
                                rd_types.setdefault(K2, lits[-1])
    total = 0
    for K in R.concrete_records:
        if K not in ctor:
            rc.violation('reader-missing-class | ' + K,
                         'the cache reader never constructs ' + K,
                         reader.file, key='reader constructs ' + K)
            continue
        wmap = {}
        W = ctx.E.func(C + '._operation_to_json')
        for key, v, gs, WF, wparam, local_defs in _writes_for(ctx, K):
            a, cd = _attr_of_value(v, wparam, local_defs)
            if a is None and gs and isinstance(v, ast.Constant):
                # flag written as a constant under "if <param>.<attr>:"
                g0 = gs[-1]
                if isinstance(g0, ast.Attribute) and isinstance(
                        g0.value, ast.Name) and g0.value.id == wparam:
                    a = g0.attr
            wmap[key] = (a, cd, gs, v)
            W = WF
        call, g, rfunc = ctor[K]
        binding = prog.bind_args(call, g)
        rmap = {}
        for p, a in binding.items():
            if isinstance(a, list):
                continue
            fld = _param_field(ctx, K, p)
            reads = _key_reads(a)
            rmap[fld] = (p, a, reads)
        for attr in R.record_fields[K]:
            total += 1
            key = '%s.%s' % (K, attr)
            if attr in NOT_PERSISTED:
                p, a, reads = rmap.get(attr, (None, None, []))
                if isinstance(a, ast.Constant) and a.value is True:
                    rc.ok({'field': key, 'exception': NOT_PERSISTED[attr]},
                          key=key)
                else:
                    rc.violation('field-roundtrip | ' + key,
                                 '%s is not persisted and must be read back '
                                 'as True' % key, prog.loc(rfunc, call),
                                 key=key)
                continue
            wkeys = [k for k, (a, cd, gs, v) in wmap.items() if a == attr]
            if attr not in rmap:
                rc.violation('field-roundtrip | ' + key,
                             'no constructor parameter of %s feeds .%s in '
                             'the reader' % (K, attr),
                             prog.loc(rfunc, call), key=key)
                continue
            p, a, reads = rmap[attr]
            # the simple record's name travels as the type discriminator
            if not reads and isinstance(a, ast.Name):
                a2 = ctx.H.subst(a, rfunc, ctx.H.node_of(rfunc, a)[0])
                reads = _key_reads(a2)
                if not reads and a.id in rfunc.params:
                    # handed down by the dispatcher
                    for caller, c2 in prog.callers().get(rfunc.qualname, []):
                        b2 = prog.bind_args(c2, rfunc).get(a.id)
                        if b2 is not None and not isinstance(b2, list):
                            cn2 = ctx.H.node_of(caller, c2)
                            if cn2:
                                reads = reads or _key_reads(
                                    ctx.H.subst(b2, caller, cn2[0]))
            rkeys = [r[0] for r in reads]
            if not wkeys:
                rc.violation('field-roundtrip | ' + key,
                             'the writer never emits .%s of %s (the reader '
                             'expects key %s)' % (attr, K, rkeys),
                             prog.loc(W, W.node), key=key)
                continue
            if not rkeys or rkeys[0] not in wkeys:
                rc.violation(
                    'field-roundtrip | ' + key,
                    '.%s of %s is written under key %s but read from %s' % (
                        attr, K, wkeys, rkeys or 'no key'),
                    prog.loc(rfunc, call), key=key)
                continue
            k = rkeys[0]
            wa, cd, gs, v = wmap[k]
            default = reads[0][1]
            problems = []
            if gs:
                # emitted only under a guard: the reader needs a default
                # equal to the value under which the key is omitted
                if default == 'REQUIRED':
                    problems.append('key %r is emitted only under a guard '
                                    'but read without a default' % k)
                else:
                    g0 = gs[-1]
                    dv = default.value if isinstance(
                        default, ast.Constant) else '?'
                    if isinstance(g0, ast.Compare) and isinstance(
                            g0.ops[0], ast.IsNot):
                        if dv is not None:
                            problems.append(
                                'omitted when None but default is %r' % (dv,))
                    else:
                        # truthiness guard on the attribute itself: every
                        # falsy value is omitted, so the default reproduces
                        # it only for a bool flag
                        from ..roles import IMMUTABLE_FIELDS
                        if IMMUTABLE_FIELDS.get(attr) != 'bool flag':
                            problems.append(
                                'key %r is omitted whenever .%s is falsy '
                                '(0, 0.0, False, "", [], {}) but the reader '
                                'restores %r for a missing key' % (
                                    k, attr, dv))
                        elif dv not in (False, None) or (
                                isinstance(v, ast.Constant) and
                                v.value is not True):
                            problems.append(
                                'omitted when falsy but default is %r / '
                                'written value %s' % (dv, ast.unparse(v)))
                        if not (isinstance(g0, ast.Attribute) and
                                g0.attr == attr):
                            problems.append(
                                'emission guard %s is not the attribute '
                                'itself' % ast.unparse(g0))
            else:
                if default != 'REQUIRED' and not (
                        isinstance(default, ast.Constant)):
                    problems.append('non-constant default')
            # codec pairs (the argument may be a named local)
            if isinstance(a, ast.Name):
                cna = ctx.H.node_of(rfunc, a)
                if cna:
                    a = ctx.H.subst(a, rfunc, cna[0])
            if '.name' in cd:
                if not any(isinstance(n, ast.Subscript) and
                           isinstance(n.value, ast.Name) and
                           n.value.id in prog.classes and
                           'Enum' in prog.classes[n.value.id].bases
                           for n in ast.walk(a)):
                    problems.append('written as Enum.name but not read back '
                                    'through Enum[...]')
            if 'per-element' in cd:
                if not any(isinstance(n, ast.Call) and any(
                        isinstance(g2, Func) and g2.cls == C and
                        not g2.is_ctor_call
                        for g2 in prog.resolve_call(n, rfunc))
                        for n in ast.walk(a)):
                    problems.append('suboperations are not read back '
                                    'through the recursive reader')
            if problems:
                rc.violation('field-roundtrip | ' + key, '; '.join(problems),
                             prog.loc(rfunc, call), key=key)
            else:
                rc.ok({'field': key, 'key': k,
                       'guarded': bool(gs)}, key=key)
        # type literal
        key = 'type discriminator of ' + K
        wt = wmap.get('type')
        if wt and not isinstance(wt[3], ast.Constant):
            cw = prog.const_value(wt[3], W)
            if cw is not None:
                wt = wt[:3] + (cw,) + tuple(wt[4:])
        if K in rd_types:
            if wt and isinstance(wt[3], ast.Constant) and \
                    wt[3].value == rd_types[K]:
                rc.ok({'type': rd_types[K], 'class': K}, key=key)
            else:
                rc.violation('type-literal | ' + K,
                             'the writer emits type %s for %s but the reader '
                             'dispatches on %r' % (
                                 ast.unparse(wt[3]) if wt else 'nothing', K,
                                 rd_types[K]), prog.loc(W, W.node), key=key)
        else:
            if wt and wt[0] == 'name':
                rc.ok({'type': 'operation.name', 'class': K}, key=key)
            else:
                rc.violation('type-literal | ' + K,
                             'no type discriminator agreement for ' + K,
                             prog.loc(W, W.node), key=key)
    if total < 20:
        raise AnalysisError('only %d record attributes found' % total)


def r16_2(ctx, rc):
    prog = ctx.prog
    C = ctx.R.cache
    W = ctx.E.func(C + '.write')
    Rd = ctx.E.func(C + '.read_immutable')
    items, cn = _top_items(ctx, W)
    init = prog.lookup_method(C, '__init__')
    ctor_calls = [c for c in prog.calls_in(Rd)
                  for g in prog.resolve_call(c, Rd)
                  if isinstance(g, Func) and g.is_ctor_call and
                  g.cls_for_ctor == C]
    if not ctor_calls:
        raise AnalysisError('reader does not construct the cache')
    binding = prog.bind_args(ctor_calls[0], init)
    pfield = {}
    for p in init.params:
        pfield[p] = _param_field(ctx, C, p)
    n = 0
    rd_funcs = _cache_helpers(ctx, Rd)
    for k, v in items:
        n += 1
        key = 'cache key ' + k.value
        vs = ctx.H.subst(v, W, cn)
        const = None
        for x in ast.walk(vs):
            if isinstance(x, ast.Attribute) and isinstance(
                    x.value, ast.Name) and x.value.id == C:
                const = x.attr
        if const and isinstance(vs, ast.Attribute):
            # written from a class constant: compared with the same one
            ok = False
            for rf in rd_funcs:
                for cmp_ in ast.walk(rf.node):
                    if isinstance(cmp_, (ast.Compare, ast.Call)):
                        txt = ast.unparse(cmp_)
                        if repr(k.value) in txt and \
                                (C + '.' + const) in txt:
                            ok = True
            if ok:
                rc.ok({'key': k.value, 'constant': const}, key=key)
            else:
                rc.violation('cache-key | ' + k.value,
                             'key %r is written from %s.%s but the reader '
                             'does not compare it with that constant' % (
                                 k.value, C, const), prog.loc(Rd, Rd.node),
                             key=key)
            continue
        reads = [r for rf in rd_funcs for r in _key_reads(rf.node)
                 if r[0] == k.value]
        if reads:
            rc.ok({'key': k.value, 'read_by': Rd.qualname}, key=key)
        else:
            rc.violation('cache-key | ' + k.value,
                         'key %r is written but never read' % k.value,
                         prog.loc(Rd, Rd.node), key=key)
    if n < 6:
        raise AnalysisError('only %d top-level keys' % n)
    # reader side: every constructor parameter restored from key k must have
    # been written from the attribute it is stored in, verbatim
    wvals = {k.value: v for k, v in items}
    for p, a in binding.items():
        if isinstance(a, list):
            continue
        rk = [r[0] for r in _key_reads(a)]
        if not rk:
            continue
        attr = pfield.get(p)
        key = 'restored attribute %s <- key %s' % (attr, rk[0])
        v = wvals.get(rk[0])
        if v is None:
            rc.violation('cache-key | ' + rk[0],
                         'the reader restores %s from key %r which the '
                         'writer never emits' % (attr, rk[0]),
                         prog.loc(Rd, ctor_calls[0]), key=key)
            continue
        org = ctx.H.origins(v, W, cn)
        attrs = {o for o in org if o[0] == 'attr'}
        odd = {o for o in org if o[0] in ('unknown', 'call', 'param',
                                          'api_param', 'field')}
        if attrs == {('attr', C, attr)} and not odd and not \
                _filtered(ctx, v, W, cn):
            rc.ok({'key': rk[0], 'written_from': 'self.' + attr}, key=key)
        else:
            rc.violation(
                'cache-key-transformed | ' + rk[0],
                'key %r is restored into %s but is not written from '
                'self.%s verbatim (written from %s; origins %s): entries '
                'can be dropped or altered on the way to the file' % (
                    rk[0], attr, attr, ast.unparse(v)[:50],
                    sorted(str(o[:3]) for o in org)),
                prog.loc(W, v), key=key)


def _top_items(ctx, W):
    """[(key constant, value expr)] of the object handed to ``json.dumps`` in
    the cache writer, and the CFG node of the dumps call.  The object may be
    a dict literal, ``dict(k=v)``, or a local built from one and completed
    with ``x.update(...)`` / ``x[k] = v``."""
    prog = ctx.prog
    dumps = [c for c in prog.calls_in(W)
             if 'json.dumps' in prog.resolve_call(c, W) and c.args]
    if not dumps:
        raise AnalysisError('top-level dict of the cache file not found '
                            '(no json.dumps in the writer)')
    call = dumps[0]
    cn = ctx.H.node_of(W, call)[0]
    arg = call.args[0]
    items = []

    def lit(e):
        if isinstance(e, ast.Dict):
            return [(k, v) for k, v in zip(e.keys, e.values)
                    if isinstance(k, ast.Constant)]
        dc = _dict_call(e)
        if dc:
            return [(ast.Constant(value=k), v) for k, v in dc]
        return None
    base = lit(arg)
    var = None
    if base is None and isinstance(arg, ast.Name):
        var = arg.id
        cfg = ctx.E.cfgs.get(W)
        for nid in sorted(cfg.reaching_defs()[cn.id].get(var, ())):
            v = cfg.def_value(nid, var)
            if isinstance(v, ast.AST) and lit(v) is not None:
                base = (base or []) + lit(v)
    if base is None:
        raise AnalysisError('top-level dict of the cache file not found')
    items = list(base)
    if var is not None:
        for n in ast.walk(W.node):
            if isinstance(n, ast.Call) and isinstance(
                    n.func, ast.Attribute) and n.func.attr == 'update' and \
                    isinstance(n.func.value, ast.Name) and \
                    n.func.value.id == var:
                for kw in n.keywords:
                    if kw.arg is not None:
                        items.append((ast.Constant(value=kw.arg), kw.value))
                for a in n.args:
                    items.extend(lit(a) or [])
            elif isinstance(n, ast.Assign) and len(n.targets) == 1 and \
                    isinstance(n.targets[0], ast.Subscript) and isinstance(
                        n.targets[0].value, ast.Name) and \
                    n.targets[0].value.id == var and isinstance(
                        n.targets[0].slice, ast.Constant):
                items.append((n.targets[0].slice, n.value))
    return items, cn


def _filtered(ctx, v, W, cn, depth=0):
    """The written value is built by a comprehension with a condition, a
    loop with stores, or another transformation that can drop entries."""
    vs = ctx.H.subst(v, W, cn)
    for n in ast.walk(vs):
        if isinstance(n, (ast.ListComp, ast.SetComp, ast.DictComp,
                          ast.GeneratorExp)):
            if any(g.ifs for g in n.generators):
                return True
            if isinstance(n, ast.DictComp):
                return True
        if isinstance(n, ast.Dict) and not n.keys and isinstance(v, ast.Name):
            return True      # a local dict filled by a loop
    return False


def r16_3(ctx, rc):
    prog = ctx.prog
    ctor_kind_agreement(ctx, rc)
    C = ctx.R.cache
    W = ctx.E.func(C + '.write')
    Rd = ctx.E.func(C + '.read_immutable')
    from ..effects import open_mode
    modes = {}
    for f0, role in ((W, 'w'), (Rd, 'r')):
        for f in _cache_helpers(ctx, f0):
            for call in prog.calls_in(f):
                for g in prog.resolve_call(call, f):
                    if g in ('gzip.open', 'builtins.open') and \
                            role not in modes:
                        modes[role] = (g, open_mode(call), call, f)
    key = 'gzip open modes'
    if 'w' not in modes:
        raise AnalysisError('the cache writer opens no file')
    if 'r' not in modes:
        rc.violation('codec-open | write/read',
                     'the cache is written with %s(%r) but the reader does '
                     'not open it with the inverse codec (a truncated or '
                     'foreign file may be accepted)' % (
                         modes['w'][0], modes['w'][1]), Rd.file, key=key)
        return
    gw, mw, cw, _ = modes['w']
    gr, mr, cr, _ = modes['r']
    if gw != gr or mw is None or mr is None or not mw.startswith('w') or \
            not mr.startswith('r') or ('t' in mw) != ('t' in mr) or \
            ('b' in mw) != ('b' in mr):
        rc.violation('codec-open | write/read',
                     'the cache is written with %s(%r) but read with '
                     '%s(%r)' % (gw, mw, gr, mr), prog.loc(W, cw), key=key)
    else:
        kw_w = {k.arg: ast.unparse(k.value) for k in cw.keywords
                if k.arg in ('encoding', 'errors', 'newline')}
        kw_r = {k.arg: ast.unparse(k.value) for k in cr.keywords
                if k.arg in ('encoding', 'errors', 'newline')}
        if kw_w != kw_r:
            rc.violation('codec-open-options | write/read',
                         'the cache is written with text options %s but read '
                         'with %s: some strings that were written cannot be '
                         'read back' % (kw_w, kw_r), prog.loc(W, cw),
                         key=key)
        else:
            rc.ok({'write': '%s %s' % (gw, mw), 'read': '%s %s' % (gr, mr),
                   'options': kw_w}, key=key)
    dumps = [c for f in _cache_helpers(ctx, W) for c in prog.calls_in(f)
             if 'json.dumps' in prog.resolve_call(c, f) or
             'json.dump' in prog.resolve_call(c, f)]
    loads = [c for f in _cache_helpers(ctx, Rd) for c in prog.calls_in(f)
             if 'json.load' in prog.resolve_call(c, f) or
             'json.loads' in prog.resolve_call(c, f)]
    key = 'json.dumps / json.load'
    if not dumps or not loads:
        rc.violation('codec-json | write/read',
                     'the cache is not serialised with json.dumps and read '
                     'back with json.load', W.file, key=key)
    else:
        bad = []
        for kw in dumps[0].keywords:
            if kw.arg in ('default', 'skipkeys', 'cls'):
                bad.append(kw.arg)
            if kw.arg == 'allow_nan' and isinstance(kw.value, ast.Constant) \
                    and kw.value.value is False:
                bad.append('allow_nan=False')
            if kw.arg == 'ensure_ascii':
                pass
        for kw in loads[0].keywords:
            if kw.arg in ('object_hook', 'parse_float', 'parse_int',
                          'parse_constant', 'object_pairs_hook', 'cls'):
                bad.append('load:' + kw.arg)
        if bad:
            rc.violation('codec-json-options | ' + ','.join(bad),
                         'json options %s drop, reject or rewrite data that '
                         'the sanitiser accepted' % bad,
                         prog.loc(W, dumps[0]), key=key)
        else:
            rc.ok({'dumps_keywords': [k.arg for k in dumps[0].keywords]},
                  key=key)


def r16_4(ctx, rc):
    from . import c02
    c02.r2_4(ctx, rc)
    c02.r2_9(ctx, rc)
    # the backup of the old cache file has a slot of its own (R2.6b)
    c02.r2_6b(ctx, rc)
    # the write happens after the user function returned
    N = c02._names(ctx)
    root = N['root']
    sg = ctx.helpers_graph(root, stop=(N['commit'].qualname,
                                      N['rollback'].qualname))
    w = Q.first_unguarded(
        sg, [sg.entry],
        lambda x: x.kind == 'ret' and x.callee == 'USER',
        lambda x: Q.is_call(x, N['write'].qualname))
    key = 'cache write only after the root function returned'
    if w:
        rc.violation('write-before-success | ' + root.qualname,
                     'the cache file can be replaced before the root '
                     'function has returned', sg.nodes[w[-1]].where(),
                     sg.describe_path(w), key=key)
    else:
        rc.ok({'order': key}, key=key)


def _cache_helpers(ctx, W):
    """W and the private Cache helpers it (transitively) calls."""
    C = ctx.R.cache
    out = [W]
    todo = [W]
    while todo:
        f = todo.pop()
        for c in ctx.prog.calls_in(f):
            for g in ctx.prog.resolve_call(c, f):
                if isinstance(g, Func) and g.cls == C and \
                        g.name.startswith('_') and g not in out and \
                        not g.is_ctor_call:
                    out.append(g)
                    todo.append(g)
    return out


def _ser_sites(ctx, funcs, ser):
    """Where the serialiser is called per element: ('loop', For, func) or
    ('comp', comprehension, func)."""
    prog = ctx.prog
    out = []
    for f in funcs:
        if f.qualname == ser:
            continue
        for n in ast.walk(f.node):
            if isinstance(n, (ast.ListComp, ast.GeneratorExp, ast.SetComp)):
                if any(isinstance(c, ast.Call) and any(
                        isinstance(g, Func) and g.qualname == ser
                        for g in prog.resolve_call(c, f))
                        for c in ast.walk(n.elt)):
                    out.append(('comp', n, f))
            elif isinstance(n, ast.For):
                inner = [c for st in n.body for c in ast.walk(st)
                         if isinstance(c, ast.Call) and any(
                             isinstance(g, Func) and g.qualname == ser
                             for g in prog.resolve_call(c, f))]
                in_comp = any(isinstance(x, (ast.ListComp, ast.GeneratorExp))
                              and any(c in list(ast.walk(x)) for c in inner)
                              for st in n.body for x in ast.walk(st))
                if inner and not in_comp:
                    out.append(('loop', n, f))
    return out


def _membership_only(test, pol_nested):
    """test is `x not in S` (keeps roots) or `x in S` with the skipping
    polarity."""
    return isinstance(test, ast.Compare) and len(test.ops) == 1 and \
        isinstance(test.ops[0], (ast.In, ast.NotIn))


def r16_5(ctx, rc):
    """write(): the only reason not to serialise a registered operation is
    that it is nested in another one."""
    prog = ctx.prog
    C = ctx.R.cache
    W = ctx.E.func(C + '.write')
    ser = C + '._operation_to_json'
    funcs = [f for f in _cache_helpers(ctx, W)
             if f.qualname not in (ser, C + opt('._complex_operation_to_json'),
                                   C + opt('._simple_operation_to_json'))]
    sites = _ser_sites(ctx, funcs, ser)
    key = 'every root operation is serialised'
    if not sites:
        rc.violation('root-not-written | ' + W.qualname,
                     'write() never serialises the registered operations',
                     W.file, key=key)
        return
    kind, node, F = sites[0]
    iter_expr = None
    if kind == 'comp':
        gen = node.generators[0]
        iter_expr = gen.iter
        bad = [t for t in gen.ifs if not _membership_only(t, None)]
        if bad or len(node.generators) != 1:
            rc.violation(
                'root-not-written | ' + W.qualname,
                'write() can skip a registered operation for a reason other '
                'than being nested in another one (condition %s)' % (
                    ast.unparse(bad[0]) if bad else 'nested generators'),
                prog.loc(F, node), key=key)
        else:
            rc.ok({'form': 'comprehension',
                   'only_skip': [ast.unparse(t) for t in gen.ifs]}, key=key)
    else:
        iter_expr = node.iter
        sg = ctx.E.super(F, lambda g: False)
        loop = [x for x in sg.nodes if x.kind == 'out' and
                x.cn.kind == 'for_next' and x.cn.ast is node]
        if not loop:
            raise AnalysisError('serialisation loop not in the CFG')
        loop = loop[0]
        body = [d for d, l in loop.succ
                if isinstance(l, tuple) and l[0] == 'iter']

        def nested_skip(lab):
            if not (isinstance(lab, tuple) and len(lab) == 4):
                return False
            a = lab[1]
            if isinstance(a, ast.Compare) and len(a.ops) == 1:
                if isinstance(a.ops[0], ast.NotIn) and lab[0] == 'F':
                    return True
                if isinstance(a.ops[0], ast.In) and lab[0] == 'T':
                    return True
            return False
        seen = sg.reach(body, avoid=lambda y: Q.is_call(y, ser),
                        edge_ok=lambda a, b, lab: not nested_skip(lab))
        back = [x for x in seen if sg.nodes[x].kind == 'in' and
                sg.nodes[x].cn is loop.cn]
        if back:
            rc.violation(
                'root-not-written | ' + W.qualname,
                'write() can skip a registered operation for a reason other '
                'than being nested in another one (its record and '
                'everything nested in it are lost from the cache file)',
                prog.loc(F, node), sg.describe_path(
                    sg.witness(seen, back[0])), key=key)
        else:
            rc.ok({'form': 'loop',
                   'only_skip': 'operation in non_root_operations'}, key=key)
    # the operations iterated are all registered files and subbuilds
    cn = ctx.H.node_of(F, iter_expr)
    org = ctx.H.origins(iter_expr, F, cn[0]) if cn else set()
    attrs = {o[2] for o in org if o[0] == 'attr'}
    key = 'write() iterates over files and subbuilds'
    if {'_files', '_subbuilds'} <= attrs:
        rc.ok({'sources': sorted(attrs)}, key=key)
    else:
        rc.violation('write-sources | ' + W.qualname,
                     'write() serialises operations from %s, expected both '
                     'the file map and the subbuild map' % sorted(attrs),
                     prog.loc(F, iter_expr), key=key)


def r16_6(ctx, rc):
    """The serialiser visits every suboperation of a complex record, and the
    non-root set of write() is built from every registered operation."""
    prog = ctx.prog
    C = ctx.R.cache
    ser = C + '._operation_to_json'
    # writers reachable from the dispatcher for complex records
    cands = [f for f in _cache_helpers(ctx, ctx.E.func(ser))]
    sites = [s_ for s_ in _ser_sites(ctx, cands + [ctx.E.func(ser)], 'x')]
    sub = []
    for f in cands + [ctx.E.func(ser)]:
        for n in ast.walk(f.node):
            it = None
            if isinstance(n, ast.For):
                it, ifs, form = n.iter, None, 'loop'
            elif isinstance(n, (ast.ListComp, ast.GeneratorExp)):
                it, ifs, form = n.generators[0].iter, \
                    n.generators[0].ifs, 'comp'
            if it is not None and isinstance(it, ast.Attribute) and \
                    it.attr == 'suboperations':
                calls_ser = any(
                    isinstance(c, ast.Call) and any(
                        isinstance(g, Func) and g.qualname == ser
                        for g in prog.resolve_call(c, f))
                    for c in ast.walk(n))
                if calls_ser:
                    sub.append((form, n, f, ifs))
    key = 'every suboperation is serialised'
    if not sub:
        rc.violation('suboperation-not-written | ' + C,
                     'no writer serialises the suboperations of a record',
                     ctx.E.func(ser).file, key=key)
    for form, n, f, ifs in sub[:1]:
        if form == 'comp':
            if ifs:
                rc.violation('suboperation-not-written | ' + f.qualname,
                             'the serialiser filters suboperations (%s)' %
                             ast.unparse(ifs[0]), prog.loc(f, n), key=key)
            else:
                rc.ok({'form': 'comprehension over .suboperations'}, key=key)
        else:
            sg = ctx.E.super(f, lambda g: False)
            lp = [x for x in sg.nodes if x.kind == 'out' and
                  x.cn.kind == 'for_next' and x.cn.ast is n][0]
            body = [d for d, l in lp.succ
                    if isinstance(l, tuple) and l[0] == 'iter']
            seen = sg.reach(body, avoid=lambda x: Q.is_call(x, ser))
            back = [m for m in seen if sg.nodes[m].kind == 'in' and
                    sg.nodes[m].cn is lp.cn]
            if back:
                rc.violation('suboperation-not-written | ' + f.qualname,
                             'the serialiser can skip a suboperation of a '
                             'record (the observation is lost from the '
                             'cache file and never replayed)', lp.where(),
                             key=key)
            else:
                rc.ok({'form': 'loop over .suboperations'}, key=key)
    # non-root set
    W = ctx.E.func(C + '.write')
    funcs = _cache_helpers(ctx, W)
    key = 'non-root set covers every registered operation'
    ser_sites = _ser_sites(ctx, [f for f in funcs if f.qualname not in (
        ser, C + opt('._complex_operation_to_json'))], ser)
    ser_iter = None
    if ser_sites:
        k0, n0, f0 = ser_sites[0]
        ser_iter = n0.generators[0].iter if k0 == 'comp' else n0.iter
    found = None
    for f in funcs:
        for n in ast.walk(f.node):
            if isinstance(n, ast.For):
                body_nodes = list(ast.walk(ast.Module(body=n.body,
                                                      type_ignores=[])))
                upd = [c for c in body_nodes if isinstance(c, ast.Call) and
                       isinstance(c.func, ast.Attribute) and
                       c.func.attr in ('update', 'add', 'extend') and
                       c.args and isinstance(c.args[0], ast.Attribute) and
                       c.args[0].attr == 'suboperations']
                if upd:
                    cond = any(isinstance(x, (ast.If, ast.Break,
                                              ast.Continue))
                               for x in body_nodes)
                    found = (n.iter, cond, f, n)
            elif isinstance(n, (ast.SetComp, ast.ListComp, ast.GeneratorExp)) \
                    and len(n.generators) == 2 and isinstance(
                        n.generators[1].iter, ast.Attribute) and \
                    n.generators[1].iter.attr == 'suboperations':
                cond = bool(n.generators[0].ifs or n.generators[1].ifs)
                found = (n.generators[0].iter, cond, f, n)
            elif isinstance(n, (ast.SetComp, ast.ListComp, ast.GeneratorExp)) \
                    and len(n.generators) == 1 and isinstance(
                        n.elt, ast.Attribute) and \
                    n.elt.attr == 'suboperations' and isinstance(
                        n.elt.value, ast.Name) and isinstance(
                            n.generators[0].target, ast.Name) and \
                    n.elt.value.id == n.generators[0].target.id:
                # chain.from_iterable(op.suboperations for op in X)
                found = (n.generators[0].iter, bool(n.generators[0].ifs),
                         f, n)
    ok = found is not None and not found[1] and ser_iter is not None and \
        ast.dump(found[0]) == ast.dump(ser_iter)
    if ok:
        rc.ok({'non_root_from': ast.unparse(found[0])}, key=key)
    else:
        rc.violation('non-root-set | ' + W.qualname,
                     'the set of nested (non-root) operations is not built '
                     'unconditionally from the suboperations of every '
                     'operation that is later considered for writing: a '
                     'nested record would be written twice, or a root '
                     'dropped', W.file, key=key)


def r16_7(ctx, rc):
    """What is persisted is complete and by value: the created-directory
    set handed to the cache (R12.4) and no record-owned value shared with
    the caller, who could change it between the call and the write
    (R11.1)."""
    from .c12 import r12_4
    from .c11 import r11_1
    r12_4(ctx, rc)
    r11_1(ctx, rc)
    # the failure marker that is written is what the next build's lookups
    # refuse on (R5.2): a lookup that ignores it serves a failed call as a
    # success and re-records it without the marker
    from .c05 import r5_2
    r5_2(ctx, rc)


RULES = [
    ('R16.1', 'record fields survive write/read (attribute<->key<->param)',
     r16_1),
    ('R16.2', 'cache-file keys survive write/read', r16_2),
    ('R16.3', 'inverse codec pairs', r16_3),
    ('R16.4', 'when the cache file is replaced; failed write compensated',
     r16_4),
    ('R16.5', 'write() serialises every root operation', r16_5),
    ('R16.6', 'every suboperation is serialised; non-root set is complete',
     r16_6),
    ('R16.7', 'the persisted directory set is complete; records are not '
     'shared with the caller (R12.4, R11.1)', r16_7),
]


def ctor_kind_agreement(ctx, rc):
    """Sibling construction sites of the cache agree on the container kind
    of each parameter: where one site passes a set, no other passes a raw
    decoded JSON value (JSON has no sets; the conversion is also the only
    place where a non-iterable / unhashable shape is rejected while the file
    is read, before anything is removed or built)."""
    prog = ctx.prog
    C = ctx.R.cache
    init = prog.lookup_method(C, '__init__')
    sites = [(f, c) for f in prog.funcs.values() for c in prog.calls_in(f)
             for g in prog.resolve_call(c, f)
             if isinstance(g, Func) and g.is_ctor_call and
             g.cls_for_ctor == C]
    if len(sites) < 2:
        raise AnalysisError('only %d construction sites of %s' % (
            len(sites), C))

    def kind(e, f, cn, depth=0):
        if _key_reads(e) and isinstance(e, (ast.Subscript, ast.Call)) and \
                not (isinstance(e, ast.Call) and isinstance(
                    e.func, ast.Name)):
            return 'json'
        e = ctx.H.subst(e, f, cn)
        if isinstance(e, (ast.Set, ast.SetComp)):
            return 'set'
        if isinstance(e, ast.Call) and isinstance(e.func, ast.Name):
            if e.func.id in ('set', 'frozenset'):
                return 'set'
            if e.func.id == 'dict':
                return 'dict'
            if e.func.id in ('list', 'sorted'):
                return 'list'
        if isinstance(e, (ast.Dict, ast.DictComp)):
            return 'dict'
        if isinstance(e, (ast.List, ast.ListComp)):
            return 'list'
        if _key_reads(e) and isinstance(e, (ast.Subscript, ast.Call)):
            return 'json'
        if isinstance(e, ast.Name) and e.id in f.params and depth < 3:
            ks = set()
            for caller, c2 in prog.callers().get(f.qualname, []):
                b = prog.bind_args(c2, f).get(e.id)
                cn2 = ctx.H.node_of(caller, c2)
                if b is not None and not isinstance(b, list) and cn2:
                    ks.add(kind(b, caller, cn2[0], depth + 1))
            if len(ks) == 1:
                return ks.pop()
        return 'other'
    per = {}
    for f, c in sites:
        cn = ctx.H.node_of(f, c)
        if not cn:
            continue
        for p, a in prog.bind_args(c, init).items():
            if isinstance(a, list):
                continue
            per.setdefault(p, []).append((kind(a, f, cn[0]), f, c))
    for p, lst in sorted(per.items()):
        kinds = {k for k, _, _ in lst}
        key = 'container kind of %s(%s)' % (C, p)
        if 'set' in kinds and 'json' in kinds:
            bad = [(f, c) for k, f, c in lst if k == 'json'][0]
            rc.violation(
                'ctor-kind | %s | %s' % (C, p),
                'parameter %s of %s is a set at %d construction site(s) but '
                'the raw decoded JSON value at another: a malformed file is '
                'no longer rejected while it is read, and the set operations '
                'on the attribute fail later (clean: after the outputs were '
                'removed)' % (p, C, len([1 for k, _, _ in lst
                                         if k == 'set'])),
                prog.loc(bad[0], bad[1]), key=key)
        else:
            rc.ok({'param': p, 'kinds': sorted(kinds)}, key=key)
