"""C04 - the virtual file-system view (consistency by construction)."""
import ast

from ..model import Func, AnalysisError
from ..supergraph import callee_name
from .. import queries as Q
from .apply_rules import apply_rules

EXPLANATION = (
    'R4.1: exists == is_file or is_dir by abstract evaluation of the CFG of '
    'the exists operation over the two kernel atoms (all four truth '
    'assignments). R4.2 one kernel: outside the real layer (functions '
    'reachable from file_comparison_result) only is_file/is_dir probe the '
    'real file system for the type of a path; read, list_dir, walk, exists, '
    'get_size and their helpers contain no type probe, so two queries '
    'cannot disagree about the type of a path. R4.3: every name appended to '
    'a listing is control-dependent on the virtual exists/is_file/is_dir of '
    'the joined path with the caller\'s overlay; walk recurses only into '
    'names of its directory list. R4.4: every OSError subclass raised by a '
    'virtual query is chosen by a virtual predicate (IsADirectoryError '
    'under virtual is_dir, NotADirectoryError under virtual is_file, '
    'FileNotFoundError under their negation or a real FileNotFoundError). '
    'R4.5 atomic appearance: in the kernel\'s pre-file-system stage every '
    'exit that lets the real file system answer carries the facts "not the '
    'cache file", "not claimed-and-unfinished", "not a stale output"; is_dir '
    'answers True from the real file system only for directories not '
    'virtually removed. R4.6: a reused subtree creates/reserves directories '
    'only for outputs that did not raise. R4.8: the reference-count walks '
    'of BuildDirs agree - abstract interpretation of one iteration of the '
    'reserve and of the release walk over the count domain shows that the '
    'release is the exact inverse (same stopping decision, entry removed at '
    'zero). Decides consistency by '
    'construction and error-class choice; the directory state machine '
    '(contents of the BuildDirs sets) is not decided.')
# round 3/4 additions
EXPLANATION += (
    " R4.9 = R9.6. R4.10: a 'removed' verdict of the directory scan is memoised in the set the query consults. R4.11: removed/maybe-removed knowledge is dropped only under a dominating 'not reserved' fact (the class's crucial invariant). R4.12: a directory whose listing raised FileNotFoundError is answered 'removed'.")

PROBES = ('os.path.isfile', 'os.path.isdir', 'os.path.exists',
          'os.path.lexists')


def _ex(ctx, name):
    return ctx.E.func(ctx.R.executor + '.' + name)


def real_layer(ctx):
    root = _ex(ctx, 'file_comparison_result')
    seen = {root.qualname}
    todo = [root]
    while todo:
        f = todo.pop()
        for call in ctx.prog.calls_in(f):
            for g in ctx.prog.resolve_call(call, f):
                if isinstance(g, Func) and g.qualname not in seen and \
                        g.cls == ctx.R.executor:
                    seen.add(g.qualname)
                    todo.append(g)
    return seen


def _kernel_call(ctx, atom, func, names):
    """atom is self.<name>(path, overlay) on the executor."""
    if not isinstance(atom, ast.Call):
        return None
    for g in ctx.prog.resolve_call(atom, func):
        if isinstance(g, Func) and g.cls == ctx.R.executor and \
                g.name in names:
            return g.name
    return None


def r4_1(ctx, rc):
    F = _ex(ctx, 'exists')
    sg = ctx.E.super(F, lambda g: False)
    ends = set(sg.normal_exits())
    paths = Q.enumerate_paths(sg, sg.entry, lambda x: x.id in ends)
    if not paths:
        raise AnalysisError('no path through exists')
    rows = []
    for path, facts in paths:
        val = {}
        ok = True
        for pol, atom, func, cn in facts:
            a = ctx.H.subst(atom, func, cn)
            k = _kernel_call(ctx, a, func, ('is_file', 'is_dir'))
            if k is None:
                ok = False
            else:
                val[k] = (pol == 'T')
        kind = sg.nodes[path[-1]].kind
        if kind == 'exit_n':
            # `return <local>`: the value of a kernel call made on the path
            rets = [sg.nodes[p] for p in path if sg.nodes[p].kind == 'out'
                    and sg.nodes[p].cn.kind == 'return']
            if rets:
                v = ctx.H.subst(rets[-1].cn.ast.value, F, rets[-1].cn)
                k = _kernel_call(ctx, v, F, ('is_file', 'is_dir'))
                if k is not None and k in val:
                    kind = 'exit_t' if val[k] else 'exit_f'
                else:
                    ok = False
        rows.append((val, kind, ok, path))
    for f in (True, False):
        for d in (True, False):
            key = 'exists when is_file=%s, is_dir=%s' % (f, d)
            want = 'exit_t' if (f or d) else 'exit_f'
            got = set()
            unknown = False
            for val, kind, ok, path in rows:
                if not ok:
                    unknown = True
                    continue
                if all({'is_file': f, 'is_dir': d}[k] == v
                       for k, v in val.items()):
                    got.add(kind)
            if unknown or got != {want}:
                rc.violation(
                    'exists-definition | is_file=%s is_dir=%s' % (f, d),
                    'exists does not answer is_file or is_dir: for '
                    'is_file=%s, is_dir=%s it %s' % (
                        f, d, 'branches on something else' if unknown
                        else 'can return %s' % sorted(got)),
                    ctx.prog.loc(F, F.node), key=key)
            else:
                rc.ok({'assignment': key, 'returns': f or d}, key=key)
    # both kernel calls receive the same path and the caller's overlay
    calls = [c for c in ctx.prog.calls_in(F)
             if _kernel_call(ctx, c, F, ('is_file', 'is_dir'))]
    calls = sorted(calls, key=lambda c: c.lineno)
    key = 'exists passes the same (path, overlay) to both predicates'
    if len(calls) >= 2 and len({ast.dump(ast.Tuple(
            elts=c.args, ctx=ast.Load())) for c in calls}) == 1 and all(
                len(c.args) == 2 and all(
                    isinstance(a, ast.Name) and a.id in F.params
                    for a in c.args) for c in calls):
        rc.ok({'args': [a.id for a in calls[0].args]}, key=key)
    else:
        rc.violation('exists-args | ' + F.qualname,
                     'exists does not pass its own (path, overlay) to both '
                     'is_file and is_dir', ctx.prog.loc(F, F.node), key=key)


def r4_2(ctx, rc):
    R = ctx.R
    real = real_layer(ctx)
    kernel = {R.executor + '.is_file', R.executor + '.is_dir'}
    n = 0
    for m in ctx.prog.classes[R.executor].methods.values():
        if m.qualname in real or m.name == '__init__':
            continue
        probes = [(g, c) for c in ctx.prog.calls_in(m)
                  for g in ctx.prog.resolve_call(c, m) if g in PROBES]
        n += 1
        key = 'type probes in ' + m.qualname
        if m.qualname in kernel:
            rc.ok({'kernel': m.qualname,
                   'probes': sorted({g for g, _ in probes})}, key=key)
            continue
        if probes:
            rc.violation(
                'second-kernel | %s | %s' % (m.qualname, probes[0][0]),
                '%s asks the real file system (%s) for the type of a path; '
                'only is_file/is_dir may, otherwise two queries can '
                'disagree about the same path' % (m.qualname, probes[0][0]),
                ctx.prog.loc(m, probes[0][1]), key=key)
        else:
            rc.ok({'operation': m.qualname, 'probes': 0}, key=key)
    if n < 9:
        raise AnalysisError('only %d executor functions outside the real '
                            'layer' % n)


def _append_target(sn, listname=None):
    if sn.kind != 'leaf' or sn.call is None:
        return None
    f = sn.call.func
    if isinstance(f, ast.Attribute) and f.attr == 'append' and \
            isinstance(f.value, ast.Name):
        return f.value.id
    return None


def r4_3(ctx, rc):
    prog = ctx.prog
    L = _ex(ctx, 'list_dir')
    sg = ctx.E.super(L, lambda g: False)
    rets = [n.value.id for n in ast.walk(L.node)
            if isinstance(n, ast.Return) and isinstance(n.value, ast.Name)]
    apps = [x for x in sg.nodes if _append_target(x) in rets]
    overlay = L.params[-1]
    if not apps:
        # comprehension form: [name for name in <superset> if exists(...)]
        comps = [n for n in ast.walk(L.node)
                 if isinstance(n, (ast.ListComp, ast.GeneratorExp))]
        key = 'list_dir: appended names exist virtually'
        ok = False
        for c in comps:
            for t in c.generators[0].ifs:
                for call in ast.walk(t):
                    if _kernel_call(ctx, call, L, ('exists',)) and \
                            len(call.args) >= 2 and isinstance(
                                call.args[1], ast.Name) and \
                            call.args[1].id == overlay and isinstance(
                                call.args[0], ast.Call) and \
                            'os.path.join' in prog.resolve_call(
                                call.args[0], L):
                        ok = True
        if not comps:
            raise AnalysisError('list_dir builds its result in an '
                                'unrecognised way')
        if ok:
            rc.ok({'filter': 'exists(join(dir_, name), created_files)',
                   'form': 'comprehension'}, key=key)
        else:
            rc.violation('listing-unfiltered | ' + L.qualname,
                         'list_dir can list a name without having asked the '
                         'virtual exists(join(dir, name), overlay)',
                         ctx.prog.loc(L, comps[0]), key=key)

    def kfact(lab, pol, names, need_overlay):
        if not (isinstance(lab, tuple) and len(lab) == 4 and lab[0] == pol):
            return False
        k = _kernel_call(ctx, lab[1], lab[2], names)
        if not k:
            return False
        args = lab[1].args
        if len(args) < 2 or not (isinstance(args[1], ast.Name) and
                                 args[1].id == need_overlay):
            return False
        a0 = ctx.H.subst(args[0], lab[2], lab[3])
        return isinstance(a0, ast.Call) and 'os.path.join' in \
            prog.resolve_call(a0, lab[2])
    for a in apps:
        seen = sg.reach([sg.entry], edge_ok=lambda x, y, lab: not kfact(
            lab, 'T', ('exists',), overlay))
        key = 'list_dir: appended names exist virtually'
        if a.id in seen:
            rc.violation(
                'listing-unfiltered | ' + L.qualname,
                'list_dir can list a name without having asked the virtual '
                'exists(join(dir, name), overlay)', a.where(),
                sg.describe_path(sg.witness(seen, a.id)), key=key)
        else:
            rc.ok({'filter': 'exists(join(dir_, name), created_files)'},
                  key=key)
    W = _ex(ctx, '_append_walk')
    # private helpers of the executor that build the two lists are part of
    # the walk (the recursion itself stays a call)
    sgw = ctx.E.super(W, lambda g: g.cls == W.cls and not g.is_public and
                      g is not W and g.name.startswith('_') and
                      any(isinstance(r, ast.Return) and isinstance(
                          r.value, ast.Tuple) for r in ast.walk(g.node)))
    ov = [p for p in W.params
          if 'CreatedFiles' in prog.param_types.get((W.qualname, p), ())]
    if not ov:
        raise AnalysisError('overlay parameter of the walk helper not found')
    ov = ov[0]
    # the tuple appended to the results: (dir, subdirs, subfiles)
    tup = None
    for n in ast.walk(W.node):
        if isinstance(n, ast.Call) and isinstance(n.func, ast.Attribute) and \
                n.func.attr == 'append' and n.args:
            a0 = n.args[0]
            if isinstance(a0, ast.Name):
                cn0 = ctx.H.node_of(W, n)
                if cn0:
                    a0 = ctx.H.subst(a0, W, cn0[0], depth=1)
            if isinstance(a0, ast.Tuple) and len(a0.elts) == 3:
                tup = a0
    if tup is None or not all(isinstance(e, ast.Name) for e in tup.elts[1:]):
        raise AnalysisError('walk result tuple not recognised')
    dirs_name, files_name = tup.elts[1].id, tup.elts[2].id
    # the lists may be built by a helper that returns them as a pair: the
    # helper's own names for them
    dirs_names = {(W.qualname, dirs_name)}
    files_names = {(W.qualname, files_name)}
    for a in ast.walk(W.node):
        if isinstance(a, ast.Assign) and len(a.targets) == 1 and isinstance(
                a.targets[0], ast.Tuple) and isinstance(a.value, ast.Call):
            tnames = [e.id if isinstance(e, ast.Name) else None
                      for e in a.targets[0].elts]
            for g in prog.resolve_call(a.value, W):
                if not isinstance(g, Func):
                    continue
                for r in ast.walk(g.node):
                    if isinstance(r, ast.Return) and isinstance(
                            r.value, ast.Tuple) and len(
                                r.value.elts) == len(tnames):
                        for tn, re_ in zip(tnames, r.value.elts):
                            if isinstance(re_, ast.Name):
                                if tn == dirs_name:
                                    dirs_names.add((g.qualname, re_.id))
                                if tn == files_name:
                                    files_names.add((g.qualname, re_.id))
    n_app = 0
    for x in sgw.nodes:
        t = _append_target(x)
        t = (x.func.qualname, t) if t is not None else None
        if t in files_names or t in dirs_names:
            n_app += 1
        if t in files_names:
            seen = sgw.reach([sgw.entry], edge_ok=lambda a, b, lab: not kfact(
                lab, 'T', ('is_file',), ov))
            key = 'walk: file list filtered by virtual is_file'
            if x.id in seen:
                rc.violation('walk-files | ' + W.qualname,
                             'walk can report a file name without the '
                             'virtual is_file of the joined path', x.where(),
                             key=key)
            else:
                rc.ok({'filter': 'is_file(join, overlay)'}, key=key)
        elif t in dirs_names:
            s1 = sgw.reach([sgw.entry], edge_ok=lambda a, b, lab: not kfact(
                lab, 'T', ('is_dir',), ov))
            s2 = sgw.reach([sgw.entry], edge_ok=lambda a, b, lab: not kfact(
                lab, 'F', ('is_file',), ov))
            key = 'walk: directory list filtered by not is_file and is_dir'
            if x.id in s1 or x.id in s2:
                rc.violation('walk-dirs | ' + W.qualname,
                             'walk can report a sub-directory without '
                             '(not is_file and is_dir) of the joined path',
                             x.where(), key=key)
            else:
                rc.ok({'filter': 'not is_file and is_dir'}, key=key)
    if n_app < 2:
        raise AnalysisError('the walk helper fills its directory and file '
                            'lists nowhere the analysis can see (%d append '
                            'sites)' % n_app)
    # recursion only into names of the directory list
    rec = [c for c in prog.calls_in(W)
           if any(isinstance(g, Func) and g.qualname == W.qualname
                  for g in prog.resolve_call(c, W))]
    key = 'walk: recursion only into the directory list'
    ok = bool(rec)
    from .c02 import _slice_names
    for c in rec:
        cn = ctx.H.node_of(W, c)[0]
        bw = prog.bind_args(c, W)
        a0 = bw.get(W.params[0]) if W.params else None
        if not isinstance(a0, ast.AST):
            ok = False
            continue
        names = {n.id for n in ast.walk(a0)
                 if isinstance(n, ast.Name)}
        grew = True
        while grew:
            grew = False
            for n in ast.walk(W.node):
                add = set()
                if isinstance(n, ast.Assign) and any(
                        isinstance(t, ast.Name) and t.id in names
                        for t in n.targets):
                    add = {x.id for x in ast.walk(n.value)
                           if isinstance(x, ast.Name)}
                elif isinstance(n, (ast.For, ast.comprehension)):
                    tg = {x.id for x in ast.walk(n.target)
                          if isinstance(x, ast.Name)}
                    if tg & names:
                        add = {x.id for x in ast.walk(n.iter)
                               if isinstance(x, ast.Name)}
                if not add <= names:
                    names |= add
                    grew = True
        if dirs_name not in names or files_name in names:
            ok = False
        aov = bw.get(ov)
        if not (isinstance(aov, ast.Name) and aov.id == ov):
            ok = False
    if ok:
        rc.ok({'recursion': 'for subdir in subdirs'}, key=key)
    else:
        rc.violation('walk-recursion | ' + W.qualname,
                     'walk does not recurse exactly into the names of its '
                     'directory list with the caller\'s overlay',
                     ctx.prog.loc(W, W.node), key=key)


def r4_4(ctx, rc):
    R = ctx.R
    prog = ctx.prog
    real = real_layer(ctx)
    n = 0
    # the virtual queries: the registered operations and the executor's own
    # helpers they reach (a utility that merely lives in the class is not a
    # query)
    ops = prog.operations_names(R.executor) or set()
    qset = {m for m in prog.classes[R.executor].methods.values()
            if m.name in ops}
    todo = list(qset)
    while todo:
        f0 = todo.pop()
        for c in prog.calls_in(f0):
            for g in prog.resolve_call(c, f0):
                if isinstance(g, Func) and g.cls == R.executor and \
                        g not in qset and not g.is_ctor_call:
                    qset.add(g)
                    todo.append(g)
    for m in prog.classes[R.executor].methods.values():
        if m.qualname in real or m not in qset:
            continue
        raises = [x for x in ast.walk(m.node) if isinstance(x, ast.Raise)
                  and x.exc is not None]
        # a helper that *returns* the exception object for its caller to
        # raise chooses the class just the same
        raises += [x for x in ast.walk(m.node) if isinstance(x, ast.Return)
                   and isinstance(x.value, ast.Call) and isinstance(
                       x.value.func, ast.Name) and x.value.func.id in (
                           'IsADirectoryError', 'NotADirectoryError',
                           'FileNotFoundError')]
        if not raises:
            continue
        sg = ctx.E.super(m, lambda g: False)

        def vfact(lab, pol, names):
            if not (isinstance(lab, tuple) and len(lab) == 4 and
                    lab[0] == pol):
                return False
            a = ctx.H.subst(lab[1], lab[2], lab[3])
            for c in ast.walk(a):
                if _kernel_call(ctx, c, lab[2], names):
                    return True
            return False

        def noread_false(lab):
            # `_is_file_no_read(p) is False` taken as not VIRT_IS_FILE
            if not (isinstance(lab, tuple) and len(lab) == 4):
                return False
            a = ctx.H.subst(lab[1], lab[2], lab[3])
            if isinstance(a, ast.Compare) and len(a.ops) == 1 and \
                    isinstance(a.comparators[0], ast.Constant) and \
                    a.comparators[0].value is False and \
                    _kernel_call(ctx, a.left, lab[2], ('_is_file_no_read',)):
                return (isinstance(a.ops[0], ast.Is) and lab[0] == 'T') or \
                    (isinstance(a.ops[0], ast.IsNot) and lab[0] == 'F')
            return False
        for r in raises:
            from ..supergraph import short_exc
            cls = short_exc(prog, m, r.exc if isinstance(r, ast.Raise)
                            else r.value)
            if cls not in ('IsADirectoryError', 'NotADirectoryError',
                           'FileNotFoundError'):
                continue
            n += 1
            nodes = [x for x in sg.nodes if x.kind == 'out' and
                     x.cn.kind in ('raise', 'return') and x.cn.ast is r]
            key = 'raise %s in %s (%s)' % (cls, m.qualname, 'handler'
                                           if nodes and nodes[0].cn.handler_of
                                           is not None else 'branch')

            def in_real_fnf_handler(x):
                h = x.cn.handler_of
                if h is None:
                    return False
                hn = ctx.E.cfgs.get(m).nodes[h]
                return hn.classes is not None and \
                    'FileNotFoundError' in hn.classes
            if cls == 'IsADirectoryError':
                ok_edges = lambda lab: vfact(lab, 'T', ('is_dir',))
                why = 'virtual is_dir'
            elif cls == 'NotADirectoryError':
                ok_edges = lambda lab: vfact(lab, 'T', ('is_file',))
                why = 'virtual is_file'
            else:
                ok_edges = lambda lab: (
                    vfact(lab, 'F', ('is_dir', 'is_file', 'exists')) or
                    noread_false(lab))
                why = 'not (virtual is_file or is_dir), or a real ' \
                    'FileNotFoundError'
            bad = None
            for x in nodes:
                if cls == 'FileNotFoundError' and in_real_fnf_handler(x):
                    continue
                seen = sg.reach([sg.entry],
                                edge_ok=lambda a, b, lab: not ok_edges(lab))
                if x.id in seen:
                    bad = (x, seen)
            if bad:
                rc.violation(
                    'error-class | %s | raise %s%s' % (
                        m.qualname, cls, ' in handler' if
                        bad[0].cn.handler_of is not None else ''),
                    '%s raises %s on a path where the class was not chosen '
                    'by %s: the error class can contradict is_dir/is_file/'
                    'exists' % (m.qualname, cls, why), bad[0].where(),
                    sg.describe_path(sg.witness(bad[1], bad[0].id)),
                    key=key)
            else:
                rc.ok({'raise': cls, 'in': m.qualname, 'justified_by': why},
                      key=key)
    if n < 6:
        raise AnalysisError('only %d OSError-subclass raises in virtual '
                            'queries' % n)


def r4_5(ctx, rc):
    R = ctx.R
    prog = ctx.prog
    C = R.cache
    K = _ex(ctx, '_is_file_no_read')
    sg = ctx.E.super(K, lambda g: False)
    defer = [x for x in sg.nodes if x.kind == 'out' and
             x.cn.kind == 'return' and (
                 x.cn.ast.value is None or (
                     isinstance(x.cn.ast.value, ast.Constant) and
                     x.cn.ast.value.value is None))]
    if not defer:
        raise AnalysisError('the pre-file-system stage never defers')

    def fact(lab, pol, pred):
        return isinstance(lab, tuple) and len(lab) == 4 and \
            lab[0] == pol and pred(lab[1], lab[2], lab[3])

    def is_cachefile_cmp(a, f, cn):
        if isinstance(a, ast.Compare) and len(a.ops) == 1 and isinstance(
                a.ops[0], ast.Eq):
            return any(isinstance(s, ast.Attribute) and 'cache_filename'
                       in s.attr for s in (a.left, a.comparators[0]))
        return _kernel_call(ctx, a, f, ('is_cache_file',)) is not None

    def cache_call(name, role):
        def p(a, f, cn):
            if isinstance(a, ast.Call) and isinstance(
                    a.func, ast.Attribute) and a.func.attr == name:
                return ctx.H.expr_roles(a.func.value, f, cn) == {role}
            return False
        return p

    def unfinished(a, f, cn):
        a = ctx.H.subst(a, f, cn)
        if isinstance(a, ast.Compare) and len(a.ops) == 1 and isinstance(
                a.comparators[0], ast.Constant) and \
                a.comparators[0].value is None:
            return isinstance(a.left, ast.Call) and isinstance(
                a.left.func, ast.Attribute) and \
                a.left.func.attr in ('get_norm_cased_file', 'get_file')
        return False
    checks = [
        ('the cache file is invisible',
         lambda lab: fact(lab, 'F', is_cachefile_cmp)),
        ('a stale output of the previous build is invisible',
         lambda lab: fact(lab, 'F', cache_call(
             'created_norm_cased_file', 'old')) or fact(
                 lab, 'T', cache_call('has_norm_cased_file', 'new'))),
        ('an output is invisible while its function runs',
         lambda lab: fact(lab, 'F', cache_call(
             'has_norm_cased_file', 'new')) or (
                 isinstance(lab, tuple) and len(lab) == 4 and
                 unfinished(lab[1], lab[2], lab[3]) and (
                     (isinstance(ctx.H.subst(lab[1], lab[2], lab[3]).ops[0],
                                 ast.Is) and lab[0] == 'F') or
                     (isinstance(ctx.H.subst(lab[1], lab[2], lab[3]).ops[0],
                                 ast.IsNot) and lab[0] == 'T')))),
    ]
    for what, ok in checks:
        seen = sg.reach([sg.entry],
                        edge_ok=lambda a, b, lab: not ok(lab))
        hit = [x for x in defer if x.id in seen]
        key = 'kernel defers to the real file system only when ' + what
        if hit:
            rc.violation(
                'atomic-appearance | ' + what,
                'the kernel can let the real file system answer for a path '
                'although it has not established that %s' % what,
                hit[0].where(), sg.describe_path(
                    sg.witness(seen, hit[0].id)), key=key)
        else:
            rc.ok({'fact': what}, key=key)
    # is_dir: the real answer True only for directories not virtually removed
    D = _ex(ctx, 'is_dir')
    sgd = ctx.E.super(D, lambda g: False)

    def removed_false(lab):
        return fact(lab, 'F', lambda a, f, cn: isinstance(a, ast.Call) and
                    isinstance(a.func, ast.Attribute) and
                    a.func.attr == 'is_removed_norm_case')

    # the set the overlay's directory predicate looks into (a direct
    # membership test on it is the same question)
    dirs_attr = None
    hd = prog.funcs.get('CreatedFiles.has_norm_cased_dir')
    if hd is not None:
        for r in ast.walk(hd.node):
            if isinstance(r, ast.Return) and isinstance(
                    r.value, ast.Compare) and len(r.value.ops) == 1 and \
                    isinstance(r.value.ops[0], ast.In) and isinstance(
                        r.value.comparators[0], ast.Attribute):
                dirs_attr = r.value.comparators[0].attr

    def overlay_true(lab):
        if fact(lab, 'T', lambda a, f, cn: isinstance(a, ast.Call) and
                isinstance(a.func, ast.Attribute) and
                a.func.attr == 'has_norm_cased_dir'):
            return True
        return dirs_attr is not None and fact(
            lab, 'T', lambda a, f, cn: isinstance(a, ast.Compare) and
            len(a.ops) == 1 and isinstance(a.ops[0], ast.In) and
            isinstance(a.comparators[0], ast.Attribute) and
            a.comparators[0].attr == dirs_attr)
    seen = sgd.reach([sgd.entry], edge_ok=lambda a, b, lab: not (
        removed_false(lab) or overlay_true(lab)))
    key = 'is_dir answers True only for directories not virtually removed'
    if sgd.exits['T'] in seen:
        rc.violation('removed-dir-visible | ' + D.qualname,
                     'is_dir can answer True without having asked whether '
                     'the directory is virtually removed', D.file,
                     sgd.describe_path(sgd.witness(seen, sgd.exits['T'])),
                     key=key)
    else:
        rc.ok({'guard': 'not build_dirs.is_removed_norm_case(dir)'}, key=key)
    # (i) the atomic claim dominates the user callback, (iii) the failure
    # handler removes the target: C08 R8.3a and C10 R10.2
    from .c08 import r8_3
    from .c10 import r10_2
    r8_3(ctx, rc)
    r10_2(ctx, rc)


def r4_6(ctx, rc):
    apply_rules(ctx, rc)


def r4_7(ctx, rc):
    """Knowledge that a directory of the previous build is (maybe) removed
    is never dropped wholesale: outside the constructor the removed sets of
    BuildDirs are only changed element-wise.  (Clearing them when one
    output fails makes every stale directory that was already confirmed
    removed visible again.)"""
    prog = ctx.prog
    sets = ('_removed_dirs', '_maybe_removed_dirs', '_removed_files')
    cls = ctx.R.cls('BuildDirs')
    n = 0
    for m in cls.methods.values():
        if m.name == '__init__':
            continue
        for node in ast.walk(m.node):
            bad = None
            if isinstance(node, ast.Call) and isinstance(
                    node.func, ast.Attribute) and node.func.attr in (
                        'clear', 'difference_update', 'intersection_update')\
                    and isinstance(node.func.value, ast.Attribute) and \
                    node.func.value.attr in sets:
                bad = node.func.value.attr
            if isinstance(node, ast.Assign):
                for t in node.targets:
                    if isinstance(t, ast.Attribute) and t.attr in sets:
                        bad = t.attr
            if bad:
                n += 1
                rc.violation(
                    'removed-set-dropped | %s | %s' % (m.qualname, bad),
                    '%s drops %s wholesale: directories of the previous '
                    'build that were already found to be virtually removed '
                    'become visible again' % (m.qualname, bad),
                    prog.loc(m, node), key='wholesale %s in %s' % (
                        bad, m.qualname))
    for sname in sets:
        if not ctx.H._has_attr_store('BuildDirs', sname):
            raise AnalysisError('BuildDirs.%s vanished' % sname)
    if n == 0:
        rc.ok({'sets': list(sets), 'wholesale_updates': 0},
              key='removed sets only change element-wise')


def r4_11(ctx, rc):
    """The class's own crucial invariant: a directory stays in the removed /
    maybe-removed sets as long as it is reserved (a key of the reservation
    counts) - a later failure can make it disappear again.  Every element-
    wise removal from these sets is therefore dominated by the fact that the
    element is not reserved: a test in the function itself (after the last
    assignment of the variable), or at every call site when the element is
    the function's parameter, or the element is a child of such a parameter
    (the recursive scan of an unreserved directory)."""
    from .refcount import Walk
    prog = ctx.prog
    cls = ctx.R.cls('BuildDirs')
    A = ctx.E.func('BuildDirs.started_building_file')
    Rl = ctx.E.func('BuildDirs.error_building_file')
    cattrs = Walk(ctx, A).counter_attr() & Walk(ctx, Rl).counter_attr()
    if len(cattrs) != 1:
        raise AnalysisError('reservation counter not identified')
    counts = next(iter(cattrs))
    sets = ('_removed_dirs', '_maybe_removed_dirs')

    def unreserved_fact(lab, expr_dump, func):
        if not (isinstance(lab, tuple) and len(lab) == 4):
            return False
        a = lab[1]
        if not (isinstance(a, ast.Compare) and len(a.ops) == 1 and
                isinstance(a.comparators[0], ast.Attribute) and
                a.comparators[0].attr == counts):
            return False
        if lab[2] is not func or ast.dump(a.left) != expr_dump:
            return False
        return (isinstance(a.ops[0], ast.NotIn) and lab[0] == 'T') or \
            (isinstance(a.ops[0], ast.In) and lab[0] == 'F')

    def guarded(m, expr, site_pred):
        """expr is known unreserved at every node satisfying site_pred."""
        sg = ctx.E.super(m, lambda g: False)
        names = {n.id for n in ast.walk(expr) if isinstance(n, ast.Name)}
        starts = [sg.entry] + [
            x.id for x in sg.nodes
            if x.kind == 'out' and set(x.cn.defs) & names]
        d = ast.dump(expr)
        seen = sg.reach(starts, edge_ok=lambda a, b, lab:
                        not unreserved_fact(lab, d, m))
        return not any(site_pred(x) and x.id in seen for x in sg.nodes)

    visiting = set()

    def param_ok(m, pname, depth=0):
        """Every call site passes an unreserved element (a recursion
        through a helper is assumed while it is being established)."""
        if depth > 6:
            return False
        if (m.qualname, pname) in visiting:
            return True
        visiting.add((m.qualname, pname))
        try:
            return _param_ok(m, pname, depth)
        finally:
            visiting.discard((m.qualname, pname))

    def _param_ok(m, pname, depth):
        callers = prog.callers().get(m.qualname, [])
        if not callers:
            return False
        for caller, call in callers:
            a = prog.bind_args(call, m).get(pname)
            if a is None or isinstance(a, list):
                return False
            if guarded(caller, a, lambda x, call=call: x.kind in (
                    'leaf', 'enter') and x.call is call):
                continue
            cn = ctx.H.node_of(caller, call)
            a2 = ctx.H.subst(a, caller, cn[0]) if cn else a
            # a child of the caller's own unreserved parameter
            if isinstance(a2, ast.Call) and ast.unparse(a2.func).endswith(
                    'join') and a2.args and isinstance(
                        a2.args[0], ast.Name) and \
                    a2.args[0].id in caller.params and (
                        caller is m or param_ok(caller, a2.args[0].id,
                                                depth + 1)):
                continue
            if isinstance(a2, ast.Name) and a2.id in caller.params and \
                    caller is not m and param_ok(caller, a2.id, depth + 1):
                continue
            return False
        return True
    n = 0
    for m in cls.methods.values():
        if m.name == '__init__':
            continue
        for call in prog.calls_in(m):
            f = call.func
            if not (isinstance(f, ast.Attribute) and f.attr in (
                    'discard', 'remove', 'pop') and isinstance(
                        f.value, ast.Attribute) and f.value.attr in sets
                    and call.args):
                continue
            n += 1
            x = call.args[0]
            cn0 = ctx.H.node_of(m, call)
            if cn0:
                # through plain copies (``t = parent; s.discard(t)``)
                x = ctx.H.subst(x, m, cn0[0])
            key = '%s.%s(%s) in %s' % (f.value.attr, f.attr,
                                       ast.unparse(x)[:30], m.qualname)
            ok = guarded(m, x, lambda sn, call=call: sn.kind == 'leaf' and
                         sn.call is call)
            if not ok and isinstance(x, ast.Name) and x.id in m.params:
                ok = param_ok(m, x.id)
            if ok:
                rc.ok({'removal': key, 'requires': 'not in .' + counts},
                      key=key)
            else:
                rc.violation(
                    'removed-while-reserved | %s | %s' % (
                        m.qualname, f.value.attr),
                    '%s takes %s out of .%s without having established '
                    'that it is not reserved (not a key of .%s): if the '
                    'outputs reserved below it fail later, the directory '
                    'does not disappear from the view again' % (
                        m.qualname, ast.unparse(x), f.value.attr, counts),
                    prog.loc(m, call), key=key)
    if n < 3:
        raise AnalysisError('only %d removals from the removed sets' % n)
    # sibling sets: where a path is established to exist as a directory
    # (it is taken out of more than one of the "gone" sets at once), it is
    # taken out of all of them - removed directories, maybe-removed
    # directories and removed files: an entry left in one of them keeps
    # answering "gone" for a directory that is there
    NEG = ('_removed_dirs', '_maybe_removed_dirs', '_removed_files')
    k = 0
    for m in cls.methods.values():
        if m.name == '__init__':
            continue
        by_arg = {}
        for call in prog.calls_in(m):
            f = call.func
            if isinstance(f, ast.Attribute) and f.attr == 'discard' and \
                    isinstance(f.value, ast.Attribute) and \
                    f.value.attr in NEG and call.args:
                cn0 = ctx.H.node_of(m, call)
                x = ctx.H.subst(call.args[0], m, cn0[0]) if cn0 else \
                    call.args[0]
                by_arg.setdefault(ast.dump(x), (x, set(), call))[1].add(
                    f.value.attr)
        for x, attrs, call in by_arg.values():
            if len(attrs) < 2 and not any(
                    isinstance(c.func, ast.Attribute) and
                    c.func.attr == 'add' and isinstance(
                        c.func.value, ast.Attribute) and
                    c.func.value.attr == '_exists_dirs'
                    for c in prog.calls_in(m)):
                continue
            k += 1
            key = '%s forgets %s in all of the gone-sets' % (
                m.qualname, ast.unparse(x)[:30])
            if attrs >= set(NEG):
                rc.ok({'function': m.qualname, 'sets': sorted(attrs)},
                      key=key)
            else:
                rc.violation(
                    'exists-not-forgotten | ' + m.qualname,
                    '%s establishes that %s exists but takes it out of %s '
                    'only, not of %s: the view keeps answering "removed" '
                    'for a directory that exists' % (
                        m.qualname, ast.unparse(x)[:30], sorted(attrs),
                        sorted(set(NEG) - attrs)),
                    prog.loc(m, call), key=key)
    if k == 0:
        raise AnalysisError('no function establishing that a directory '
                            'exists found in BuildDirs')


def _removed_scan(ctx):
    """(query, memo attribute, scan function) of the removed-directory
    query of BuildDirs."""
    from ..astpaths import cond_paths
    prog = ctx.prog
    Qf = ctx.E.func('BuildDirs.is_removed_norm_case')
    memo = scan = None
    rets = {r.value.id for r in ast.walk(Qf.node)
            if isinstance(r, ast.Return) and isinstance(r.value, ast.Name)}
    for conds, st0 in cond_paths(Qf.node.body):
        st = st0
        if isinstance(st, ast.Assign) and len(st.targets) == 1 and \
                isinstance(st.targets[0], ast.Name) and \
                st.targets[0].id in rets:
            st = ast.Return(value=st.value)
        if not isinstance(st, ast.Return) or st.value is None:
            continue
        if isinstance(st.value, ast.Constant) and st.value.value is True:
            for t, pol in conds:
                if pol and isinstance(t, ast.Compare) and len(t.ops) == 1 \
                        and isinstance(t.ops[0], ast.In) and isinstance(
                            t.comparators[0], ast.Attribute):
                    memo = t.comparators[0].attr
        elif isinstance(st.value, ast.Compare) and len(
                st.value.ops) == 1 and isinstance(
                    st.value.ops[0], ast.In) and isinstance(
                    st.value.comparators[0], ast.Attribute):
            # ``return d in self._removed`` answers True exactly for members
            memo = memo or st.value.comparators[0].attr
        elif isinstance(st.value, ast.Call):
            for g in prog.resolve_call(st.value, Qf):
                if isinstance(g, Func) and g.cls == Qf.cls:
                    scan = g
    if memo is None or scan is None:
        raise AnalysisError('removed-directory memo / scan not identified '
                            'in ' + Qf.qualname)
    return Qf, memo, scan


def r4_12(ctx, rc):
    """A directory the real file system does not have (FileNotFoundError
    from the listing in the scan) is answered "removed", never "present":
    nothing of this build is there, and the caller must re-create and
    re-record it."""
    Qf, memo, scan = _removed_scan(ctx)
    sg = ctx.helpers_graph(scan)
    lst = [x for x in sg.nodes if x.kind == 'leaf' and
           callee_name(x) in ('os.listdir', 'os.scandir')]
    if not lst:
        raise AnalysisError('the scan %s lists no directory' %
                            scan.qualname)
    key = 'a vanished directory is answered "removed"'
    bad = None
    covers = {'FileNotFoundError', 'OSError', 'EnvironmentError', 'IOError',
              'Exception', 'BaseException'}
    for x in lst:
        # the handler that receives FileNotFoundError from this listing:
        # the first matching handler of the innermost enclosing try
        node = x.call
        hnd = None
        while node is not None and hnd is None:
            par = ctx.prog.parent(node)
            if isinstance(par, ast.Try) and any(
                    node is b or any(node is y for y in ast.walk(b))
                    for b in par.body):
                for h in par.handlers:
                    names = ['BaseException'] if h.type is None else [
                        ast.unparse(t).split('.')[-1] for t in (
                            h.type.elts if isinstance(h.type, ast.Tuple)
                            else [h.type])]
                    if set(names) & covers:
                        hnd = h
                        break
            node = par
        if hnd is None:
            continue          # propagates: the scan raises, no verdict
        starts = [y.id for y in sg.nodes if y.kind == 'in' and
                  y.cn.kind == 'handler' and y.cn.ast is hnd]
        if not starts:
            raise AnalysisError('handler of the listing not in the graph')
        seen = sg.reach(starts)
        if sg.exits['F'] in seen:
            bad = (x, sg.witness(seen, sg.exits['F']))
    if bad:
        rc.violation(
            'vanished-dir-present | ' + scan.qualname,
            '%s can answer "present" for a directory whose listing raised '
            'FileNotFoundError: a directory of the previous build that was '
            'deleted externally is treated as existing (queries disagree '
            'with the real tree; the next build does not re-create and '
            're-record it, so clean leaves its parent behind)' %
            scan.qualname, bad[0].where(), sg.describe_path(bad[1]),
            key=key)
    else:
        rc.ok({'scan': scan.qualname, 'on': 'FileNotFoundError',
               'answer': 'removed'}, key=key)


def r4_8(ctx, rc):
    from .refcount import refcount_rule
    refcount_rule(ctx, rc, 'BuildDirs.started_building_file',
                  'BuildDirs.error_building_file')


def r4_9(ctx, rc):
    """A directory whose outputs all failed disappears from the view only
    if somebody owns it (R9.6)."""
    from .c09 import r9_6
    r9_6(ctx, rc)


def memo_first(ctx, rc, Qf, memo, scan):
    """The query consults the memo of confirmed removals before it scans: a
    directory that is in both sets (confirmed removed earlier, queued again
    by a later failed output) must not be scanned again - the scan would
    judge it by whatever a failed set-up left on disk."""
    sg = ctx.E.super(Qf, lambda g: False)

    def not_in_memo(lab):
        if not (isinstance(lab, tuple) and len(lab) == 4 and
                lab[0] in ('T', 'F')):
            return False
        a = lab[1]
        if not (isinstance(a, ast.Compare) and len(a.ops) == 1 and
                isinstance(a.ops[0], (ast.In, ast.NotIn)) and isinstance(
                    a.comparators[0], ast.Attribute) and
                a.comparators[0].attr == memo):
            return False
        return (lab[0] == 'F') == isinstance(a.ops[0], ast.In)
    seen = sg.reach([sg.entry], edge_ok=lambda a, b, lab:
                    not not_in_memo(lab))
    hit = [x for x in sg.nodes if Q.is_call(x, scan.qualname) and
           x.id in seen]
    key = '%s asks .%s before scanning' % (Qf.qualname, memo)
    if hit:
        rc.violation(
            'scan-before-memo | ' + Qf.qualname,
            '%s can scan a directory without having found it absent from '
            '.%s: a directory already confirmed removed is judged again by '
            'what is on disk (a stale output left by a failed set-up makes '
            'it "present": the view, the recorded directories and clean '
            'disagree)' % (Qf.qualname, memo), hit[0].where(),
            sg.describe_path(sg.witness(seen, hit[0].id)), key=key)
    else:
        rc.ok({'query': Qf.qualname, 'memo': memo, 'order': 'memo first'},
              key=key)


def r4_10(ctx, rc):
    """Verdict/memo agreement of the removed-directory scan: the scan takes
    the directory out of the "maybe removed" set, so its answer is only
    stable if "removed" is memoised in the set the query consults first - a
    True that is not recorded is answered False by the next query for the
    same path (two queries disagree)."""
    prog = ctx.prog
    Qf, memo, scan = _removed_scan(ctx)
    memo_first(ctx, rc, Qf, memo, scan)
    sg = ctx.E.super(scan, lambda g: False)
    p = scan.params[0] if scan.params else None

    def records(x):
        if x.kind != 'ret' or x.call is None:
            return False
        f = x.call.func
        return (isinstance(f, ast.Attribute) and f.attr == 'add' and
                isinstance(f.value, ast.Attribute) and f.value.attr == memo
                and x.call.args and isinstance(x.call.args[0], ast.Name) and
                x.call.args[0].id == p)
    w = Q.first_unguarded(sg, [sg.entry], records,
                          lambda x: x.id == sg.exits['T'])
    key = 'scan verdict "removed" is memoised in .%s' % memo
    if w:
        rc.violation(
            'verdict-not-memoised | ' + scan.qualname,
            '%s can answer "removed" without recording the directory in '
            '.%s: it has left the maybe-removed set, so the next query for '
            'the same path answers "present" (exists/is_dir/list_dir '
            'disagree with each other and with later calls)' % (
                scan.qualname, memo), prog.loc(scan, scan.node),
            sg.describe_path(w), key=key)
    else:
        rc.ok({'scan': scan.qualname, 'memo': memo}, key=key)


def r4_13(ctx, rc):
    """Every record nested in a reused subtree is registered in the new
    cache (R8.2b): an output that is not registered is invisible to every
    query although its directory is reserved, and is deleted at commit."""
    from .c08 import r8_2b
    r8_2b(ctx, rc)
    # ... and every record reaches the cache file (R16.5, R16.6): an output
    # the next build does not know as the previous build's is shown as an
    # ordinary existing file and never removed
    from .c16 import r16_5, r16_6
    r16_5(ctx, rc)
    r16_6(ctx, rc)


RULES = [
    ('R4.1', 'exists == is_file or is_dir (abstract evaluation)', r4_1),
    ('R4.2', 'one kernel decides the type of a path', r4_2),
    ('R4.3', 'listings are filtered by the kernel', r4_3),
    ('R4.4', 'error classes are chosen by virtual predicates', r4_4),
    ('R4.5', 'atomic appearance of outputs', r4_5),
    ('R4.6', 'reused subtrees reserve only successful outputs', r4_6),
    ('R4.7', 'removed-directory knowledge is never dropped wholesale', r4_7),
    ('R4.8', 'release walk is the inverse of the reserve walk', r4_8),
    ('R4.9', 'a concurrently created directory keeps an owner', r4_9),
    ('R4.10', 'a "removed" verdict of the directory scan is memoised',
     r4_10),
    ('R4.11', 'removed-knowledge is dropped only for unreserved dirs',
     r4_11),
    ('R4.12', 'a vanished directory is answered "removed"', r4_12),
    ('R4.13', 'a reused subtree registers every nested record (R8.2b)',
     r4_13),
]
