"""C17 - finished builders are fenced off."""
import ast

from ..model import Func, AnalysisError
from ..effects import DESTROY, CREATE, USER, UNKNOWN
from ..supergraph import callee_name
from .. import queries as Q
from . import locks as L
from .guards import guards

from . import perform_names
EXPLANATION = (
    'R17.1: on the inlined graph of every public instance method the fence '
    '(_assert_not_finished) is passed before the first state-changing action '
    '(executor call, cache/BuildDirs/backup mutation, FS_DESTROY/FS_CREATE '
    'primitive, user callback). R17.2: a builder closes its own record only '
    'under its lock, on every path after the user callback and before the '
    'record is registered. R17.3: the appender stores into suboperations '
    'under the same lock, after re-checking the fence inside that critical '
    'section, and nothing else appends. R17.4: a child record is closed '
    'before it is appended. R17.5: the root flag is set before the created-'
    'directory set is assembled, before the cache is written and before a '
    'rollback, and in a finally of the entry point. Decides that the fence '
    'exists on every method and is atomic with the append; a straggler that '
    'passed the fence earlier keeps running its effects (not decided).')
# round 3/4 additions
EXPLANATION += (
    ' R17.1 counts the fence only when it is evaluated on the object the public method was called on.')

FENCE = '_assert_not_finished'
APPENDER = '_append_suboperation'


def _graph(ctx, F):
    R = ctx.R
    G = guards(ctx)
    stop = G.opaque

    def inline(g):
        return g.cls == R.builder and g not in stop
    return ctx.E.super(F, inline)


def _state_changing(ctx, sn):
    R = ctx.R
    if sn.kind != 'leaf':
        return False
    c = sn.callee
    if isinstance(c, Func):
        if c.is_ctor_call:
            return False
        if c.cls == R.executor:
            return True
        if c.cls in ('BuildDirs', 'FileBackups'):
            return True
        if c.cls == R.cache:
            from .c09 import mutators
            if 'mutators' not in ctx.memo:
                ctx.memo['mutators'] = mutators(ctx)
            return c.qualname in ctx.memo['mutators']
        if c.cls == R.builder:
            return ctx.E.eff.has_effect(c)
        return False
    k, _ = ctx.E.eff.classify(c, sn.call, sn.func)
    return k in (DESTROY, CREATE, USER, UNKNOWN)


def _on_api_receiver(sn):
    """The call at ``sn`` is made on the object the public method was
    called on: its receiver is the frame's ``self`` and every enclosing
    inlined frame was entered through ``self`` as well (a fence evaluated on
    a freshly created sub-builder says nothing about the caller's
    builder)."""
    def recv_is_self(call, func):
        f = call.func
        return isinstance(f, ast.Attribute) and isinstance(
            f.value, ast.Name) and f.value.id == func.self_name
    if sn.call is None or not recv_is_self(sn.call, sn.func):
        return False
    fr = sn.frame
    while fr.parent is not None:
        site = fr.site
        if site is None or site.call is None or not recv_is_self(
                site.call, site.func):
            return False
        fr = fr.parent
    return True


def r17_1(ctx, rc):
    R = ctx.R
    fence = R.builder + '.' + FENCE
    ctx.E.func(fence)
    n = 0
    for F in R.public_instance_methods:
        sg = _graph(ctx, F)
        acts = [x for x in sg.nodes if _state_changing(ctx, x)]
        if not acts:
            raise AnalysisError('no state-changing action in ' + F.qualname)
        w = Q.first_unguarded(
            sg, [sg.entry],
            lambda x: Q.is_done(x, fence) and _on_api_receiver(x),
            lambda x: _state_changing(ctx, x))
        n += 1
        key = 'fence in ' + F.qualname
        if w:
            a = sg.nodes[w[-1]]
            rc.violation(
                'unfenced | %s | first action %s' % (
                    F.qualname, callee_name(a)),
                'public method %s can reach the state-changing action %s '
                'without passing the finished-fence' % (
                    F.qualname, callee_name(a)), a.where(),
                sg.describe_path(w), key=key)
        else:
            rc.ok({'method': F.qualname, 'actions': len(acts)}, key=key)
    if n < 10:
        raise AnalysisError('only %d public instance methods' % n)


def _is_close_store(ctx, sn, own=True):
    """out-node of ``X.is_finished = True``; own: X aliases self._operation."""
    if sn.kind != 'out' or sn.cn.kind != 'stmt' or \
            not isinstance(sn.cn.ast, ast.Assign):
        return False
    st = sn.cn.ast
    if not (isinstance(st.value, ast.Constant) and st.value.value is True):
        return False
    for t in st.targets:
        if isinstance(t, ast.Attribute) and t.attr == 'is_finished':
            base = ctx.H.subst_frames(t.value, sn)
            is_own = isinstance(base, ast.Attribute) and \
                base.attr == '_operation'
            if is_own == own:
                return True
    return False


def r17_2(ctx, rc):
    R = ctx.R
    lock = R.builder_lock
    # (a) every close of the builder's own record is under its lock
    n = 0
    for f in ctx.prog.funcs.values():
        if f.cls != R.builder:
            continue
        cfg = ctx.E.cfgs.get(f)
        for cn in cfg.nodes:
            if cn.kind != 'stmt' or not isinstance(cn.ast, ast.Assign):
                continue
            for t in cn.ast.targets:
                if isinstance(t, ast.Attribute) and t.attr == 'is_finished':
                    base = ctx.H.subst_callers(t.value, f, cn)
                    if not (isinstance(base, ast.Attribute) and
                            base.attr == '_operation'):
                        continue
                    n += 1
                    key = 'close of own record in %s' % f.qualname
                    if lock not in ctx.H.syntactic_locks(cn, f):
                        rc.violation(
                            'close-unlocked | ' + f.qualname,
                            'the builder closes its own record outside its '
                            'lock (an append racing with the close can be '
                            'lost or attached to a closed record)',
                            ctx.prog.loc(f, cn.ast), key=key)
                    else:
                        rc.ok({'close': key}, key=key + str(cn.lineno))
    if n < 1:
        raise AnalysisError('no close of the own record found')
    # (b) after the user callback, close happens on every path and before
    # the record is registered
    for fname, reg in (('_rebuild_file', 'finish_building_file'),
                       ('_subbuild', 'finish_subbuild')):
        F = R.builder_f(fname)
        sg = _graph(ctx, F)
        users = [x.id for x in sg.nodes
                 if x.kind == 'leaf' and x.callee == 'USER']
        if not users:
            raise AnalysisError('no user callback in ' + F.qualname)
        close = lambda x: _is_close_store(ctx, x, True)
        w = Q.first_unguarded(sg, users, close,
                              lambda x: x.id in sg.all_exits())
        key = '%s: close after USER on every exit' % F.qualname
        if w:
            rc.violation('close-missing | ' + key,
                         'after the user function a path leaves %s without '
                         'closing the record under the lock' % F.qualname,
                         sg.nodes[w[-1]].where(), sg.describe_path(w),
                         key=key)
        else:
            rc.ok({'order': key}, key=key)
        regq = R.cache + '.' + reg
        w = Q.first_unguarded(sg, users, close,
                              lambda x: Q.is_call(x, regq))
        key = '%s: close before %s' % (F.qualname, reg)
        if w:
            rc.violation('register-before-close | ' + key,
                         'the record is registered in the new cache before '
                         'it is closed', sg.nodes[w[-1]].where(),
                         sg.describe_path(w), key=key)
        else:
            rc.ok({'order': key}, key=key)


def _is_append(sn):
    """leaf call X.suboperations.append/extend/insert(...)"""
    if sn.kind != 'leaf' or sn.call is None:
        return False
    f = sn.call.func
    return (isinstance(f, ast.Attribute) and
            f.attr in ('append', 'extend', 'insert') and
            isinstance(f.value, ast.Attribute) and
            f.value.attr == 'suboperations')


def r17_3(ctx, rc):
    R = ctx.R
    A = R.builder_f(APPENDER)
    fence = R.builder + '.' + FENCE
    lock = R.builder_lock
    sg = ctx.E.super(A, lambda g: g.qualname == fence)
    apps = [x for x in sg.nodes if _is_append(x)]
    if not apps:
        raise AnalysisError('no append to suboperations in ' + A.qualname)
    for a in apps:
        key = 'append in ' + A.qualname
        items = [it for it, f in sg.with_items(a) if f == A]
        region = [it for it in items if ctx.H.lock_of_item(it, A) == lock]
        if not region:
            rc.violation('append-unlocked | ' + A.qualname,
                         'suboperations is appended to without the '
                         'builder lock', a.where(), key=key)
            continue
        rid = {id(it) for it in region}

        def guard(x):
            if not Q.is_done(x, fence):
                return False
            inside = {id(it) for it, f in sg.with_items(x) if f == A}
            return rid <= inside
        w = Q.first_unguarded(sg, [sg.entry], guard,
                              lambda x: x.id == a.id)
        if w:
            rc.violation(
                'append-unchecked | ' + A.qualname,
                'the append is not preceded, inside the same critical '
                'section, by a re-check of the finished flag (a straggler '
                'that passed the entry fence can append to a closed record)',
                a.where(), sg.describe_path(w), key=key)
        else:
            rc.ok({'append': key, 'lock': lock[1]}, key=key)
    # nobody else appends
    n = 0
    for f in ctx.prog.funcs.values():
        if f.qualname == A.qualname or f.cls in R.record_classes:
            continue
        for call in ctx.prog.calls_in(f):
            fn = call.func
            if (isinstance(fn, ast.Attribute) and
                    fn.attr in ('append', 'extend', 'insert') and
                    isinstance(fn.value, ast.Attribute) and
                    fn.value.attr == 'suboperations'):
                n += 1
                rc.violation('foreign-append | ' + f.qualname,
                             'suboperations is appended to outside the '
                             'appender', ctx.prog.loc(f, call),
                             key='foreign append in ' + f.qualname)
    if n == 0:
        rc.ok({'foreign_appends': 0}, key='no foreign append')


def r17_4(ctx, rc):
    R = ctx.R
    app = R.builder + '.' + APPENDER
    n = 0
    from .c01 import recording_functions
    for F in recording_functions(ctx):
        sg = ctx.helpers_graph(F, stop=perform_names(ctx))
        if not any(x.kind == 'leaf' and isinstance(x.callee, Func) and
                   ctx.E.eff.has_effect(x.callee, (
                       'FS_READ', 'FS_PROBE', 'FS_DESTROY', 'FS_CREATE',
                       'USER')) for x in sg.nodes):
            continue          # a mere wrapper around the appender
        n += 1
        w = Q.first_unguarded(
            sg, [sg.entry], lambda x: _is_close_store(ctx, x, False),
            lambda x: Q.is_call(x, app))
        key = '%s: child closed before it is appended' % F.qualname
        if w:
            rc.violation('append-open-child | ' + F.qualname,
                         'a record can be appended to its parent before it '
                         'is marked finished', sg.nodes[w[-1]].where(),
                         sg.describe_path(w), key=key)
        else:
            rc.ok({'order': key}, key=key)
    if n < 3:
        raise AnalysisError('only %d callers of the appender' % n)
    # every started operation is appended on every exit
    from .c01 import r1_2
    r1_2(ctx, rc)


def _flag_store(sn):
    if sn.kind != 'out' or sn.cn.kind != 'stmt' or \
            not isinstance(sn.cn.ast, ast.Assign):
        return False
    st = sn.cn.ast
    return (isinstance(st.value, ast.Constant) and st.value.value is True and
            any(isinstance(t, ast.Attribute) and
                t.attr == '_is_finished_build' for t in st.targets))


def r17_5(ctx, rc):
    R = ctx.R
    root = R.root_runner()
    sg = ctx.helpers_graph(root, stop=(R.builder + '._commit',
                                      R.builder + '._roll_back',
                                      R.builder + '._set_created_dirs'))
    targets = [R.builder + '._set_created_dirs', R.cache + '.write',
               R.builder + '._roll_back', R.builder + '._commit']
    for t in targets:
        ctx.E.func(t)
        w = Q.first_unguarded(sg, [sg.entry], _flag_store,
                              lambda x, t=t: Q.is_call(x, t))
        key = '%s: root flag set before %s' % (root.qualname, t)
        if w:
            rc.violation(
                'root-open | ' + key,
                'the root builder is still usable when %s runs (a straggler '
                'can add outputs that are missing from the cache being '
                'written / rolled back)' % t, sg.nodes[w[-1]].where(),
                sg.describe_path(w), key=key)
        else:
            rc.ok({'order': key}, key=key)
    # the entry point sets the flag on every exit after running the build
    for ep in R.public_static_methods:
        sgp = ctx.helpers_graph(ep, stop=(root.qualname,))
        starts = [x.id for x in sgp.nodes
                  if Q.is_call(x, root.qualname)]
        if not starts:
            continue
        w = Q.first_unguarded(sgp, starts, _flag_store,
                              lambda x: x.id in sgp.all_exits())
        key = '%s: root flag set on every exit' % ep.qualname
        if w:
            rc.violation('root-flag-exit | ' + key,
                         'the entry point can return or raise without '
                         'closing the root builder', ep.file,
                         sgp.describe_path(w), key=key)
        else:
            rc.ok({'finally': key}, key=key)


RULES = [
    ('R17.1', 'fence before the first state-changing action', r17_1),
    ('R17.2', 'a builder closes its record under its lock', r17_2),
    ('R17.3', 'append re-checks the fence under the same lock', r17_3),
    ('R17.4', 'a child record is closed before it is appended', r17_4),
    ('R17.5', 'the root builder is closed before assembly/rollback', r17_5),
]
