"""C01 - cache transparency: stale results are never served."""
import ast

from ..model import Func, AnalysisError
from ..effects import READ, PROBE, DESTROY, CREATE
from ..supergraph import callee_name
from .. import queries as Q
from .guards import guards
from .apply_rules import apply_rules

from . import perform_names
EXPLANATION = (
    'Decides the clause "stale results are never served", reduced to: the '
    'decision to reuse is taken only after every one of name, arguments, '
    'version, output integrity and every recorded observation has been '
    'compared (R1.4, the whole guard table, must-pass-through on inlined '
    'CFGs), plus the structural preconditions without which that comparison '
    'is meaningless: the API, the recorder and the replayer agree on the '
    'registry of query names and arities (R1.1); every observation is '
    'recorded on every exit and nothing observes behind the recorder\'s '
    'back (R1.2); every dispatch over record kinds is exhaustive and the '
    'replay propagates a refusal (R1.3); what is reused is re-registered '
    '(R1.5, apply rules); commit is reached on success (R1.6); what was '
    'recorded is what is read back (R1.7 = R16.1/R16.2); error classes of '
    'queries come from the virtual view (R1.8 = R4.4). That the replay\'s '
    'virtual answers equal the from-scratch answers for every history '
    '(contents of BuildDirs/CreatedFiles) is not decided.')
# round 3/4 additions
EXPLANATION += (
    " R1.10: the replay overlay's bookkeeping is inverse (R5.8), records are not aliased with user-visible objects (R11.1), and the comparisons are JSON equality with its structural rules (R18.3/R18.5). R1.5 also requires the cached suboperations to be copied before the registration that walks them.")


def _api_records(ctx):
    """(method, call, name literal, arg list) for every simple record
    constructed in a public method - directly, or by a private builder helper
    the method hands the name and the arguments to (then ``call`` is the
    method's call of the helper and name / list are expressed in the
    method's terms)."""
    R = ctx.R
    prog = ctx.prog
    out = []

    def simple_ctor_calls(F):
        for call in prog.calls_in(F):
            for g in prog.resolve_call(call, F):
                if isinstance(g, Func) and g.is_ctor_call and \
                        g.cls_for_ctor in R.record_classes and \
                        'suboperations' not in R.record_fields[
                            g.cls_for_ctor]:
                    b = prog.bind_args(call, g)
                    init = prog.lookup_method(g.cls_for_ctor, '__init__')
                    ps = init.params if init is not None else []
                    nm = b.get(ps[0]) if ps else None
                    lst = b.get(ps[1]) if len(ps) > 1 else None
                    yield call, nm, lst
    for F in R.public_instance_methods:
        for call, nm, lst in simple_ctor_calls(F):
            out.append((F, call, nm, lst))
    for Hf in prog.funcs.values():
        if Hf.cls != R.builder or Hf.is_public or not Hf.has_self:
            continue
        for call, nm, lst in simple_ctor_calls(Hf):
            cn = ctx.H.node_of(Hf, call)[0]
            nm_s = ctx.H.subst(nm, Hf, cn) if nm is not None else None
            lst_s = ctx.H.subst(lst, Hf, cn) if lst is not None else None
            if not (isinstance(nm_s, ast.Constant) or (
                    isinstance(nm_s, ast.Name) and nm_s.id in Hf.params)):
                continue          # not a per-query helper
            for F, c2 in prog.callers().get(Hf.qualname, []):
                if F not in R.public_instance_methods:
                    continue
                b = prog.bind_args(c2, Hf)
                nm2 = nm_s if isinstance(nm_s, ast.Constant) else \
                    b.get(nm_s.id)
                elts = _expand_list(lst_s, Hf, b)
                if elts is None:
                    raise AnalysisError(
                        'the argument list built by %s is not a list '
                        'expression over its parameters' % Hf.qualname)
                lst2 = ast.List(elts=elts, ctx=ast.Load())
                ast.copy_location(lst2, c2)
                out.append((F, c2, nm2, lst2))
    return out


def _replace_params(e, binding):
    class T(ast.NodeTransformer):
        def visit_Name(self, n):
            a = binding.get(n.id)
            if isinstance(a, ast.AST) and isinstance(n.ctx, ast.Load):
                return a
            return n
    import copy
    return T().visit(copy.deepcopy(e))


def _expand_list(e, Hf, binding):
    """Elements of a list expression over the helper's parameters, in the
    caller's terms; None when the shape is not a list display / ``+`` /
    ``list(*args)`` combination."""
    va = Hf.vararg

    def var_items(x):
        if isinstance(x, ast.Name) and va and x.id == va:
            return list(binding.get('*' + va, []))
        return None
    if isinstance(e, (ast.List, ast.Tuple)):
        out = []
        for x in e.elts:
            if isinstance(x, ast.Starred):
                vi = var_items(x.value)
                if vi is None:
                    return None
                out.extend(vi)
            else:
                out.append(_replace_params(x, binding))
        return out
    if isinstance(e, ast.BinOp) and isinstance(e.op, ast.Add):
        l = _expand_list(e.left, Hf, binding)
        r = _expand_list(e.right, Hf, binding)
        return None if l is None or r is None else l + r
    if isinstance(e, ast.Call) and isinstance(e.func, ast.Name) and \
            e.func.id in ('list', 'tuple') and len(e.args) == 1:
        vi = var_items(e.args[0])
        if vi is not None:
            return vi
        return _expand_list(e.args[0], Hf, binding)
    vi = var_items(e)
    return vi


def r1_1(ctx, rc):
    R = ctx.R
    prog = ctx.prog
    ex = R.executor
    recs = _api_records(ctx)
    if len(recs) < 8:
        raise AnalysisError('only %d recorded queries in the API' % len(recs))
    api_names = set()
    for F, call, nm, lst in recs:
        key = 'query recorded in ' + F.qualname
        if not (isinstance(nm, ast.Constant) and isinstance(nm.value, str)
                and isinstance(lst, ast.List)):
            rc.violation('registry-shape | ' + F.qualname,
                         'a recorded query is not built from a literal name '
                         'and an argument list', prog.loc(F, call), key=key)
            continue
        api_names.add(nm.value)
        m = prog.lookup_method(ex, nm.value)
        if m is None:
            rc.violation('registry-unknown | ' + nm.value,
                         'the API records query %r but the executor has no '
                         'such operation' % nm.value, prog.loc(F, call),
                         key=key)
            continue
        want = len(lst.elts) + 1
        last = m.params[-1] if m.params else None
        dflt = m.defaults.get(last)
        ok = len(m.params) == want and isinstance(dflt, ast.Constant) and \
            dflt.value is None and 'CreatedFiles' in prog.param_types.get(
                (m.qualname, last), {'CreatedFiles'})
        if ok:
            rc.ok({'query': nm.value, 'arity': want - 1, 'in': F.qualname},
                  key=key)
        else:
            rc.violation(
                'registry-arity | %s | %s' % (F.qualname, nm.value),
                'query %r is recorded with %d arguments but the executor '
                'operation takes %s (+ overlay defaulting to None)' % (
                    nm.value, len(lst.elts), m.params), prog.loc(F, call),
                key=key)
    ops = prog.operations_names(ex) or set()
    key = 'API names == OPERATIONS'
    if api_names != ops:
        rc.violation('registry-sets | api-vs-operations',
                     'the API records %s but OPERATIONS is %s: a name '
                     'recorded and not replayable makes every enclosing '
                     'record a permanent miss (or raises ValueError inside '
                     'a build)' % (sorted(api_names), sorted(ops)),
                     R.cls(ex).module, key=key)
    else:
        rc.ok({'names': sorted(ops)}, key=key)
    # recording call and replaying call pass the record's own name and args
    execq = ex + '.exec'
    E0 = ctx.E.func(execq)
    # exec itself, and executor methods that hand their own parameters on to
    # it (``exec_and_capture(name, args, created_files)``): callee ->
    # (name param, args param, overlay param)
    execlike = {execq: tuple(E0.params[:3])}
    record_mode = len(E0.params) == 2 and {'name', 'args'} <= {
        n.attr for n in ast.walk(E0.node) if isinstance(n, ast.Attribute)
        and isinstance(n.value, ast.Name) and n.value.id == E0.params[0]}
    if record_mode:
        # exec(record, overlay): the executor reads the record's own name
        # and args itself
        execlike = {execq: (E0.params[0], None, E0.params[1])}
    for g in prog.funcs.values():
        if g.cls != ex or g.qualname == execq:
            continue
        for c in prog.calls_in(g):
            if any(isinstance(h, Func) and h.qualname == execq
                   for h in prog.resolve_call(c, g)):
                b0 = prog.bind_args(c, E0)
                ps = []
                for p in E0.params[:3]:
                    a0 = b0.get(p)
                    ps.append(a0.id if isinstance(a0, ast.Name) and
                              a0.id in g.params else None)
                if ps[0] and ps[1]:
                    execlike[g.qualname] = tuple(ps)
    n = 0
    for f in prog.funcs.values():
        if f.cls != R.builder:
            continue
        for call in prog.calls_in(f):
            for g in prog.resolve_call(call, f):
                if not (isinstance(g, Func) and g.qualname in execlike):
                    continue
                n += 1
                cn = ctx.H.node_of(f, call)[0]
                b1 = prog.bind_args(call, g)
                pn, pa, po = execlike[g.qualname]
                raw = [b1.get(pn), b1.get(pa) if pa else None,
                       b1.get(po) if po else None]
                a = [ctx.H.subst_callers(x, f, cn)
                     if isinstance(x, ast.AST) else None for x in raw[:2]]
                key = 'exec call in ' + f.qualname
                if pa is None:
                    # the record itself is handed over
                    ts = set(prog.type_of(raw[0], f)) if isinstance(
                        raw[0], ast.AST) else set()
                    if isinstance(raw[0], ast.Name):
                        ts |= set(prog.param_types.get(
                            (f.qualname, raw[0].id), ()))
                    ok = bool(ts) and ts <= set(R.record_classes)
                    if not ts and isinstance(raw[0], ast.Name):
                        # untyped parameter (an element of .suboperations):
                        # used as a simple-operation record in f
                        used = {n.attr for n in ast.walk(f.node)
                                if isinstance(n, ast.Attribute) and
                                isinstance(n.value, ast.Name) and
                                n.value.id == raw[0].id}
                        ok = bool(used) and used <= set(
                            R.record_fields.get('SimpleOperation', ()))
                else:
                    ok = all(x is not None for x in a) and isinstance(
                        a[0], ast.Attribute) and \
                        a[0].attr == 'name' and isinstance(
                            a[1], ast.Attribute) and \
                        a[1].attr == 'args' and \
                        ast.dump(a[0].value) == ast.dump(a[1].value)
                ov = raw[2]
                if ov is None and po is not None:
                    ov = g.defaults.get(po)     # parameter left at default
                if ok:
                    is_rec = ov is None or (isinstance(ov, ast.Constant) and
                                            ov.value is None)
                    is_rep = isinstance(ov, ast.Name) and \
                        'CreatedFiles' in prog.param_types.get(
                            (f.qualname, ov.id), ())
                    ok = is_rec or is_rep
                if ok:
                    rc.ok({'site': f.qualname, 'overlay': ast.unparse(ov)
                           if isinstance(ov, ast.AST) else 'None'}, key=key)
                else:
                    rc.violation(
                        'exec-args | ' + f.qualname,
                        'the executor is not called with the record\'s own '
                        '(name, args) and None / the replay overlay',
                        prog.loc(f, call), key=key)
    if n < 2:
        raise AnalysisError('recording/replaying exec calls not found')


def recording_functions(ctx):
    """Builder functions that reach the appender through their own private
    helpers (not through the runners that execute nested operations)."""
    R = ctx.R
    prog = ctx.prog
    app = R.builder + '._append_suboperation'
    stop = set(perform_names(ctx))
    reach = {app}
    changed = True
    while changed:
        changed = False
        for f in prog.funcs.values():
            if f.cls != R.builder or f.qualname in reach or \
                    f.qualname in stop:
                continue
            for c in prog.calls_in(f):
                for g in prog.resolve_call(c, f):
                    if isinstance(g, Func) and g.qualname in reach and \
                            g.qualname not in stop and (
                                not g.is_public or g.qualname == app):
                        reach.add(f.qualname)
                        changed = True
    return [prog.funcs[q] for q in sorted(reach) if q != app]


def r1_2(ctx, rc):
    R = ctx.R
    prog = ctx.prog
    app = R.builder + '._append_suboperation'
    ctx.E.func(app)
    FS = {READ, PROBE, DESTROY, CREATE, 'USER'}
    n = 0
    for F in recording_functions(ctx):
        sg = ctx.helpers_graph(F, stop=perform_names(ctx))
        performs = [x for x in sg.nodes if x.kind == 'leaf' and
                    isinstance(x.callee, Func) and
                    x.callee.qualname != app and
                    not x.callee.is_ctor_call and
                    ctx.E.eff.kinds(x.callee) & FS]
        if not performs:
            continue          # a mere wrapper around the appender
        n += 1
        for p in performs:
            w = Q.first_unguarded(sg, [p.id], lambda x: Q.is_call(x, app),
                                  lambda x: x.id in sg.all_exits())
            key = '%s: record appended after %s on every exit' % (
                F.qualname, callee_name(p))
            if w:
                rc.violation(
                    'observation-lost | %s | %s' % (F.qualname,
                                                    callee_name(p)),
                    'after %s ran, a path leaves %s (by %s) without '
                    'appending the record to the parent: an observation - '
                    'for instance a failing query that the caller catches - '
                    'is not replayed and its change goes unnoticed' % (
                        callee_name(p), F.qualname,
                        sg.nodes[w[-1]].kind), p.where(),
                    sg.describe_path(w), key=key)
            else:
                rc.ok({'perform': callee_name(p), 'in': F.qualname},
                      key=key)
    if n < 3:
        raise AnalysisError('only %d recording functions' % n)
    # (b) nothing observes behind the recorder's back
    rec = R.builder + '._exec_simple_operation'
    ctx.E.func(rec)
    for F in R.public_instance_methods:
        sg = None
        for call in prog.calls_in(F):
            for g in prog.resolve_call(call, F):
                direct = None
                if isinstance(g, Func) and g.cls == R.executor:
                    direct = g.qualname
                elif isinstance(g, str):
                    k, _ = ctx.E.eff.classify(g, call, F)
                    if k in (READ, PROBE, DESTROY, CREATE):
                        direct = g
                if direct is None:
                    continue
                key = '%s in %s' % (direct, F.qualname)
                ok = False
                if direct == 'builtins.open' and call.args:
                    # dominated by a recorded read of the same path
                    if sg is None:
                        sg = ctx.E.super(F, lambda g: False)
                    cn = ctx.H.node_of(F, call)[0]
                    pa = ast.dump(ctx.H.subst(call.args[0], F, cn))

                    # the 'read' records this method makes (directly or
                    # through a private per-query helper): (call that
                    # performs it, path expression in the method's terms)
                    rsites = []
                    for F2, c0, nm, lst in _api_records(ctx):
                        if F2 is not F or not (
                                isinstance(nm, ast.Constant) and
                                nm.value == 'read' and isinstance(
                                    lst, ast.List) and lst.elts):
                            continue
                        par = prog.parent(c0)
                        sc = par if isinstance(par, ast.Call) and any(
                            a is c0 for a in par.args) else c0
                        rsites.append((sc, lst.elts[0]))

                    def recorded_read(x):
                        if x.kind != 'ret' or x.call is None:
                            return False
                        for sc, pe in rsites:
                            if x.call is sc and ast.dump(ctx.H.subst(
                                    pe, F, x.cn)) == pa:
                                return True
                        return False
                    tgt = [x for x in sg.nodes if x.kind == 'leaf' and
                           x.call is call]
                    w = Q.first_unguarded(sg, [sg.entry], recorded_read,
                                          lambda x: x in tgt)
                    ok = w is None
                if ok:
                    rc.ok({'direct': key,
                           'dominated_by': 'recorded read of the same '
                           'path'}, key=key)
                else:
                    rc.violation(
                        'unrecorded-observation | ' + key,
                        'public method %s observes the file system through '
                        '%s outside the recorder: the observation is not in '
                        'the record and its change is never noticed' % (
                            F.qualname, direct), prog.loc(F, call), key=key)


def r1_3(ctx, rc):
    R = ctx.R
    prog = ctx.prog
    G = guards(ctx)
    rr = G.replay
    sg = ctx.E.super(rr, lambda g: g in G.dispatchers and g is not rr)
    # every concrete record class has a branch with a decider, and a
    # decider's False is propagated
    kinds = set(G.nested.values())
    key = 'replay routine dispatches every record kind'
    if kinds != {'simple', 'nested_file', 'nested_sub'}:
        rc.violation('replay-dispatch | ' + rr.qualname,
                     'the replay routine handles only %s' % sorted(kinds),
                     rr.file, key=key)
    else:
        rc.ok({'kinds': sorted(kinds)}, key=key)
    for d in G.nested:
        conds = [x for x in sg.nodes if x.kind == 'out' and
                 x.cn.kind == 'cond' and isinstance(x.cn.atom, ast.Call) and
                 any(isinstance(g, Func) and g.qualname == d.qualname
                     for g in prog.resolve_call(x.cn.atom, x.func))]
        key = 'refusal of %s is propagated' % d.qualname
        if not conds:
            rc.violation('replay-ignores-decider | ' + d.qualname,
                         'the result of %s is not branched on in the replay '
                         'routine' % d.qualname, rr.file, key=key)
            continue
        bad = None
        for c in conds:
            for dst, lab in c.succ:
                if isinstance(lab, tuple) and lab[0] == 'F':
                    seen = sg.reach([dst])
                    for nid in seen:
                        x = sg.nodes[nid]
                        if (x.kind == 'exit_t' and
                                x.frame.parent is None) or (
                                x.kind == 'in' and x.cn.kind == 'for_next'):
                            bad = (c, seen, nid)
        if bad:
            rc.violation(
                'refusal-dropped | ' + d.qualname,
                'when %s answers False the replay routine can continue or '
                'answer True: a changed observation deep in a record is '
                'ignored' % d.qualname, bad[0].where(),
                sg.describe_path(sg.witness(bad[1], bad[2])), key=key)
        else:
            rc.ok({'decider': d.qualname, 'false_leads_to': 'return False'},
                  key=key)
    # dispatches over record classes: the alternative reached when every
    # isinstance test fails must raise (an unknown kind is not accepted)
    from ..astpaths import cond_paths, isinstance_fact
    n = 0
    for f in prog.funcs.values():
        paths = cond_paths(f.node.body)
        tested = {}
        for conds, st in paths:
            for t, pol in conds:
                fi = isinstance_fact(t)
                if fi:
                    for c in fi[1]:
                        if c in R.record_classes:
                            tested.setdefault(fi[0], set()).add(c)
        for var, classes in sorted(tested.items()):
            if len(classes) < 2:
                continue
            n += 1
            key = 'dispatch over %s in %s' % ('/'.join(sorted(classes)),
                                              f.qualname)
            covered = set()
            for c in classes:
                covered |= set(prog.subclasses(c))
            elses = []
            for conds, st in paths:
                facts = [(isinstance_fact(t), pol) for t, pol in conds
                         if isinstance_fact(t) and
                         isinstance_fact(t)[0] == var]
                neg = {c for fi, pol in facts if not pol for c in fi[1]}
                pos = [fi for fi, pol in facts if pol]
                first = next((i for i, (t, pol) in enumerate(conds)
                              if isinstance_fact(t) and
                              isinstance_fact(t)[0] == var), None)
                if not pos and classes <= neg and all(
                        not pol for _, pol in conds[first:]):
                    elses.append(st)
            if elses:
                if all(isinstance(x, ast.Raise) for x in elses):
                    rc.ok({'chain': key, 'else': 'raise'}, key=key)
                else:
                    rc.violation('dispatch-else | ' + key,
                                 'the alternative of a dispatch over record '
                                 'classes that is reached when no class '
                                 'matches does not raise (an unknown kind is '
                                 'silently accepted)',
                                 prog.loc(f, elses[0]), key=key)
            else:
                rc.ok({'chain': key, 'covers': sorted(
                    covered & set(R.concrete_records))}, key=key)
    if n < 4:
        raise AnalysisError('only %d record-kind dispatches found' % n)


def r1_4(ctx, rc):
    guards(ctx).check(rc, rule_prefix='guard')


def r1_5(ctx, rc):
    R = ctx.R
    G = guards(ctx)
    from .c08 import _builder_graph, _is_user
    applyq = R.builder + '._apply_cached_suboperations'
    useq = R.cache + '.use_cached_operation'
    for fname, kind in (('_build_file', 'top_file'), ('_subbuild',
                                                      'top_sub')):
        F, sg = _builder_graph(ctx, fname)
        lookups = [d.qualname for d, k in G.top.items() if k == kind]
        acting = [d.qualname for d in G.acting if d.qualname in lookups]
        if acting:
            # the lookup also acts on its decision (it was inlined into the
            # function that registers the record): start where it begins
            starts = [x.id for x in sg.nodes if Q.is_call(x, acting)]
            lookups = lookups + [R.cache + '.get_file',
                                 R.cache + '.get_subbuild']
        else:
            starts = [x.id for x in sg.nodes if Q.is_done(x, lookups)]
        if not starts and F in G.acting:
            # the decision is taken inline: every normal return of the
            # procedure is covered
            starts = [sg.entry]
            lookups = lookups + [R.cache + '.get_file',
                                 R.cache + '.get_subbuild']
        if not starts:
            raise AnalysisError('lookup not found in ' + F.qualname)
        ends = lambda x: x.id in sg.normal_exits()
        for name, guard in (
                ('apply routine', lambda x: Q.is_done(x, applyq) and
                 x.frame.func.qualname != applyq),
                ('use_cached_operation', lambda x: Q.is_done(x, useq))):
            w = Q.first_unguarded(
                sg, starts, lambda x: guard(x) or _is_user(x), ends)
            key = '%s: %s on every served-from-cache return' % (
                F.qualname, name)
            if w:
                rc.violation(
                    'reuse-incomplete | %s | %s' % (F.qualname, name),
                    '%s can return a cached result without the %s: outputs '
                    'of the reused subtree are deleted at commit or vanish '
                    'from the next cache' % (F.qualname, name), F.file,
                    sg.describe_path(w), key=key)
            else:
                rc.ok({'order': key}, key=key)
        # apply precedes registration
        after = sg.reach([x.id for x in sg.nodes if Q.is_done(x, useq)])
        late = [x for x in sg.nodes if x.id in after and
                Q.is_call(x, applyq) and x.frame.func.qualname != applyq]
        key = '%s: apply precedes use_cached_operation' % F.qualname
        if late:
            rc.violation('reuse-order | ' + F.qualname,
                         'the cached subtree is applied after it was '
                         'registered', late[0].where(), key=key)
        else:
            rc.ok({'order': key}, key=key)
        # suboperations and return value are taken from the cached record
        for attr in ('suboperations', 'return_value'):
            def copies(x, attr=attr):
                if x.kind != 'out' or x.cn.kind != 'stmt' or not isinstance(
                        x.cn.ast, ast.Assign):
                    return False
                st = x.cn.ast
                if not (isinstance(st.value, ast.Attribute) and
                        st.value.attr == attr):
                    return False
                if not any(isinstance(t, ast.Attribute) and t.attr == attr
                           for t in st.targets):
                    return False
                org = ctx.H.origins(st.value.value, x.func, x.cn,
                                    stop=lambda n: n in lookups)
                return any(o[0] == 'call' and o[1] in lookups for o in org)
            if attr == 'suboperations':
                # ... and before the registration, which walks them to
                # register the nested records
                w2 = Q.first_unguarded(
                    sg, starts, copies, lambda x: Q.is_call(x, useq))
                k2 = '%s: .suboperations copied before registration' % \
                    F.qualname
                if w2:
                    rc.violation(
                        'reuse-order | %s | copy before register' %
                        F.qualname,
                        'use_cached_operation is reached before the cached '
                        'record\'s suboperations were copied into the '
                        'operation: the nested records are not registered '
                        '(their outputs are deleted at commit; a repeated '
                        'call of a nested operation is not refused)',
                        sg.nodes[w2[-1]].where(), sg.describe_path(w2),
                        key=k2)
                else:
                    rc.ok({'order': k2}, key=k2)
            w = Q.first_unguarded(
                sg, starts, lambda x: copies(x) or _is_user(x), ends)
            key = '%s: .%s taken from the cached record' % (F.qualname, attr)
            if w:
                rc.violation(
                    'reuse-fields | %s | %s' % (F.qualname, attr),
                    'a served-from-cache return does not copy .%s from the '
                    'cached record' % attr, F.file, sg.describe_path(w),
                    key=key)
            else:
                rc.ok({'copied': attr}, key=key)


def r1_6(ctx, rc):
    R = ctx.R
    root = R.root_runner()
    sg = ctx.helpers_graph(root, stop=(R.builder + '._commit',
                                      R.builder + '._roll_back'))
    wq = R.cache + '.write'
    cq = R.builder + '._commit'
    ctx.E.func(cq)
    starts = [x.id for x in sg.nodes if Q.is_done(x, wq)]
    if not starts:
        raise AnalysisError('cache write not found')
    w = Q.first_unguarded(sg, starts, lambda x: Q.is_call(x, cq),
                          lambda x: x.id in sg.normal_exits())
    key = 'commit is reached after a successful cache write'
    if w:
        rc.violation('commit-skipped | ' + root.qualname,
                     'the build can return normally without committing '
                     '(stale outputs of the previous build stay on disk)',
                     root.file, sg.describe_path(w), key=key)
    else:
        rc.ok({'order': key}, key=key)
    # commit removes the old outputs that are not virtually files
    Cm = ctx.E.func(cq)
    rm = R.builder + '._try_to_remove_file'
    loops = [n for n in ast.walk(Cm.node) if isinstance(n, ast.For) and
             isinstance(n.iter, ast.Call) and isinstance(
                 n.iter.func, ast.Attribute) and
             n.iter.func.attr == 'created_files']
    key = 'commit removes stale outputs of the old cache'
    ok = False
    for lp in loops:
        cn = ctx.H.node_of(Cm, lp.iter)[0]
        if ctx.H.expr_roles(lp.iter.func.value, Cm, cn) == {'old'} and any(
                isinstance(c, ast.Call) and any(
                    isinstance(g, Func) and g.qualname == rm
                    for g in ctx.prog.resolve_call(c, Cm))
                for st in lp.body for c in ast.walk(st)):
            ok = True
    if ok:
        rc.ok({'loop': 'old_cache.created_files()'}, key=key)
    else:
        rc.violation('commit-files | ' + Cm.qualname,
                     'commit does not remove the old cache\'s outputs',
                     Cm.file, key=key)
    dr = R.builder + '._remove_empty_dirs'
    key = 'commit removes stale directories'
    if any(isinstance(g, Func) and g.qualname == dr
           for c in ctx.prog.calls_in(Cm)
           for g in ctx.prog.resolve_call(c, Cm)):
        rc.ok({'call': dr}, key=key)
    else:
        rc.violation('commit-dirs | ' + Cm.qualname,
                     'commit does not remove stale directories', Cm.file,
                     key=key)


def r1_7(ctx, rc):
    from .c16 import r16_1, r16_2, r16_5
    r16_1(ctx, rc)
    r16_2(ctx, rc)
    r16_5(ctx, rc)


def r1_8(ctx, rc):
    from .c04 import r4_4
    r4_4(ctx, rc)


def r1_9(ctx, rc):
    # includes the apply rules; and the directory bookkeeping is seeded with
    # the previous build's directories, files and the cache file (R12.6)
    from .c12 import r12_6
    r12_6(ctx, rc)


def r1_10(ctx, rc):
    """The replay overlay mirrors execution (R5.8), and what is recorded is
    not aliased with objects the user can still modify (R11.1)."""
    from .c05 import r5_8
    from .c11 import r11_1
    from . import c18
    r5_8(ctx, rc)
    r11_1(ctx, rc)
    # ... and the directory reservations: release is the inverse of reserve
    from .c04 import r4_8
    r4_8(ctx, rc)
    # the comparisons of R1.4 are JSON equality: its structural rules
    c18.r18_3(ctx, rc)
    c18.r18_5(ctx, rc)
    c18.r18_7(ctx, rc)


def r1_11(ctx, rc):
    from .c08 import failed_record_is_marked
    failed_record_is_marked(ctx, rc)
    returned_value_is_the_records(ctx, rc)
    # the operation versions compared by the simple decider are the
    # software's table (a library upgrade invalidates recorded queries)
    from .c06 import r6_7
    r6_7(ctx, rc)


def returned_value_is_the_records(ctx, rc):
    """What build_file / subbuild hand back to the caller is the record's
    ``return_value`` (deep-copied by the API wrapper) - the field that is
    persisted and served again; any other field makes the first build
    answer differently from every later one."""
    R = ctx.R
    prog = ctx.prog
    n = 0
    todo = [R.builder_f(fname) for fname in ('_build_file', '_subbuild')]
    seen_f = set()
    while todo:
        F = todo.pop(0)
        if F.qualname in seen_f:
            continue
        seen_f.add(F.qualname)
        cfg = ctx.E.cfgs.get(F)
        n0 = n
        for rn in cfg.nodes:
            if rn.kind != 'return' or rn.ast is None or \
                    rn.ast.value is None:
                continue
            n += 1
            v = ctx.H.subst(rn.ast.value, F, rn)
            key = 'value returned by %s' % F.qualname
            fields = {x.attr for x in ast.walk(v)
                      if isinstance(x, ast.Attribute) and
                      x.attr in R.record_fields.get(
                          'BuildFileOperation', ()) or
                      isinstance(x, ast.Attribute) and x.attr in
                      R.record_fields.get('SubbuildOperation', ())}
            if fields == {'return_value'} or (
                    'return_value' in fields and fields <= {
                        'return_value', '_operation'}):
                rc.ok({'returns': ast.unparse(v)[:50]}, key=key)
            else:
                rc.violation(
                    'api-return | ' + F.qualname,
                    '%s returns %s, not the record\'s return_value: the '
                    'caller gets something else than what is persisted and '
                    'served by later builds' % (F.qualname,
                                                ast.unparse(v)[:60]),
                    prog.loc(F, rn.ast), key=key)
        if n == n0:
            # a procedure that hands nothing back: its callers read the
            # record themselves - the public ones are checked instead
            up = [c for c, _call in prog.callers().get(F.qualname, [])
                  if c.cls == R.builder]
            if not up or F.is_public:
                raise AnalysisError('%s returns no value' % F.qualname)
            todo.extend(up)


RULES = [
    ('R1.1', 'registry agreement: API, recorder, replayer', r1_1),
    ('R1.2', 'every observation is recorded, on every exit', r1_2),
    ('R1.3', 'exhaustive dispatch; a refusal is propagated', r1_3),
    ('R1.4', 'guard completeness of every reuse decider', r1_4),
    ('R1.5', 'what is reused is re-registered', r1_5),
    ('R1.6', 'commit is reached on success', r1_6),
    ('R1.7', 'what was recorded is what is read back', r1_7),
    ('R1.8', 'error classes of queries come from the virtual view', r1_8),
    ('R1.9', 'a reused subtree is applied completely', r1_9),
    ('R1.10', 'overlay bookkeeping inverts; records are not aliased', r1_10),
    ('R1.11', 'a failed call is recorded as failed; the value handed back '
     'is the recorded one', r1_11),
]
