"""Rule registry: one module per property."""
import importlib

from ..analyses import Helper
from ..roles import Roles

PROPERTIES = ['C%02d' % i for i in range(1, 19)]

COMMON_ASSUMPTIONS = [
    'analysed unit: every *.py directly under <repo>/file_builder (tests and '
    'samples are user-side code and excluded)',
    'primitive table (fbsa/effects.py) classifies every external call; '
    'logging is ignored for file-system effects',
    'fault model: a statement may raise iff it contains an explicit raise, an '
    'FS primitive that may raise, a USER callback or a json/gzip decoding '
    'call; in-memory bookkeeping (dict/set operations) is assumed not to fail',
    'copy primitives copy.deepcopy, JsonUtil.sanitize and a json round trip '
    'are deep',
    'BaseException (KeyboardInterrupt) is outside the model',
]


class Ctx:
    def __init__(self, engine):
        self.E = engine
        self.prog = engine.prog
        self.H = Helper(engine)
        self.R = Roles(engine, self.H)
        self.memo = {}


def module_for(pid):
    return importlib.import_module('fbsa.rules.' + pid.lower())
