"""Rule registry: one module per property."""
import importlib

from ..analyses import Helper
from ..roles import Roles

PROPERTIES = ['C%02d' % i for i in range(1, 19)]

COMMON_ASSUMPTIONS = [
    'analysed unit: every *.py directly under <repo>/file_builder (tests and '
    'samples are user-side code and excluded)',
    'primitive table (fbsa/effects.py) classifies every external call; '
    'logging is ignored for file-system effects',
    'fault model: a statement may raise iff it contains an explicit raise, an '
    'FS primitive that may raise, a USER callback or a json/gzip decoding '
    'call; in-memory bookkeeping (dict/set operations) is assumed not to fail',
    'copy primitives copy.deepcopy, JsonUtil.sanitize and a json round trip '
    'are deep',
    'BaseException (KeyboardInterrupt) is outside the model',
]


class Ctx:
    def __init__(self, engine):
        self.E = engine
        self.prog = engine.prog
        self.H = Helper(engine)
        self.R = Roles(engine, self.H)
        self.memo = {}

    def helpers_graph(self, F, stop=(), fault=None, extra_classes=()):
        """Interprocedural graph of F with the private helpers of its own
        class inlined, except the reuse deciders, the replay routine and
        the functions named in ``stop`` (kept as opaque calls).  Rules use
        it so that extracting or inlining a helper does not change what
        they see."""
        from .guards import guards
        if isinstance(F, str):
            F = self.E.func(F)
        G = guards(self)
        stopset = G.opaque
        stopq = set(stop)
        cls = F.cls

        wrappers = self.backup_wrappers()

        def inline(g):
            if g in stopset or g.qualname in stopq or g.is_ctor_call:
                return False
            if g in wrappers:
                return True
            if g.cls == cls or g.cls in extra_classes:
                return not g.is_public or g.cls != self.R.builder
            return False
        return self.E.super(F, inline, fault)

    def backup_wrappers(self):
        """Functions outside the builder that merely wrap the move-aside
        primitive (``back_up_and_remove_if_file``): graphs rooted in the
        builder look inside them."""
        if 'backup_wrappers' not in self.memo:
            from ..model import Func
            bq = 'FileBackups.back_up_and_remove'
            out = set()
            for g in self.prog.funcs.values():
                if g.cls == self.R.builder or g.qualname == bq:
                    continue
                if any(isinstance(h, Func) and h.qualname == bq
                       for c in self.prog.calls_in(g)
                       for h in self.prog.resolve_call(c, g)):
                    out.add(g)
            self.memo['backup_wrappers'] = out
        return self.memo['backup_wrappers']

    def validate_anchors(self, pid):
        """Every function of the frozen anchor table that the rules refer to
        by name must exist (possibly recognised under a new name); a
        vanished one makes the analysis inconclusive instead of letting a
        name comparison silently match nothing."""
        import json
        import os
        import re
        from ..model import AnalysisError
        here = os.path.dirname(os.path.abspath(__file__))
        ap = os.path.join(os.path.dirname(os.path.dirname(here)),
                          'anchors.json')
        if not os.path.exists(ap):
            return
        canon = json.load(open(ap))['functions']
        # the property's own module and the rule modules it imports
        todo = [pid.lower()]
        mods = set()
        while todo:
            m = todo.pop()
            p = os.path.join(here, m + '.py')
            if m in mods or not os.path.exists(p):
                continue
            mods.add(m)
            text = open(p).read()
            todo += re.findall(r'from \.(\w+) import', text)
            for grp in re.findall(r'from \. import ([\w, ]+)', text):
                todo += [x.strip().split(' ')[0] for x in grp.split(',')]
        src = ''.join(open(os.path.join(here, m + '.py')).read()
                      for m in sorted(mods))
        # names wrapped in opt(...) are only mentioned defensively
        src = re.sub(r"""opt\(\s*['"][A-Za-z_.]+['"]\s*\)""", '', src)
        quoted = set(re.findall(r"""['"]([A-Za-z_.]+)['"]""", src))
        for q in canon:
            cls, _, name = q.rpartition('.')
            if q in quoted or ('.' + name) in quoted or (
                    name.startswith('_') and name in quoted):
                if q not in self.prog.funcs:
                    raise AnalysisError(
                        'anchor vanished: function %s (referenced by the '
                        'rules; no renamed counterpart recognised)' % q)


def module_for(pid):
    return importlib.import_module('fbsa.rules.' + pid.lower())


def opt(name):
    """Marks a function name that a rule only mentions defensively (its
    absence is fine); see Ctx.validate_anchors."""
    return name


def perform_names(ctx):
    """Builder functions that perform a recorded operation (kept opaque when
    the recording functions are analysed): the two private runners."""
    R = ctx.R
    return (R.builder + '._build_file', R.builder + '._subbuild')
