"""C11 - values cross the API by value (escape analysis)."""
import ast

from ..model import Func
from ..roles import COPY_POINTS, IMMUTABLE_FIELDS
from ..taint import Taint

EXPLANATION = (
    'Escape/ownership analysis over the resolved program. R11.1: no object '
    'owned by a cache record (loaded from, or stored into, a container-'
    'capable record field) reaches the return of a public method or an '
    'argument of a user callback without passing a deep-copy point. R11.2: '
    'no user-owned object (public-API parameter, user callback result) is '
    'stored in a record or cache without passing the sanitiser. Decides the '
    'whole property relative to the copy primitives being deep.'
    ' R11.3: the sanitiser used as a copy point returns fresh structure (R18.1).')

IMMUTABLE_CLASSES = {'str', 'int', 'float', 'bool', 'bytes'}


def _record_field_source(ctx):
    R = ctx.R
    prog = ctx.prog

    def is_source(e, func, cn):
        if isinstance(e, ast.Attribute) and isinstance(e.ctx, ast.Load):
            ts = prog.type_of(e.value, func)
            rec = any(t in R.record_classes for t in ts)
            other = [t for t in ts if t in prog.classes and
                     t not in R.record_classes]
            if e.attr in R.all_record_fields and (rec or not other):
                if prog.dotted(e, func) is not None:
                    return None
                if e.attr in IMMUTABLE_FIELDS:
                    return False
                return 'record-owned value .%s' % e.attr
        if isinstance(e, ast.Name):
            ts = prog.type_of(e, func)
            if ts and all(t in R.record_classes for t in ts):
                return 'the record object itself (%s)' % e.id
        return None
    return is_source


def _stored_names(ctx, func):
    """Locals stored into a container-capable record field somewhere in the
    function: the object is record-owned from then on."""
    key = ('stored', func.qualname)
    if key not in ctx.memo:
        out = {}
        for n in ast.walk(func.node):
            if isinstance(n, ast.Assign) and isinstance(n.value, ast.Name):
                for t in n.targets:
                    if (isinstance(t, ast.Attribute) and
                            t.attr in ctx.R.container_fields and
                            not any(x in ctx.prog.classes and
                                    x not in ctx.R.record_classes
                                    for x in ctx.prog.type_of(t.value, func))):
                        out[n.value.id] = 'stored into record field .%s at ' \
                            'line %d' % (t.attr, n.lineno)
        ctx.memo[key] = out
    return ctx.memo[key]


class _T(Taint):
    """Taint with a three-valued source predicate (False = cut here)."""

    def tainted(self, e, func, cn, env=None, depth=0, seen=frozenset()):
        s = self.is_source(e, func, cn)
        if s is False:
            return None
        return Taint.tainted(self, e, func, cn, env, depth, seen)


def owned_taint(ctx):
    if 'owned_taint' not in ctx.memo:
        def hook(name, func, cn):
            return _stored_names(ctx, func).get(name)
        ctx.memo['owned_taint'] = _T(
            ctx.H, _record_field_source(ctx), cut=COPY_POINTS,
            name_hook=hook)
    return ctx.memo['owned_taint']


def _return_sinks(ctx, func):
    out = []
    for n in ast.walk(func.node):
        if isinstance(n, ast.Return) and n.value is not None:
            cns = ctx.H.node_of(func, n.value)
            if not cns:
                cns = [c for c in ctx.E.cfgs.get(func).nodes
                       if c.kind == 'return' and c.ast is n]
            if cns:
                out.append((n, cns[0]))
    return out


def r11_1(ctx, rc):
    T = owned_taint(ctx)
    R = ctx.R
    n_ret = n_user = 0
    for f in R.public_methods:
        for ret, cn in _return_sinks(ctx, f):
            n_ret += 1
            tr = T.tainted(ret.value, f, cn)
            key = 'return of %s' % f.qualname
            if tr:
                root = tr[0]
                rc.violation(
                    'escape | %s | %s' % (f.qualname, _root_site(tr)),
                    'record-owned value escapes through the return of public '
                    'method %s without a deep copy' % f.qualname,
                    ctx.prog.loc(f, ret), tr, key=key)
            else:
                rc.ok({'sink': key, 'line': ret.lineno,
                       'expr': ast.unparse(ret.value)[:80]}, key=key)
    for f, call in R.user_sites:
        cn = ctx.H.node_of(f, call)[0]
        args = [(a.value if isinstance(a, ast.Starred) else a)
                for a in call.args] + [k.value for k in call.keywords]
        for a in args:
            n_user += 1
            tr = T.tainted(a, f, cn)
            key = 'USER argument %s in %s' % (ast.unparse(a)[:40], f.qualname)
            if tr:
                rc.violation(
                    'escape-arg | %s | %s' % (f.qualname, _root_site(tr)),
                    'record-owned value is handed to the user callback in %s '
                    'without a deep copy' % f.qualname,
                    ctx.prog.loc(f, call), tr, key=key)
            else:
                rc.ok({'sink': key}, key=key)
    rc.note('%d public returns, %d user-callback arguments checked' % (
        n_ret, n_user))


def _root_site(trace):
    # construct key: function + field of the root source, no line numbers
    src = trace[0].split(': ', 1)[1]
    return src


def _user_source(ctx):
    R = ctx.R
    prog = ctx.prog

    def immut_checked(func, name, depth=0):
        for n in ast.walk(func.node):
            if isinstance(n, ast.Call) and depth < 3 and any(
                    isinstance(a, ast.Name) and a.id == name
                    for a in n.args):
                # handed to a private validation helper that checks it
                for g in prog.resolve_call(n, func):
                    if isinstance(g, Func) and not g.is_ctor_call and \
                            not g.is_public:
                        b = prog.bind_args(n, g)
                        for p2, a in b.items():
                            if isinstance(a, ast.Name) and a.id == name and \
                                    immut_checked(g, p2, depth + 1):
                                return True
            if (isinstance(n, ast.Call) and isinstance(n.func, ast.Name) and
                    n.func.id == 'isinstance' and len(n.args) == 2 and
                    isinstance(n.args[0], ast.Name) and n.args[0].id == name):
                cl = n.args[1]
                cls = cl.elts if isinstance(cl, ast.Tuple) else [cl]
                names = [c.id for c in cls if isinstance(c, ast.Name)]
                if names and all(
                        c in IMMUTABLE_CLASSES or
                        (c in prog.classes and 'Enum' in prog.classes[c].bases)
                        for c in names):
                    return True
        return False

    is_source_immut = immut_checked

    def is_source(e, func, cn):
        if isinstance(e, ast.Name) and isinstance(e.ctx, ast.Load):
            if func in R.public_methods and e.id in func.all_param_names():
                cfg = ctx.E.cfgs.get(func)
                rd = cfg.reaching_defs()[cn.id].get(e.id, ())
                if any(cfg.nodes[d].kind == 'entry' for d in rd):
                    if immut_checked(func, e.id):
                        return False
                    return 'user-owned API parameter %s of %s' % (
                        e.id, func.qualname)
        if isinstance(e, ast.Call) and 'USER' in prog.resolve_call(e, func):
            return 'value returned by the user callback'
        return None
    is_source.immut_checked = immut_checked
    return is_source


def r11_2(ctx, rc):
    R = ctx.R
    prog = ctx.prog
    sanit = ('JsonUtil.sanitize', 'json.loads', 'copy.deepcopy',
             R.builder + '._sanitize_filename')
    src = _user_source(ctx)
    T = _T(ctx.H, src, cut=sanit, follow_params=True,
           param_cut=src.immut_checked)
    sinks = []
    for f in prog.funcs.values():
        for call in prog.calls_in(f):
            for g in prog.resolve_call(call, f):
                if isinstance(g, Func) and g.is_ctor_call and (
                        g.cls_for_ctor in R.record_classes):
                    binding = prog.bind_args(call, g)
                    # map ctor param -> field through the __init__ chain
                    for p, a in binding.items():
                        if isinstance(a, list):
                            continue
                        fld = _param_field(ctx, g.cls_for_ctor, p)
                        if fld is None or fld in IMMUTABLE_FIELDS:
                            continue
                        sinks.append((f, call, a, 'record field .%s (%s '
                                      'constructor)' % (fld, g.cls_for_ctor)))
                elif isinstance(g, Func) and g.cls == R.cache and (
                        not g.has_self) and f.cls != R.cache:
                    for a in call.args:
                        sinks.append((f, call, a, 'argument of %s' % (
                            g.qualname)))
        for n in ast.walk(f.node):
            if isinstance(n, ast.Assign):
                for t in n.targets:
                    if (isinstance(t, ast.Attribute) and
                            t.attr in R.container_fields and
                            not (isinstance(t.value, ast.Name) and
                                 t.value.id == f.self_name and
                                 f.cls not in R.record_classes) and
                            f.cls not in R.record_classes):
                        sinks.append((f, n, n.value,
                                      'store into record field .%s' % t.attr))
    for f, site, expr, what in sinks:
        cns = ctx.H.node_of(f, expr)
        if not cns:
            continue
        tr = T.tainted(expr, f, cns[0])
        key = '%s in %s' % (what, f.qualname)
        if tr:
            rc.violation(
                'capture | %s | %s' % (f.qualname, what),
                'user-owned object is stored in %s by %s without passing '
                'the sanitiser' % (what, f.qualname),
                prog.loc(f, site), tr, key=key)
        else:
            rc.ok({'sink': key, 'expr': ast.unparse(expr)[:60]}, key=key)


def _param_field(ctx, cname, param):
    """Field that constructor parameter ``param`` of class cname is stored
    in (through super().__init__ chains)."""
    prog = ctx.prog
    init = prog.lookup_method(cname, '__init__')
    seen = 0
    while init is not None and seen < 6:
        seen += 1
        for n in ast.walk(init.node):
            if (isinstance(n, ast.Assign) and isinstance(n.value, ast.Name)
                    and n.value.id == param):
                for t in n.targets:
                    if isinstance(t, ast.Attribute):
                        return t.attr
        nxt = None
        for call in prog.calls_in(init):
            for g in prog.resolve_call(call, init):
                if isinstance(g, Func) and g.name == '__init__' and \
                        g.qualname != init.qualname:
                    b = prog.bind_args(call, g)
                    for p2, a in b.items():
                        if isinstance(a, ast.Name) and a.id == param:
                            nxt = (g, p2)
        if nxt is None:
            return None
        init, param = nxt
    return None


def r11_3(ctx, rc):
    """The sanitiser, used as a copy point by R11.1/R11.2, returns fresh
    structure (R18.1)."""
    from .c18 import r18_1
    r18_1(ctx, rc)


RULES = [
    ('R11.1', 'no record-owned value escapes without a deep copy', r11_1),
    ('R11.2', 'no user-owned value is captured without sanitising', r11_2),
    ('R11.3', 'the sanitiser (copy point) returns fresh structure', r11_3),
]
