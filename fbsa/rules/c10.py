"""C10 - build_file contract: output appears atomically, failure leaves
nothing."""
import ast

from ..model import Func, AnalysisError
from ..supergraph import callee_name
from .. import queries as Q
from .c08 import _builder_graph, _is_user
from .c02 import _own_filename

EXPLANATION = (
    'R10.1 protocol order on the inlined graph of _build_file: duplicate/'
    'cache-file validation < parents created < directory reservation < '
    'reuse attempt < target moved aside < atomic claim < user callback; '
    'after the callback: fresh comparison result < "is None -> raise" < '
    'close < registration. R10.2: the failure handler marks the record '
    'raised, releases the reservation, removes the target, closes and '
    'registers the record on every path, and leaves by bare raise; the '
    'sanitising of the return value is inside the same protected region. '
    'R10.3: the callback receives the sub-builder and the record\'s '
    'normalised filename; the value returned comes from the sanitiser; the '
    'normaliser is str(abspath(fsdecode(x))). R10.4/R10.5: partial '
    'acquisition of parent directories is handed off and removed at commit/'
    'rollback (R14.3). Each order is a dominance query over all paths.'
    ' R10.2 also includes exception identity (R2.2) and the reservation typestate of _build_file (R14.1).')
# round 3/4 additions
EXPLANATION += (
    ' R10.2 also decides the order in the failure handler (target removed before the record is published). R10.4 includes R9.6 and requires the hand-off handler not to select by exception class.')


def r10_1(ctx, rc):
    R = ctx.R
    C = R.cache
    F, sg = _builder_graph(ctx, '_build_file')
    from .guards import guards
    G = guards(ctx)
    lookups = [d.qualname for d, k in G.top.items() if k == 'top_file']
    steps = [
        ('duplicate test', lambda x: Q.is_done(
            x, C + '.assert_doesnt_have_norm_cased_file'),
         lambda x: Q.is_call(x, C + '.assert_doesnt_have_norm_cased_file')),
        ('parents created', lambda x: Q.is_done(
            x, R.builder + '._make_dirs') and x.frame.func.qualname !=
            R.builder + '._apply_cached_suboperations',
         lambda x: Q.is_call(x, R.builder + '._make_dirs') and
         x.frame.func.qualname != R.builder + '._apply_cached_suboperations'),
        ('directory reservation', lambda x: Q.is_done(
            x, 'BuildDirs.started_building_file') and
            x.frame.func.qualname == F.qualname,
         lambda x: Q.is_call(x, 'BuildDirs.started_building_file') and
         x.frame.func.qualname == F.qualname),
        ('reuse attempt', lambda x: Q.is_done(x, lookups),
         lambda x: Q.is_call(x, lookups)),
        ('atomic claim', lambda x: Q.is_done(
            x, C + '.start_building_file'),
         lambda x: Q.is_call(x, C + '.start_building_file')),
        ('user callback', _is_user, _is_user),
    ]
    for (n1, done1, _), (n2, _, begin2) in zip(steps, steps[1:]):
        if not any(begin2(x) for x in sg.nodes):
            rc.violation('protocol-step-missing | %s | %s' % (
                F.qualname, n2), 'build_file never performs the protocol '
                'step "%s"' % n2, F.file,
                key='%s: step %s exists' % (F.qualname, n2))
            continue
        w = Q.first_unguarded(sg, [sg.entry], done1, begin2)
        key = '%s: %s precedes %s' % (F.qualname, n1, n2)
        if w:
            rc.violation('protocol-order | ' + key,
                         'build_file can reach "%s" without "%s" having '
                         'completed' % (n2, n1), sg.nodes[w[-1]].where(),
                         sg.describe_path(w), key=key)
        else:
            rc.ok({'order': key}, key=key)
    # the cache-file test precedes parent creation
    from .guards import guards
    direct = guards(ctx).m_cache_file_compare()
    w = Q.first_unguarded(
        sg, [sg.entry], lambda x: False, steps[1][2],
        edge_ok=lambda a, b, lab: not (
            isinstance(lab, tuple) and len(lab) == 4 and ((
                lab[0] == 'F' and
                isinstance(lab[1], ast.Call) and any(
                    isinstance(g, Func) and g.name == 'is_cache_file'
                    for g in ctx.prog.resolve_call(lab[1], lab[2]))) or
                direct(lab[1], lab[2], lab[3]) == lab[0])))
    key = '%s: cache-file test precedes parents created' % F.qualname
    if w:
        rc.violation('protocol-order | ' + key,
                     'parent directories can be created for a target that '
                     'was not tested against the cache file',
                     sg.nodes[w[-1]].where(), sg.describe_path(w), key=key)
    else:
        rc.ok({'order': key}, key=key)
    # after the callback returned
    users_done = [x.id for x in sg.nodes
                  if x.kind == 'ret' and x.callee == 'USER']
    fcr0 = R.executor + '.file_comparison_result'
    ctx.E.func(fcr0)
    # the comparison itself or any function that wraps it
    fcr = {fcr0}
    grew = True
    while grew:
        grew = False
        for f in ctx.prog.funcs.values():
            if f.qualname in fcr or f.name in ('exec', 'read'):
                continue
            if any(isinstance(g, Func) and g.qualname in fcr
                   for c in ctx.prog.calls_in(f)
                   for g in ctx.prog.resolve_call(c, f)) and (
                       f.cls == R.executor or f.cls == R.builder) and \
                    len(f.params) == 2:
                fcr.add(f.qualname)
                grew = True
    fin = C + '.finish_building_file'
    for name, guard in (
            ('fresh comparison result', lambda x: Q.is_call(x, fcr)),
            ('registration as built', lambda x: Q.is_call(x, fin))):
        w = Q.first_unguarded(sg, users_done, guard,
                              lambda x: x.id in sg.normal_exits())
        key = '%s: %s after the callback on the success path' % (
            F.qualname, name)
        if w:
            rc.violation('protocol-order | ' + key,
                         'build_file can return normally after the callback '
                         'without %s' % name, F.file, sg.describe_path(w),
                         key=key)
        else:
            rc.ok({'order': key}, key=key)

    def not_none_edge(lab):
        if not (isinstance(lab, tuple) and len(lab) == 4):
            return False
        a = lab[1]
        if isinstance(a, ast.Compare) and len(a.ops) == 1 and isinstance(
                a.comparators[0], ast.Constant) and \
                a.comparators[0].value is None:
            s = ctx.H.subst(a.left, lab[2], lab[3])
            if isinstance(s, ast.Attribute) and \
                    s.attr == 'file_comparison_result' or (
                        isinstance(s, ast.Call)):
                return (isinstance(a.ops[0], ast.Is) and lab[0] == 'F') or (
                    isinstance(a.ops[0], ast.IsNot) and lab[0] == 'T')
        return False
    w = Q.first_unguarded(
        sg, users_done, lambda x: False,
        lambda x: x.id in sg.normal_exits(),
        edge_ok=lambda a, b, lab: not not_none_edge(lab))
    key = '%s: returns only after the target is a regular file' % F.qualname
    if w:
        rc.violation('file-not-verified | ' + F.qualname,
                     'build_file can return normally without having '
                     'verified that the callback created the file',
                     F.file, sg.describe_path(w), key=key)
    else:
        rc.ok({'order': key}, key=key)
    # close precedes registration
    from .c17 import _is_close_store
    w = Q.first_unguarded(sg, users_done,
                          lambda x: _is_close_store(ctx, x, True),
                          lambda x: Q.is_call(x, fin))
    key = '%s: close precedes registration' % F.qualname
    if w:
        rc.violation('protocol-order | ' + key,
                     'the record is registered before it is closed',
                     F.file, sg.describe_path(w), key=key)
    else:
        rc.ok({'order': key}, key=key)


def _store_true(attr):
    def pred(x):
        if x.kind != 'out' or x.cn.kind != 'stmt' or not isinstance(
                x.cn.ast, ast.Assign):
            return False
        st = x.cn.ast
        return any(isinstance(t, ast.Attribute) and t.attr == attr
                   for t in st.targets) and isinstance(
                       st.value, ast.Constant) and st.value.value is True
    return pred


def r10_2(ctx, rc):
    R = ctx.R
    C = R.cache
    F, sg = _builder_graph(ctx, '_build_file')
    claim = [x.id for x in sg.nodes
             if Q.is_done(x, C + '.start_building_file')]
    if not claim:
        rc.violation('claim-missing | ' + F.qualname,
                     'build_file never performs the atomic claim', F.file,
                     key=F.qualname + ': claim exists')
        return
    rexits = lambda x: x.kind == 'raise_exit' and x.frame.parent is None

    def removes_own(x):
        return Q.is_call(x, R.builder + '._try_to_remove_file') and \
            x.call.args and _own_filename(
                ctx.H.subst_frames(x.call.args[0], x))
    steps = [
        ('marks the record raised', _store_true('raised')),
        ('releases the directory reservation',
         lambda x: Q.is_call(x, 'BuildDirs.error_building_file')),
        ('removes the target file', removes_own),
        ('closes the record', _store_true('is_finished')),
        ('registers the record', lambda x: Q.is_call(
            x, C + '.finish_building_file')),
    ]
    for name, pred in steps:
        w = Q.first_unguarded(sg, claim, pred, rexits)
        key = '%s: failure after the claim %s' % (F.qualname, name)
        if w:
            rc.violation(
                'failure-cleanup | %s | %s' % (F.qualname, name),
                'when the build function (or the verification, or '
                'sanitising its return value) fails, a path leaves '
                'build_file that never %s' % name,
                sg.nodes[w[0]].where(), sg.describe_path(w), key=key)
        else:
            rc.ok({'handler_step': name}, key=key)
    # the failed output disappears before its record is published: once
    # the record is finished other threads consult the real file system for
    # the path, and must not find the half-written file
    fin = C + '.finish_building_file'
    def lexically_in_handler(call):
        n = call
        while n is not None:
            n = ctx.prog.parent(n)
            if isinstance(n, ast.ExceptHandler):
                return True
            if isinstance(n, ast.FunctionDef):
                return False
        return False

    def in_failure_handler(x):
        if x.call is not None and lexically_in_handler(x.call):
            return True
        fr = x.frame
        while fr is not None and fr.site is not None:
            if fr.site.call is not None and lexically_in_handler(
                    fr.site.call):
                return True
            fr = fr.parent
        return False
    w = Q.first_unguarded(
        sg, claim, removes_own,
        lambda x: Q.is_call(x, fin) and in_failure_handler(x))
    key = '%s: failed target removed before its record is finished' % \
        F.qualname
    if w:
        rc.violation(
            'failure-order | %s | remove before finish' % F.qualname,
            'in the failure handler the record is finished (published) '
            'while the failed output is still on disk: another thread that '
            'asks about the path in this window sees a file no sequential '
            'run ever shows', sg.nodes[w[-1]].where(), sg.describe_path(w),
            key=key)
    else:
        rc.ok({'order': 'remove target, then finish_building_file'}, key=key)
    # sanitising of the return value is inside the protected region: its
    # failure goes through the same handler (covered by the queries above,
    # which start at the claim); make the coverage explicit
    san = [x for x in sg.nodes if Q.is_call(x, 'JsonUtil.sanitize')]
    rc.ok({'sanitise_sites_after_claim': len(san)}, key='sanitise covered')
    # ... and the exception that propagates is the same object
    from .c02 import r2_2
    r2_2(ctx, rc)
    # a failure during set-up (before the claim) releases the directory
    # reservation exactly once as well
    from .c14 import r14_1
    r14_1(ctx, rc, only=('_build_file',))


def r10_3(ctx, rc):
    R = ctx.R
    prog = ctx.prog
    nested = R.nested_runner()
    # what the callback receives
    # ... called from the build_file procedure or one of its private helpers
    root = R.builder_f('_build_file')
    closure = [root]
    todo = [root]
    while todo:
        f0 = todo.pop()
        for c0 in prog.calls_in(f0):
            for g in prog.resolve_call(c0, f0):
                if isinstance(g, Func) and g.cls == R.builder and \
                        not g.is_public and not g.is_ctor_call and \
                        g not in closure and g != nested:
                    closure.append(g)
                    todo.append(g)
    calls = [(f0, c) for f0 in closure for c in prog.calls_in(f0)
             for g in prog.resolve_call(c, f0)
             if isinstance(g, Func) and g.qualname == nested.qualname]
    if not calls:
        raise AnalysisError('call of the nested runner not found')
    F, c = calls[0]
    b = prog.bind_args(c, nested)
    # the parameter that is star-expanded into the USER call
    ucall = [u for f, u in R.user_sites if f == nested][0]
    star = [a.value.id for a in ucall.args
            if isinstance(a, ast.Starred) and isinstance(a.value, ast.Name)]
    key = 'callback receives (sub-builder, normalised filename, ...)'
    ok = False
    # the effective positional arguments of the user call: its own plain
    # arguments, and the elements of list displays bound to the parameters
    # it star-expands (``[self, filename] + copies`` at the call site)
    cnF = ctx.H.node_of(F, c)[0]
    cnN = ctx.H.node_of(nested, ucall)
    eff = []

    def expand(v):
        if isinstance(v, ast.BinOp) and isinstance(v.op, ast.Add):
            expand(v.left)
            expand(v.right)
        elif isinstance(v, (ast.List, ast.Tuple)):
            for e in v.elts:
                if isinstance(e, ast.Starred):
                    eff.append(None)
                else:
                    eff.append((e, F, cnF))
        else:
            eff.append(None)
    for a in ucall.args:
        if isinstance(a, ast.Starred):
            if isinstance(a.value, ast.Name) and isinstance(
                    b.get(a.value.id), ast.AST):
                expand(ctx.H.subst(b[a.value.id], F, cnF))
            else:
                eff.append(None)
        else:
            eff.append((a, nested, cnN[0] if cnN else None))
    if len(eff) >= 2 and eff[0] is not None and eff[1] is not None:
        e0, f0, _c0 = eff[0]
        e1, f1, c1 = eff[1]
        ok = isinstance(e0, ast.Name) and e0.id == f0.self_name and \
            _own_filename(ctx.H.subst(e1, f1, c1) if c1 is not None else e1)
    if ok:
        rc.ok({'args': '[self, operation.filename] + copies'}, key=key)
    else:
        rc.violation('callback-args | ' + F.qualname,
                     'the build function is not called with (sub-builder, '
                     'the record\'s normalised filename, ...)',
                     prog.loc(F, c), key=key)
    # the value handed back comes from the sanitiser
    cfg = ctx.E.cfgs.get(nested)
    key = 'returned value is JSON-normalised'
    bad = None
    for rn in cfg.nodes:
        exprs = []
        if rn.kind == 'return' and rn.polarity == 'N':
            exprs = [rn.ast.value]
        elif rn.kind == 'cond' and any(
                cfg.nodes[d].kind == 'return' for d, _ in rn.succ):
            exprs = [rn.atom]
        for e in exprs:
            org = ctx.H.origins(e, nested, rn,
                                stop=lambda n: n == 'JsonUtil.sanitize')
            if not org or any(not (o[0] == 'call' and
                                   o[1] == 'JsonUtil.sanitize')
                              for o in org):
                bad = (rn, org)
    if bad:
        rc.violation('return-not-sanitised | ' + nested.qualname,
                     'a value returned to the caller does not come from the '
                     'sanitiser: %s' % sorted(str(o[:2]) for o in bad[1]),
                     prog.loc(nested, bad[0].ast), key=key)
    else:
        rc.ok({'origin': 'JsonUtil.sanitize'}, key=key)
    from .c07 import r7_1
    r7_1(ctx, rc)


def r10_4(ctx, rc):
    from .c14 import r14_3
    from .c09 import r9_6
    r14_3(ctx, rc)
    # a parent directory created for a failed output must have an owner,
    # or nobody removes it (R9.6)
    r9_6(ctx, rc)
    # "also when creating those directories itself fails part-way" is not
    # limited to OSError (os.mkdir raises ValueError for a NUL byte in a
    # later component): the compensating handler only hands off and
    # re-raises, so it must not select by exception class
    R = ctx.R
    prog = ctx.prog
    handoff = 'BuildDirs.error_making_dirs'
    if handoff not in prog.funcs:
        return
    n = 0
    for f in prog.funcs.values():
        if f.cls != R.builder:
            continue
        for t in ast.walk(f.node):
            if not isinstance(t, ast.Try):
                continue
            for h in t.handlers:
                def hands_off(c, fn, depth=0):
                    for g in prog.resolve_call(c, fn):
                        if isinstance(g, Func) and g.qualname == handoff:
                            return True
                        if isinstance(g, Func) and g.cls == R.builder and \
                                not g.is_public and depth < 2 and any(
                                    hands_off(c2, g, depth + 1)
                                    for c2 in prog.calls_in(g)):
                            return True
                    return False
                if not any(isinstance(c, ast.Call) and hands_off(c, f)
                           for st in h.body for c in ast.walk(st)):
                    continue
                n += 1
                names = ['BaseException'] if h.type is None else [
                    ast.unparse(x).split('.')[-1] for x in (
                        h.type.elts if isinstance(h.type, ast.Tuple)
                        else [h.type])]
                key = 'hand-off handler in %s catches every failure' % \
                    f.qualname
                if set(names) & {'Exception', 'BaseException'}:
                    rc.ok({'handler': '/'.join(names)}, key=key)
                else:
                    rc.violation(
                        'handoff-handler-narrow | ' + f.qualname,
                        'the handler that hands the already created parent '
                        'directories off for removal catches only %s: when '
                        'creating a later component fails in another way '
                        '(ValueError for an embedded NUL byte) the '
                        'directories made so far stay on disk, visible and '
                        'unrecorded' % '/'.join(names),
                        prog.loc(f, h), key=key)
    if n < 1:
        raise AnalysisError('no handler performs the hand-off ' + handoff)


def r10_5(ctx, rc):
    """The directories a failed call created are removed by the end of the
    build: the sweep that removes them takes no containment decision by a
    string prefix (R12.5), and the value handed back is the recorded,
    JSON-normalised one (R1.11)."""
    from .c12 import path_prefix_tests
    from .c01 import returned_value_is_the_records
    path_prefix_tests(ctx, rc)
    returned_value_is_the_records(ctx, rc)


RULES = [
    ('R10.1', 'order of the build_file protocol', r10_1),
    ('R10.2', 'the failure handler is complete', r10_2),
    ('R10.3', 'provenance of the path and of the return value', r10_3),
    ('R10.4', 'partial acquisition of parent directories', r10_4),
    ('R10.5', 'the directory sweep tests containment properly; the value '
     'handed back is the recorded one', r10_5),
]
