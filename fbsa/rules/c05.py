"""C05 - cache effectiveness: the structural preconditions of a hit."""
import ast

from ..model import Func, AnalysisError
from ..taint import Taint, SHALLOW
from ..supergraph import callee_name
from .. import queries as Q
from .guards import guards
from .apply_rules import apply_rules
from .c02 import _own_filename

EXPLANATION = (
    'R5.1 listing determinism: order-nondeterministic sources (os.listdir, '
    'iteration over sets / dict views of the overlay) are sorted before '
    'they reach the recorded result of a query. R5.2: failures are not '
    'served at top level and recorded failures nested in a record remain '
    'reusable (a decider may refuse a raised nested record only for a '
    'listed reason). R5.3: the reuse branch of build_file leaves the output '
    'file alone (no backup/removal/claim of the target before a served-from-'
    'cache return). R5.4 overlay threading: every call from a function '
    'with an overlay parameter to one that has one passes the caller\'s '
    'overlay. R5.5: the replayed query uses the record\'s own name and '
    'arguments and compares result and exception class. R5.6: the routine '
    'that applies a reused subtree re-registers every nested output. '
    'Decides preconditions of a hit; which re-executions are justified for '
    'arbitrary programs, the hash memo over a history and the CreatedFiles '
    'counting invariant are not decided.'
    ' R5.7: functions receive deep copies of the recorded arguments, so a callee editing an argument in place cannot change the recorded identity (R11.1).')
# round 3/4 additions
EXPLANATION += (
    " R5.8: CreatedFiles' count arithmetic of registering/forgetting an output is mutually inverse and both sides walk the ancestors. R5.9: records are complete and in completion order (R1.2) and created directories are owned (R9.6).")


def r5_1(ctx, rc):
    R = ctx.R
    prog = ctx.prog
    ex = R.executor

    def is_source(e, func, cn):
        if isinstance(e, ast.Call):
            names = prog.resolve_call(e, func)
            if 'os.listdir' in names or 'os.scandir' in names:
                return 'os.listdir result (directory order)'
            if isinstance(e.func, ast.Attribute) and e.func.attr in (
                    'values', 'keys', 'items') and any(
                        isinstance(n, str) and n.startswith('method:')
                        for n in names):
                if func.cls == 'CreatedFiles' or func.cls == ex:
                    return 'dict view (insertion order of the overlay)'
            if any(n in ('builtins.set', 'builtins.frozenset')
                   for n in names if isinstance(n, str)):
                return 'set (iteration order)'
        if isinstance(e, (ast.Set, ast.SetComp)):
            return 'set (iteration order)'
        return None
    T = Taint(ctx.H, is_source, cut=('builtins.sorted',),
              propagate=SHALLOW - {'builtins.set', 'builtins.sorted',
                                   'builtins.frozenset'})
    ops = prog.operations_names(ex) or set()
    if len(ops) < 5:
        raise AnalysisError('OPERATIONS not found')
    # functions reachable from the operations inside the executor
    reach = set()
    todo = [prog.lookup_method(ex, o) for o in sorted(ops)]
    todo = [t for t in todo if t is not None]
    while todo:
        f = todo.pop()
        if f.qualname in reach:
            continue
        reach.add(f.qualname)
        for call in prog.calls_in(f):
            for g in prog.resolve_call(call, f):
                if isinstance(g, Func) and g.cls == ex:
                    todo.append(g)
    n = 0
    for q in sorted(reach):
        f = prog.funcs[q]
        cfg = ctx.E.cfgs.get(f)
        sinks = []
        if f.name in ops:
            for rn in cfg.nodes:
                if rn.kind == 'return' and rn.polarity == 'N':
                    sinks.append((rn.ast.value, rn, 'return of ' + q))
                elif rn.kind == 'cond' and any(
                        cfg.nodes[d].kind == 'return' for d, _ in rn.succ):
                    sinks.append((rn.atom, rn, 'return of ' + q))
        for call in prog.calls_in(f):
            fn = call.func
            if isinstance(fn, ast.Attribute) and fn.attr in (
                    'append', 'extend', 'insert') and isinstance(
                        fn.value, ast.Name) and fn.value.id in f.params:
                cns = ctx.H.node_of(f, call)
                for a in call.args:
                    sinks.append((a, cns[0], 'element added to %s in %s' % (
                        fn.value.id, q)))
        for e, cn, what in sinks:
            n += 1
            tr = T.tainted(e, f, cn)
            key = what
            if tr:
                rc.violation(
                    'unsorted-listing | ' + what,
                    'an order-nondeterministic value reaches the recorded '
                    'result of a query without being sorted (%s): equal '
                    'states replay as different, or the recorded order '
                    'depends on the platform' % what,
                    prog.loc(f, e), tr, key=key)
            else:
                rc.ok({'sink': what}, key=key)
    if n < 8:
        raise AnalysisError('only %d listing sinks found' % n)


def r5_2(ctx, rc):
    G = guards(ctx)
    G.check(rc, columns={'NOT_RAISED', 'NOT_NONE', 'REPLAY_OK'},
            rule_prefix='hit')
    # recorded failures nested in a record stay reusable: with `raised`
    # assumed true the decider can still answer "reuse"
    for d, kind in sorted(G.nested.items(), key=lambda x: x[0].qualname):
        if kind not in ('nested_file', 'nested_sub'):
            continue
        sg = G.graph(d)

        def not_raised_edge(lab):
            return isinstance(lab, tuple) and len(lab) == 4 and \
                lab[0] == 'F' and isinstance(
                    ctx.H.subst(lab[1], lab[2], lab[3]), ast.Attribute) and \
                ctx.H.subst(lab[1], lab[2], lab[3]).attr == 'raised'
        seen = sg.reach([sg.entry],
                        edge_ok=lambda a, b, lab: not not_raised_edge(lab))
        key = '%s: a recorded (caught) failure is reusable' % d.qualname
        if not (G.positive_exits(sg) & set(seen)):
            rc.violation(
                'failure-never-reused | ' + d.qualname,
                'the nested decider %s refuses every record whose function '
                'raised: a committed record that caught a nested failure is '
                're-executed on every build although nothing changed'
                % d.qualname, d.file, key=key)
        else:
            rc.ok({'decider': d.qualname,
                   'raised_records_reusable': True}, key=key)


def r5_3(ctx, rc):
    R = ctx.R
    from .c08 import _builder_graph, _is_user
    F, sg = _builder_graph(ctx, '_build_file')
    bad_callees = ('FileBackups.back_up_and_remove',
                   R.builder + '._try_to_remove_file',
                   R.cache + '.start_building_file')

    def touches_target(x):
        if x.kind not in ('leaf', 'enter') or callee_name(x) not in \
                bad_callees:
            return False
        if callee_name(x) == R.cache + '.start_building_file':
            return True
        return bool(x.call.args) and _own_filename(
            ctx.H.subst_frames(x.call.args[0], x))
    pre = sg.reach([sg.entry], avoid=_is_user)
    cands = [x for x in sg.nodes if x.id in pre and touches_target(x)]
    key = '%s: a served-from-cache return leaves the output alone' % \
        F.qualname
    bad = None
    for c in cands:
        post = sg.reach([c.id], avoid=_is_user)
        if any(e in post for e in sg.normal_exits()):
            bad = (c, post)
    if bad:
        rc.violation(
            'reuse-touches-output | ' + callee_name(bad[0]),
            'build_file can return without running the function after it '
            'already applied %s to the target (a reused output is moved or '
            'rewritten: same content, new inode/mtime)' % callee_name(bad[0]),
            bad[0].where(), key=key)
    else:
        rc.ok({'order': 'reuse attempt precedes backup and claim',
               'candidates': len(cands)}, key=key)


def overlay_params(ctx):
    """qualname -> parameter name typed CreatedFiles (the replay overlay)."""
    out = {}
    for (q, p), ts in ctx.prog.param_types.items():
        if 'CreatedFiles' in ts:
            out[q] = p
    return out


def r5_4(ctx, rc):
    prog = ctx.prog
    ov = overlay_params(ctx)
    if len(ov) < 12:
        raise AnalysisError('only %d functions with an overlay parameter'
                            % len(ov))
    n = 0
    for q, p in sorted(ov.items()):
        f = prog.funcs[q]
        for call in prog.calls_in(f):
            for g in prog.resolve_call(call, f):
                if not isinstance(g, Func) or g.qualname not in ov:
                    continue
                n += 1
                b = prog.bind_args(call, g)
                a = b.get(ov[g.qualname])
                key = '%s -> %s' % (q, g.qualname)
                if isinstance(a, ast.Name) and a.id == p:
                    rc.ok({'call': key, 'overlay': p}, key=key)
                else:
                    rc.violation(
                        'overlay-dropped | ' + key,
                        '%s has the replay overlay but calls %s with %s in '
                        'the overlay position: the replayed query does not '
                        'see the outputs of its own record' % (
                            q, g.qualname,
                            ast.unparse(a) if a is not None and not
                            isinstance(a, list) else 'nothing'),
                        prog.loc(f, call), key=key)
    if n < 20:
        raise AnalysisError('only %d overlay call sites' % n)


def r5_5(ctx, rc):
    from .c01 import r1_1
    r1_1(ctx, rc)
    guards(ctx).check(rc, kinds={'simple'}, rule_prefix='replay-query')


def r5_6(ctx, rc):
    apply_rules(ctx, rc)
    G = guards(ctx)
    G.check(rc, columns={'RAISED_OR_OUTPUT_INTACT', 'OUTPUT_INTACT',
                         'PARENTS_MAKEABLE', 'OVERLAY_STARTED',
                         'OVERLAY_CLOSED'}, rule_prefix='hit')
    # replay mirrors execution for a nested output: started before its
    # suboperations are replayed; closed as failed iff the record raised
    for d, kind in G.nested.items():
        if kind != 'nested_file':
            continue
        sg = G.graph(d)
        rr = G.replay.qualname
        w = Q.first_unguarded(
            sg, [sg.entry],
            lambda x: Q.is_done(x, 'CreatedFiles.started_building_file'),
            lambda x: Q.is_call(x, rr))
        key = '%s: overlay started before the suboperations are replayed' \
            % d.qualname
        if w:
            rc.violation('overlay-order | ' + d.qualname,
                         'the recorded suboperations of a nested output are '
                         'replayed before its directories are regarded as '
                         'created in the overlay', d.file,
                         sg.describe_path(w), key=key)
        else:
            rc.ok({'order': key}, key=key)

        def raised_edge(lab, pol):
            if not (isinstance(lab, tuple) and len(lab) == 4 and
                    lab[0] == pol):
                return False
            a = ctx.H.subst(lab[1], lab[2], lab[3])
            return isinstance(a, ast.Attribute) and a.attr == 'raised'
        for callee, pol, what in (
                ('CreatedFiles.error_building_file', 'T', 'raised'),
                ('CreatedFiles.finished_building_file', 'F', 'succeeded')):
            tgt = [x for x in sg.nodes if Q.is_call(x, callee)]
            seen = sg.reach([sg.entry], edge_ok=lambda a, b, lab, pol=pol:
                            not raised_edge(lab, pol))
            key = '%s: %s only for records that %s' % (
                d.qualname, callee, what)
            if not tgt:
                rc.violation('overlay-close-missing | ' + callee,
                             '%s never calls %s' % (d.qualname, callee),
                             d.file, key=key)
            elif any(t.id in seen for t in tgt):
                rc.violation('overlay-close-polarity | ' + callee,
                             '%s can call %s for a record that has not %s: '
                             'the replay sees a different tree than the '
                             'execution did' % (d.qualname, callee, what),
                             tgt[0].where(), key=key)
            else:
                rc.ok({'close': key}, key=key)


def r5_7(ctx, rc):
    """Functions receive deep copies of the recorded arguments: a callee that
    edits an argument in place must not change the recorded identity (the
    record would never match again - re-execution on every build)."""
    from .c11 import r11_1
    r11_1(ctx, rc)


def r5_8(ctx, rc):
    """The overlay's bookkeeping: forgetting a failed output is the inverse
    of registering it (count arithmetic and the ancestor walk)."""
    from .refcount import refcount_rule, ancestor_walk_rule
    refcount_rule(ctx, rc, 'CreatedFiles.started_building_file',
                  'CreatedFiles.error_building_file', same_stop=False)
    ancestor_walk_rule(ctx, rc, 'CreatedFiles.started_building_file',
                       'CreatedFiles.error_building_file')
    from .refcount import subfiles_rule
    subfiles_rule(ctx, rc)


def r5_9(ctx, rc):
    """What the next build is told about this one is complete and in the
    order things finished: every observation is recorded on every exit, in
    completion order (R1.2), and every directory the build created has an
    owner (R9.6) - otherwise an unchanged rebuild answers differently and
    re-executes."""
    from .c01 import r1_2, r1_5
    from .c09 import r9_6
    r1_2(ctx, rc)
    r9_6(ctx, rc)
    # every root record and everything nested in it reaches the cache file
    # (R16.5, R16.6), and a reused record registers what is nested in it
    # (R1.5): a record that is dropped is a call that runs again
    from .c16 import r16_5, r16_6
    r16_5(ctx, rc)
    r16_6(ctx, rc)
    r1_5(ctx, rc)


def r5_10(ctx, rc):
    """The case check of an output's name (``Path.resolve().name`` against
    the base name) is a Windows matter: ``resolve`` also follows symbolic
    links, so on other platforms an output that is a link to a differently
    named file would never pass it and be rebuilt on every build.  Every
    ``resolve`` in the builder is evaluated only under the platform flag."""
    prog = ctx.prog
    R = ctx.R
    n = 0
    for F in prog.funcs.values():
        if F.cls != R.builder:
            continue
        for call in prog.calls_in(F):
            f = call.func
            if not (isinstance(f, ast.Attribute) and f.attr in (
                    'resolve', 'realpath')):
                continue
            n += 1
            sg = ctx.E.super(F, lambda g: False)
            site = [x for x in sg.nodes if x.kind == 'leaf' and
                    x.call is call]
            key = 'platform guard of %s in %s' % (f.attr, F.qualname)
            ok = False
            if site:
                for pol, atom, f_, c_ in Q.control_facts(sg, site[0].id):
                    a = ctx.H.subst(atom, f_, c_)
                    if pol == 'T' and (
                            isinstance(a, ast.Attribute) and
                            a.attr == '_IS_WINDOWS' or
                            isinstance(a, ast.Name) and
                            a.id == '_IS_WINDOWS'):
                        ok = True
                    if isinstance(a, ast.Compare) and len(a.ops) == 1 and \
                            'os.name' in ast.unparse(a) and (
                                (isinstance(a.ops[0], ast.Eq) and
                                 pol == 'T') or
                                (isinstance(a.ops[0], ast.NotEq) and
                                 pol == 'F')):
                        ok = True
            if ok:
                rc.ok({'call': ast.unparse(call)[:40], 'only_on': 'Windows'},
                      key=key)
            else:
                rc.violation(
                    'case-check-unguarded | ' + F.qualname,
                    '%s resolves the path (following symbolic links) '
                    'without being limited to the case-insensitive '
                    'platform: an output that is a symbolic link to a file '
                    'of another name never matches and is rebuilt on every '
                    'build' % F.qualname, prog.loc(F, call), key=key)
    if n == 0:
        rc.ok({'resolve_calls': 0}, key='no path resolution in the builder')
    # the flag itself says "Windows"
    v = None
    for c in prog.mro(R.builder):
        v = v or prog.classes[c].class_attrs.get('_IS_WINDOWS')
    if v is None:
        for mod, globs in prog.module_globals.items():
            v = v or globs.get('_IS_WINDOWS')
    if v is not None:
        txt = ast.unparse(v)
        good = isinstance(v, ast.Compare) and len(v.ops) == 1 and \
            isinstance(v.ops[0], ast.Eq) and any(
                isinstance(x, ast.Constant) and x.value in (
                    'nt', 'Windows', 'win32') for x in ast.walk(v)) or (
                isinstance(v, ast.Call) and 'startswith' in txt and
                "'win" in txt)
        key = 'the platform flag is true on Windows only'
        if good:
            rc.ok({'flag': txt[:40]}, key=key)
        else:
            rc.violation('platform-flag | _IS_WINDOWS',
                         'the platform flag is defined as %s' % txt[:60],
                         R.builder, key=key)


RULES = [
    ('R5.1', 'listings are sorted before they are recorded', r5_1),
    ('R5.2', 'failures are not served at top level; nested ones reusable',
     r5_2),
    ('R5.3', 'the reuse branch leaves the output file alone', r5_3),
    ('R5.4', 'the overlay is threaded through every replayed query', r5_4),
    ('R5.5', 'the replayed query is the recorded query', r5_5),
    ('R5.6', 'a reused subtree is re-registered completely', r5_6),
    ('R5.7', 'recorded arguments are not aliased with the callee', r5_7),
    ('R5.8', 'overlay: forgetting a failed output inverts registering it',
     r5_8),
    ('R5.9', 'records are complete and in completion order; dirs owned',
     r5_9),
    ('R5.10', 'the name-case check is limited to the case-insensitive '
     'platform', r5_10),
]
