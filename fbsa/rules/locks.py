"""Lock discipline shared by C08, C09 and C17: guarded-field table, static
lockset of every access, lock-acquisition graph."""
import ast

from ..model import Func, AnalysisError

# class -> {field: lock attr}.  Frozen from the class comments and confirmed
# by reading (a comment edit must not change a verdict); cross-checked
# against the code on every run: every lock attribute found in a constructor
# guards at least one field, every field and lock named here exists.
GUARDS = {
    'Cache': {
        '_files': '_files_lock', '_norm_cased_files': '_files_lock',
        '_subbuilds': '_subbuilds_lock',
        '_created_dirs': '_created_dirs_lock'},
    'BuildDirs': {f: '_lock' for f in (
        '_build_dir_counts', '_created_dirs_map', '_error_created_dirs',
        '_removed_dirs', '_exists_dirs', '_maybe_removed_dirs',
        '_removed_files')},
    'FileBackups': {'_backups': '_lock', '_next_backup_index': '_lock'},
    'SimpleOperationExecutor': {'_hash_cache': '_hash_cache_lock'},
}
# accesses exempt from the lockset rule, one line of reason each
EXEMPT = {
    ('FileBackups', '__exit__'):
        'teardown: runs when the with block of build_versioned ends, after '
        '_build returned or raised',
}
DOCUMENTED_ORDER = [('Cache', '_files_lock'), ('Cache', '_subbuilds_lock'),
                    ('Cache', '_created_dirs_lock')]


# guarded fields a class may do without, one line of reason each; what the
# field was for is then decided by another rule
OPTIONAL = {
    'FileBackups': {
        '_next_backup_index':
            'the backup ticket may come from elsewhere (e.g. the length of '
            '_backups); R9.7 decides that the replacement is unique',
    },
}


def _mentioned(ctx, cname, fld):
    cls = ctx.prog.classes[cname]
    return any(isinstance(n, ast.Attribute) and n.attr == fld
               for m in cls.methods.values() for n in ast.walk(m.node))


def check_table(ctx):
    prog = ctx.prog
    locks = set(ctx.H.lock_attrs())
    used = set()
    for c, tbl in GUARDS.items():
        if c not in prog.classes:
            raise AnalysisError('anchor vanished: class ' + c)
        for fld, lk in tbl.items():
            if (c, lk) not in locks:
                raise AnalysisError('lock %s.%s is not a threading.Lock '
                                    'assigned in a constructor' % (c, lk))
            if not ctx.H._has_attr_store(c, fld):
                if fld in OPTIONAL.get(c, ()) and not _mentioned(ctx, c, fld):
                    continue
                raise AnalysisError('guarded field %s.%s vanished' % (c, fld))
            used.add((c, lk))
    return locks, used


def mutable_cache_is_locked(ctx, rc):
    """The cache that is modified during a build (is_mutable) is the one
    whose lock attributes are real locks; the read-only one may use null
    contexts."""
    from ..astpaths import cond_paths
    prog = ctx.prog
    C = ctx.R.cache
    init = prog.lookup_method(C, '__init__')
    flag = next((p for p in init.params if 'mutable' in p), None)
    if flag is None:
        raise AnalysisError('mutability flag of %s not found' % C)
    tbl = set(GUARDS[C].values())
    ok_real, bad = set(), []
    paths = cond_paths(init.node.body)
    # definitions of locals (tuple assignments element-wise), with the
    # conditions they stand under
    ldefs = {}
    for conds, st in paths:
        if not isinstance(st, ast.Assign):
            continue
        for t in st.targets:
            if isinstance(t, ast.Name):
                ldefs.setdefault(t.id, []).append((st.value, conds))
            elif isinstance(t, (ast.Tuple, ast.List)) and isinstance(
                    st.value, (ast.Tuple, ast.List)) and len(
                        t.elts) == len(st.value.elts):
                for te, ve in zip(t.elts, st.value.elts):
                    if isinstance(te, ast.Name):
                        ldefs.setdefault(te.id, []).append((ve, conds))
    for conds, st in paths:
        if not isinstance(st, ast.Assign):
            continue
        for t in st.targets:
            if isinstance(t, ast.Attribute) and t.attr in tbl:
                vals = [(st.value, conds)]
                if isinstance(st.value, ast.Name) and st.value.id in ldefs:
                    vals = [(v, conds + c2) for v, c2 in ldefs[st.value.id]]
                for v, cs in vals:
                    real = isinstance(v, ast.Call) and ast.unparse(
                        v.func).split('.')[-1] in ('Lock', 'RLock')
                    pol = [p for tst, p in cs if isinstance(
                        tst, ast.Name) and tst.id == flag]
                    if real and (not pol or pol[-1]):
                        ok_real.add(t.attr)
                    if not real and pol and pol[-1]:
                        bad.append((t.attr, st))
    key = 'the mutable cache owns real locks'
    missing = tbl - ok_real
    if missing or bad:
        rc.violation(
            'mutable-cache-unlocked | ' + C,
            'when %s is true the lock attribute(s) %s of %s are not '
            'threading locks: the cache that all threads of a build modify '
            'is not protected' % (flag, sorted(missing | {a for a, _ in bad}),
                                  C), prog.loc(init, init.node), key=key)
    else:
        rc.ok({'flag': flag, 'locks': sorted(ok_real)}, key=key)


def accesses(ctx, cname, fields):
    """Every load/store of self.<field> in methods of the class (and of
    <expr of that class>.<field> anywhere): (func, attr node, cfg nodes)."""
    prog = ctx.prog
    out = []
    for f in prog.funcs.values():
        for n in ast.walk(f.node):
            if not (isinstance(n, ast.Attribute) and n.attr in fields):
                continue
            ts = prog.type_of(n.value, f)
            if cname not in [c for t in ts if t in prog.classes
                             for c in prog.mro(t)] and not (
                    f.cls and cname in prog.mro(f.cls) and
                    isinstance(n.value, ast.Name) and
                    n.value.id == f.self_name):
                continue
            cns = ctx.H.node_of(f, n)
            out.append((f, n, cns))
    return out


def lockset_rule(ctx, rc, classes, rule_key='lockset'):
    ent = ctx.H.entry_locksets()
    for cname in classes:
        tbl = GUARDS[cname]
        for f, n, cns in accesses(ctx, cname, set(tbl)):
            if f.name == '__init__':
                continue
            if (f.cls, f.name) in EXEMPT:
                continue
            need = (cname, tbl[n.attr])
            key = '%s | %s.%s in %s' % (rule_key, cname, n.attr, f.qualname)
            if not cns:
                raise AnalysisError('no CFG node for access at %s' % (
                    ctx.prog.loc(f, n)))
            bad = None
            for cn in cns:
                held = set(ent.get(f.qualname, ())) | set(
                    ctx.H.syntactic_locks(cn, f))
                if need not in held:
                    bad = (cn, held)
            if bad:
                rc.violation(
                    key, '%s.%s is accessed in %s without holding %s.%s '
                    '(held: %s)' % (cname, n.attr, f.qualname, need[0],
                                    need[1], sorted(bad[1]) or 'nothing'),
                    ctx.prog.loc(f, n), key=key)
            else:
                rc.ok({'field': cname + '.' + n.attr, 'in': f.qualname,
                       'lock': need[1]}, key=key)


def acquires(ctx):
    """qualname -> set of locks acquired by the function or its callees
    (USER re-enters every public builder method)."""
    if 'acquires' in ctx.memo:
        return ctx.memo['acquires']
    prog = ctx.prog
    direct = {}
    edges = {}
    user = set()
    for f in prog.funcs.values():
        s = set()
        for n in ast.walk(f.node):
            if isinstance(n, ast.With):
                for it in n.items:
                    lk = ctx.H.lock_of_item(it, f)
                    if lk:
                        s.add(lk)
        direct[f.qualname] = s
        es = set()
        for call in prog.calls_in(f):
            for g in prog.resolve_call(call, f):
                if isinstance(g, Func):
                    es.add(g.qualname)
                elif g == 'USER':
                    user.add(f.qualname)
        edges[f.qualname] = es
    reent = {m.qualname for m in ctx.R.public_instance_methods}
    acq = {q: set(s) for q, s in direct.items()}
    changed = True
    while changed:
        changed = False
        for q in acq:
            tg = set(edges[q])
            if q in user:
                tg |= reent
            for t in tg:
                if not acq[t] <= acq[q]:
                    acq[q] |= acq[t]
                    changed = True
    ctx.memo['acquires'] = acq
    ctx.memo['user_funcs'] = user
    return acq


def lock_graph(ctx):
    """Edges (A, B, where) : B is acquired while A is held."""
    prog = ctx.prog
    acq = acquires(ctx)
    ent = ctx.H.entry_locksets()
    edges = []
    regions = 0
    for f in prog.funcs.values():
        cfg = ctx.E.cfgs.get(f)
        seen_with = set()
        for cn in cfg.nodes:
            held_before = set(ent.get(f.qualname, ()))
            if cn.kind == 'with_enter':
                lk = ctx.H.lock_of_item(cn.item, f)
                outer = set(ctx.H.syntactic_locks(cn, f)) | held_before
                if lk and id(cn.item) not in seen_with:
                    seen_with.add(id(cn.item))
                    regions += 1
                    for a in outer:
                        edges.append((a, lk, prog.loc(f, cn.ast) + ' ' +
                                      f.qualname))
            held = set(ctx.H.syntactic_locks(cn, f)) | held_before
            if not held:
                continue
            for e in cn.exprs:
                for call in ast.walk(e):
                    if not isinstance(call, ast.Call):
                        continue
                    for g in prog.resolve_call(call, f):
                        tg = set()
                        if isinstance(g, Func):
                            tg = acq[g.qualname]
                        elif g == 'USER':
                            for m in ctx.R.public_instance_methods:
                                tg |= acq[m.qualname]
                        for b in tg:
                            for a in held:
                                edges.append((a, b, '%s %s calls %s' % (
                                    prog.loc(f, call), f.qualname,
                                    g.qualname if isinstance(g, Func)
                                    else g)))
    return edges, regions


# mutable attributes of the lock-owning classes that need no lock, one line
# of reason each; the census verifies the reason (no mutation outside the
# constructor)
READONLY_AFTER_INIT = {
    ('Cache', '_func_versions'):
        'the version map is only read (.get) and serialised after '
        'construction',
    ('Cache', '_operation_versions'):
        'only read (.get) and serialised after construction',
}
MUTABLE_CTORS = {'dict', 'list', 'set', 'bytearray', 'defaultdict', 'deque',
                 'OrderedDict', 'Counter', 'array', 'memoryview'}
MUTATORS = {'update', 'add', 'pop', 'clear', 'remove', 'discard',
            'setdefault', 'append', 'extend', 'insert', 'popitem', 'sort',
            'reverse', 'appendleft', 'popleft'}


def shared_state_census(ctx, rc, classes=None):
    """Every attribute of a lock-owning (thread-shared) class that holds a
    mutable container or buffer is either in the guarded-field table (then
    the lockset rule covers every access) or provably read-only after
    construction.  A new scratch buffer or memo added to such a class is
    reported until it is classified."""
    prog = ctx.prog
    n = 0
    for cname in classes or sorted(GUARDS):
        init = prog.lookup_method(cname, '__init__')
        if init is None:
            raise AnalysisError('no constructor for ' + cname)
        tbl = GUARDS[cname]
        seen = set()
        for a in ast.walk(init.node):
            if not isinstance(a, ast.Assign):
                continue
            for t in a.targets:
                if not (isinstance(t, ast.Attribute) and isinstance(
                        t.value, ast.Name) and
                        t.value.id == init.self_name):
                    continue
                v = a.value
                ts = prog.type_of(v, init)
                mutable = isinstance(v, (
                    ast.Dict, ast.List, ast.Set, ast.ListComp, ast.SetComp,
                    ast.DictComp)) or (
                        isinstance(v, ast.Call) and ast.unparse(
                            v.func).split('.')[-1] in MUTABLE_CTORS) or bool(
                                ts & {'ext:dict', 'ext:list', 'ext:set',
                                      'ext:bytearray'})
                if not mutable or t.attr in seen:
                    continue
                seen.add(t.attr)
                n += 1
                key = 'shared mutable attribute %s.%s' % (cname, t.attr)
                if t.attr in tbl:
                    rc.ok({'attribute': key, 'lock': tbl[t.attr]}, key=key)
                    continue
                if (cname, t.attr) in READONLY_AFTER_INIT:
                    bad = _mutation_outside_init(ctx, cname, t.attr)
                    if bad is None:
                        rc.ok({'attribute': key, 'read_only':
                               READONLY_AFTER_INIT[(cname, t.attr)]}, key=key)
                    else:
                        rc.violation(
                            'shared-state | %s.%s' % (cname, t.attr),
                            '%s.%s is listed as read-only after construction '
                            'but is modified in %s' % (
                                cname, t.attr, bad[0].qualname),
                            prog.loc(bad[0], bad[1]), key=key)
                    continue
                rc.violation(
                    'shared-state | %s.%s' % (cname, t.attr),
                    '%s objects are shared by all threads of a build; the '
                    'mutable attribute .%s (%s) is not guarded by a lock of '
                    'the class: two threads using it at the same time read '
                    'each other\'s data' % (
                        cname, t.attr, ast.unparse(v)[:40]),
                    prog.loc(init, a), key=key)
    if n < (10 if classes is None else 1):
        raise AnalysisError('only %d shared mutable attributes found' % n)


def _mutation_outside_init(ctx, cname, attr):
    prog = ctx.prog
    for f, n, cns in accesses(ctx, cname, {attr}):
        if f.name == '__init__':
            continue
        par = prog.parent(n)
        if isinstance(n.ctx, (ast.Store, ast.Del)):
            return f, n
        if isinstance(par, ast.Subscript) and isinstance(
                par.ctx, (ast.Store, ast.Del)):
            return f, n
        if isinstance(par, ast.AugAssign) and par.target is n:
            return f, n
        if isinstance(par, ast.Attribute) and par.attr in MUTATORS and \
                isinstance(prog.parent(par), ast.Call):
            return f, n
    return None
