"""C09 - thread safety: deadlock freedom and data-race freedom of guarded
state."""
import ast

from ..model import Func, AnalysisError
from . import locks as L

EXPLANATION = (
    'R9.1: the lock-acquisition graph (edge A->B when B is acquired, directly '
    'or anywhere in a callee, while A is held; a user callback re-enters '
    'every public builder method) is acyclic, has no self-loop on a '
    'non-reentrant lock and respects the order documented in Cache. R9.2: no '
    'user callback is reachable while a lock is held. R9.3: Eraser-style '
    'static lockset - every access to a guarded field of Cache, BuildDirs, '
    'FileBackups and the executor happens with its guard in the '
    'interprocedural lockset. R9.4: every Cache method that mutates a '
    'guarded map is only called on the mutable (new) cache. Decides absence '
    'of deadlock and of data races on guarded state; equivalence with a '
    'sequential run (atomicity across critical sections) is not decided.'
    " R9.5: shared mkdir tolerates a concurrent creator (handler that swallows FileExistsError / exist_ok). R9.6: whenever a reservation is counted the caller's created directories are consulted before the loop is left, so a concurrently created directory keeps an owner. R9.7: guarded counters are read and incremented in one critical section. A ticket taken from len() of a guarded collection needs the collection to grow in the same critical section. R9.8: a rejected call releases its directory reservation (typestate of C14 on _build_file). R9.9: the claim/run/finish protocol of C08 (R8.2, R8.3).")
# round 3/4 additions
EXPLANATION += (
    ' R9.3 includes a census of the shared mutable state of the lock-owning classes (guarded, or read-only after construction with that verified). R9.6 also decides completeness of the ownership transfer on the already-reserved path. R9.9 includes the subtree repeat test (R8.2b) and the failure order of build_file (R10.2).')


def r9_1(ctx, rc):
    locks_found, used = L.check_table(ctx)
    for lk in sorted(locks_found):
        if lk not in used and lk[0] != ctx.R.builder:
            raise AnalysisError(
                'lock %s.%s guards no field in the frozen table' % lk)
    edges, regions = L.lock_graph(ctx)
    if regions < 10:
        raise AnalysisError('only %d lock regions found' % regions)
    order = {lk: i for i, lk in enumerate(L.DOCUMENTED_ORDER)}
    es = {}
    for a, b, where in edges:
        es.setdefault((a, b), where)
    for (a, b), where in sorted(es.items()):
        key = 'edge %s.%s -> %s.%s' % (a[0], a[1], b[0], b[1])
        if a == b:
            rc.violation('lock-self | ' + key,
                         'non-reentrant lock %s.%s may be acquired while it '
                         'is already held (self-deadlock)' % a, where,
                         key=key)
        elif a in order and b in order and order[a] > order[b]:
            rc.violation('lock-order | ' + key,
                         'lock order violates the documented order '
                         '(_files_lock, _subbuilds_lock, _created_dirs_lock)',
                         where, key=key)
        else:
            rc.ok({'edge': key, 'at': where}, key=key)
    # acyclicity
    adj = {}
    for (a, b) in es:
        if a != b:
            adj.setdefault(a, set()).add(b)
    color = {}
    cyc = []

    def dfs(u, stack):
        color[u] = 1
        for v in sorted(adj.get(u, ())):
            if color.get(v) == 1:
                cyc.append(stack + [u, v])
            elif v not in color:
                dfs(v, stack + [u])
        color[u] = 2
    for u in sorted(adj):
        if u not in color:
            dfs(u, [])
    if cyc:
        c = cyc[0]
        rc.violation('lock-cycle | ' + ' -> '.join('%s.%s' % x for x in c),
                     'the lock-acquisition graph has a cycle', '',
                     ['%s.%s' % x for x in c], key='cycle')
    else:
        rc.ok({'acyclic': True, 'locks': len(locks_found),
               'edges': len(es), 'lock_regions': regions}, key='acyclic')
    rc.note('%d locks, %d distinct edges, %d with-lock regions' % (
        len(locks_found), len(es), regions))


def r9_2(ctx, rc):
    prog = ctx.prog
    L.acquires(ctx)
    # transitive "may reach a USER call"
    reach_user = set(ctx.memo['user_funcs'])
    callers = prog.callers()
    changed = True
    while changed:
        changed = False
        for q in list(reach_user):
            for caller, _ in callers.get(q, []):
                if caller.qualname not in reach_user:
                    reach_user.add(caller.qualname)
                    changed = True
    ent = ctx.H.entry_locksets()
    n = 0
    for f in prog.funcs.values():
        cfg = ctx.E.cfgs.get(f)
        for cn in cfg.nodes:
            held = set(ctx.H.syntactic_locks(cn, f)) | set(
                ent.get(f.qualname, ()))
            if not held:
                continue
            for e in cn.exprs:
                for call in ast.walk(e):
                    if not isinstance(call, ast.Call):
                        continue
                    n += 1
                    for g in prog.resolve_call(call, f):
                        bad = (g == 'USER') or (
                            isinstance(g, Func) and g.qualname in reach_user)
                        key = 'call in lock region | %s -> %s' % (
                            f.qualname, g.qualname if isinstance(g, Func)
                            else g)
                        if bad:
                            rc.violation(
                                'user-under-lock | ' + key,
                                'a user callback is reachable while %s is '
                                'held (re-entry would self-deadlock)' % (
                                    sorted(held),), prog.loc(f, call),
                                key=key)
                        else:
                            rc.ok(None, key=key)
    if n == 0:
        raise AnalysisError('no call inside any lock region')
    rc.samples.append({'calls_inside_lock_regions': n})


def r9_3(ctx, rc):
    L.check_table(ctx)
    L.lockset_rule(ctx, rc, ['BuildDirs', 'FileBackups',
                             'SimpleOperationExecutor', 'Cache'])
    L.shared_state_census(ctx, rc)
    L.mutable_cache_is_locked(ctx, rc)


def mutators(ctx):
    """Cache methods that store into a guarded map (directly or through a
    private helper of the class)."""
    prog = ctx.prog
    C = ctx.R.cache
    tbl = L.GUARDS[C]
    direct = set()
    for m in prog.classes[C].methods.values():
        if m.name == '__init__':
            continue
        for n in ast.walk(m.node):
            tgt = None
            if isinstance(n, (ast.Assign, ast.AugAssign, ast.Delete)):
                ts = n.targets if not isinstance(n, ast.AugAssign) \
                    else [n.target]
                for t in ts:
                    if isinstance(t, ast.Subscript):
                        t = t.value
                    if isinstance(t, ast.Attribute) and t.attr in tbl:
                        tgt = t
            if (isinstance(n, ast.Call) and isinstance(n.func, ast.Attribute)
                    and n.func.attr in ('update', 'add', 'pop', 'clear',
                                        'remove', 'discard', 'setdefault',
                                        'append', 'popitem') and
                    isinstance(n.func.value, ast.Attribute) and
                    n.func.value.attr in tbl):
                tgt = n.func.value
            if tgt is not None:
                direct.add(m.qualname)
    allm = set(direct)
    changed = True
    while changed:
        changed = False
        for m in prog.classes[C].methods.values():
            if m.qualname in allm:
                continue
            for call in prog.calls_in(m):
                for g in prog.resolve_call(call, m):
                    if isinstance(g, Func) and g.qualname in allm:
                        allm.add(m.qualname)
                        changed = True
    return allm


def r9_4(ctx, rc):
    prog = ctx.prog
    C = ctx.R.cache
    muts = mutators(ctx)
    if len(muts) < 4:
        raise AnalysisError('only %d cache mutators found' % len(muts))
    n = 0
    for f in prog.funcs.values():
        if f.cls == C:
            continue
        for call in prog.calls_in(f):
            for g in prog.resolve_call(call, f):
                if not (isinstance(g, Func) and g.qualname in muts):
                    continue
                if not isinstance(call.func, ast.Attribute):
                    continue
                n += 1
                roles = set()
                for cn in ctx.H.node_of(f, call):
                    roles |= ctx.H.expr_roles(call.func.value, f, cn)
                key = 'mutator %s called in %s' % (g.qualname, f.qualname)
                if roles != {'new'}:
                    rc.violation(
                        'old-cache-mutated | ' + key,
                        '%s mutates a guarded map but is called on a cache '
                        'whose role is %s (the old cache has no locks)' % (
                            g.qualname, sorted(roles)), prog.loc(f, call),
                        key=key)
                else:
                    rc.ok({'site': key, 'receiver': ast.unparse(
                        call.func.value)}, key=key)
    if n < 5:
        raise AnalysisError('only %d mutator call sites found' % n)


def r9_5(ctx, rc):
    """Directory creation that two threads may attempt for the same path is
    atomic-or-tolerant: os.mkdir sits in a try whose handler catches
    FileExistsError (or OSError), os.makedirs passes exist_ok=True.  A
    check-then-create (isdir probe, then mkdir) loses the race."""
    prog = ctx.prog
    n = 0
    for f in prog.funcs.values():
        cfg = ctx.E.cfgs.get(f)
        for call in prog.calls_in(f):
            names = prog.resolve_call(call, f)
            if 'os.makedirs' in names:
                n += 1
                key = 'os.makedirs in ' + f.qualname
                ok = any(kw.arg == 'exist_ok' and isinstance(
                    kw.value, ast.Constant) and kw.value.value is True
                    for kw in call.keywords) or (
                        len(call.args) >= 3 and isinstance(
                            call.args[2], ast.Constant) and
                        call.args[2].value is True)
                if ok:
                    rc.ok({'create': key, 'tolerant': 'exist_ok=True'},
                          key=key)
                else:
                    rc.violation('mkdir-race | ' + key,
                                 'os.makedirs without exist_ok=True fails '
                                 'when another thread creates the directory '
                                 'first', prog.loc(f, call), key=key)
            elif 'os.mkdir' in names:
                n += 1
                key = 'os.mkdir in ' + f.qualname
                cns = ctx.H.node_of(f, call)
                ok = False
                from ..cfg import TryFrame
                for cn in cns:
                    for fr in cn.frames:
                        if isinstance(fr, TryFrame):
                            for classes, hid in fr.handlers:
                                swallows = not any(
                                    isinstance(x, ast.Raise)
                                    for x in ast.walk(cfg.nodes[hid].ast))
                                if swallows and (classes is None or any(
                                        c in ('FileExistsError', 'OSError',
                                              'Exception')
                                        for c in classes)):
                                    ok = True
                if ok:
                    rc.ok({'create': key,
                           'tolerant': 'handler for FileExistsError'},
                          key=key)
                else:
                    rc.violation(
                        'mkdir-race | ' + key,
                        'os.mkdir is not protected by a handler for '
                        'FileExistsError: when two threads build files '
                        'under the same new directory, the loser of the '
                        'race fails spuriously (check-then-create is not '
                        'atomic)', prog.loc(f, call), key=key)
    if n < 4:
        raise AnalysisError('only %d directory creation sites' % n)


def r9_6(ctx, rc):
    """Arbitration of concurrently created directories: whenever a
    reservation is counted, the caller's created-directories argument is
    consulted before the loop is left - also on the "already reserved by
    another thread" path - so that a directory this thread created is owned
    by someone."""
    F = ctx.E.func('BuildDirs.started_building_file')
    if len(F.params) < 2:
        raise AnalysisError('started_building_file lost its created-dirs '
                            'parameter')
    p = F.params[1]
    derived = {p}
    changed = True
    while changed:
        changed = False
        for n in ast.walk(F.node):
            if isinstance(n, ast.Assign) and any(
                    isinstance(x, ast.Name) and x.id in derived
                    for x in ast.walk(n.value)):
                for t in n.targets:
                    if isinstance(t, ast.Name) and t.id not in derived:
                        derived.add(t.id)
                        changed = True
    sg = ctx.E.super(F, lambda g: False)

    def counts_store(x):
        if x.kind != 'out' or x.cn.kind != 'stmt' or not isinstance(
                x.cn.ast, ast.Assign):
            return False
        return any(isinstance(t, ast.Subscript) and isinstance(
            t.value, ast.Attribute) and t.value.attr == '_build_dir_counts'
            for t in x.cn.ast.targets)

    def consults(x):
        if x.kind != 'in' or x.cn.kind not in ('cond', 'for_iter', 'stmt'):
            return False
        return any(isinstance(n, ast.Name) and n.id in derived and
                   isinstance(n.ctx, ast.Load)
                   for e in x.cn.exprs for n in ast.walk(e))
    stores = [x for x in sg.nodes if counts_store(x)]
    if not stores:
        raise AnalysisError('reservation count update not found')
    loop_heads = {x.id for x in sg.nodes
                  if x.kind == 'in' and x.cn.kind == 'join'}
    for st in stores:
        w = None
        seen = sg.reach([st.id], avoid=consults)
        for nid in sorted(seen):
            x = sg.nodes[nid]
            if nid != st.id and (x.id in sg.all_exits() or
                                 x.id in loop_heads):
                w = sg.witness(seen, nid)
                break
        key = 'created directories consulted after every reservation'
        if w:
            rc.violation(
                'ownership-skipped | BuildDirs.started_building_file',
                'after a reservation is counted the loop can be left '
                'without consulting the directories the caller created '
                '(the already-reserved path): when another thread saw the '
                'directory this thread had just created and reserved it '
                'first, nobody records it as created - clean leaves it '
                'behind, later builds treat it as foreign', st.where(),
                sg.describe_path(w), key=key)
        else:
            rc.ok({'reservation': 'BuildDirs.started_building_file',
                   'consults': sorted(derived)}, key=key)
    _ownership_transfer(ctx, rc, F, p)


def _ownership_transfer(ctx, rc, F, p):
    """On the early-stop path of the reserve walk (the directory is already
    reserved by someone else) every directory of the caller's created-dirs
    argument that has no owner yet must get one: a loop over the whole
    argument, never left early, that stores into the owner map under no
    other condition than "not in the owner map"."""
    from .refcount import Walk
    prog = ctx.prog
    w = Walk(ctx, F)
    cattrs = w.counter_attr() & Walk(ctx, ctx.E.func(
        'BuildDirs.error_building_file')).counter_attr()
    if len(cattrs) != 1:
        raise AnalysisError('reservation counter of %s not identified' %
                            F.qualname)
    cattr = next(iter(cattrs))
    loop = w.loop_of(cattr)
    if loop is None:
        raise AnalysisError('reserve walk not found in ' + F.qualname)

    def owner_store(st, func):
        """(owner attr, key expr) when st stores into a map attribute other
        than the counter - directly or through a private helper."""
        if isinstance(st, ast.Assign):
            for t in st.targets:
                if isinstance(t, ast.Subscript) and isinstance(
                        t.value, ast.Attribute) and isinstance(
                            t.value.value, ast.Name) and \
                        t.value.value.id == func.self_name and \
                        t.value.attr != cattr:
                    return t.value.attr
        if isinstance(st, ast.Expr) and isinstance(st.value, ast.Call):
            for g in prog.resolve_call(st.value, func):
                if isinstance(g, Func) and g.cls == func.cls and \
                        not g.is_public and g is not func:
                    for s2 in ast.walk(g.node):
                        a = owner_store(s2, g) if isinstance(
                            s2, ast.Assign) else None
                        if a:
                            return a
        return None
    owners = set()
    for st in ast.walk(F.node):
        a = owner_store(st, F)
        if a:
            owners.add(a)
    if len(owners) != 1:
        raise AnalysisError('owner map of %s not identified: %s' % (
            F.qualname, sorted(owners)))
    owner = owners.pop()

    # names that carry the reservation count / its presence
    cnames = set()
    grew = True
    while grew:
        grew = False
        for n in ast.walk(F.node):
            if isinstance(n, ast.Assign) and any(
                    (isinstance(x, ast.Attribute) and x.attr == cattr) or
                    (isinstance(x, ast.Name) and x.id in cnames)
                    for x in ast.walk(n.value)):
                for t in n.targets:
                    if isinstance(t, ast.Name) and t.id not in cnames:
                        cnames.add(t.id)
                        grew = True

    def count_test(t):
        return any((isinstance(x, ast.Attribute) and x.attr == cattr) or
                   (isinstance(x, ast.Name) and x.id in cnames)
                   for x in ast.walk(t))

    def stops(body):
        """Statement lists inside the walk loop (not inside inner loops)
        that end the walk because of the reservation count (leaving the loop
        because the root was reached is the loop's own termination)."""
        out = []

        def visit(stmts, in_inner, counted=False):
            for st in stmts:
                if isinstance(st, (ast.Break, ast.Return)) and not in_inner:
                    if counted:
                        out.append(stmts)
                elif isinstance(st, ast.If):
                    c2 = counted or count_test(st.test)
                    visit(st.body, in_inner, c2)
                    visit(st.orelse, in_inner, c2)
                elif isinstance(st, (ast.For, ast.While)):
                    visit(st.body, True, counted)
                elif isinstance(st, ast.With):
                    visit(st.body, in_inner, counted)
                elif isinstance(st, ast.Try):
                    visit(st.body, in_inner, counted)
        visit(body, False)
        return out
    early = stops(loop.body)
    key = 'ownership transfer on the already-reserved path'
    if not early:
        rc.ok({'walk': 'never stops early'}, key=key)
        return

    def over_whole_param(it):
        e = it
        while isinstance(e, ast.Call) and isinstance(e.func, ast.Name) and \
                e.func.id in ('reversed', 'list', 'tuple', 'sorted', 'set',
                              'iter') and len(e.args) == 1:
            e = e.args[0]
        return isinstance(e, ast.Name) and e.id == p
    def deferred(stmts):
        # ``reached = True; break`` in the walk and ``if reached: ...``
        # right after it: the work of the stopping branch stands there
        flags = {st.targets[0].id for st in stmts if isinstance(
            st, ast.Assign) and len(st.targets) == 1 and isinstance(
                st.targets[0], ast.Name) and isinstance(
                    st.value, ast.Constant) and st.value.value is True}
        if not flags:
            return stmts
        par = prog.parent(loop)
        for fld, val in ast.iter_fields(par) if par is not None else []:
            if isinstance(val, list) and any(x is loop for x in val):
                i0 = [i for i, x in enumerate(val) if x is loop][0]
                for st in val[i0 + 1:]:
                    if isinstance(st, ast.If) and isinstance(
                            st.test, ast.Name) and st.test.id in flags and \
                            not st.orelse:
                        return list(stmts) + list(st.body)
        return stmts
    for stmts in early:
        stmts = deferred(stmts)
        loops = [st for st in stmts if isinstance(st, ast.For) and
                 over_whole_param(st.iter)]
        problem = None
        if not loops:
            problem = ('the walk stops without going through the %s '
                       'argument: a directory this thread created above or '
                       'below the contended one gets no owner' % p)
        else:
            L_ = loops[0]
            leaves = [n for n in ast.walk(L_) if isinstance(
                n, (ast.Break, ast.Return))]
            regs = [n for n in ast.walk(L_) if owner_store(n, F) == owner]
            if leaves:
                problem = ('the loop over %s is left early (line %d): the '
                           'remaining directories get no owner' % (
                               p, leaves[0].lineno))
            elif not regs:
                problem = 'the loop over %s registers nothing in .%s' % (
                    p, owner)
            else:
                # conditions of the registration inside the loop
                parents = {}
                for n in ast.walk(L_):
                    for c in ast.iter_child_nodes(n):
                        parents[c] = n
                n = regs[0]
                while n is not L_:
                    par = parents[n]
                    if isinstance(par, ast.If):
                        t = par.test
                        ok = (n in par.body and isinstance(t, ast.Compare)
                              and len(t.ops) == 1 and isinstance(
                                  t.ops[0], ast.NotIn) and isinstance(
                                      t.comparators[0], ast.Attribute) and
                              t.comparators[0].attr == owner) or (
                                  n in par.orelse and isinstance(
                                      t, ast.Compare) and len(t.ops) == 1
                                  and isinstance(t.ops[0], ast.In) and
                                  isinstance(t.comparators[0], ast.Attribute)
                                  and t.comparators[0].attr == owner)
                        if not ok:
                            problem = (
                                'a created directory is registered only '
                                'under the condition %s; the only '
                                'admissible condition is that it has no '
                                'entry in .%s yet' % (
                                    ast.unparse(t)[:60], owner))
                    n = par
        if problem:
            rc.violation(
                'ownership-transfer | ' + F.qualname,
                'when another thread has already reserved the directory, '
                'the directories this thread created must still get an '
                'owner: ' + problem, prog.loc(F, stmts[0]), key=key)
        else:
            rc.ok({'loop_over': p, 'owner_map': owner}, key=key)


def r9_7(ctx, rc):
    """Ticket discipline: when a guarded counter is incremented in a
    function, every read of it into a local in that function happens in the
    same critical section as the increment - otherwise two threads read the
    same ticket (e.g. the same backup file name) before either increments."""
    prog = ctx.prog
    n = 0
    for cname, tbl in L.GUARDS.items():
        for m in prog.classes[cname].methods.values():
            if m.name == '__init__':
                continue
            cfg = ctx.E.cfgs.get(m)
            incs = []
            reads = []
            for cn in cfg.nodes:
                if cn.kind != 'stmt':
                    continue
                st = cn.ast
                if isinstance(st, ast.AugAssign) and isinstance(
                        st.target, ast.Attribute) and \
                        st.target.attr in tbl and isinstance(
                            st.target.value, ast.Name) and \
                        st.target.value.id == m.self_name:
                    incs.append((st.target.attr, cn))
                if isinstance(st, ast.Assign) and isinstance(
                        st.value, ast.Attribute) and st.value.attr in tbl \
                        and isinstance(st.value.value, ast.Name) and \
                        st.value.value.id == m.self_name and all(
                            isinstance(t, ast.Name) for t in st.targets):
                    reads.append((st.value.attr, cn))
            for fld, icn in incs:
                region = [id(it) for it in icn.with_stack
                          if ctx.H.lock_of_item(it, m) == (cname, tbl[fld])]
                for rf, rcn in reads:
                    if rf != fld:
                        continue
                    n += 1
                    rregion = [id(it) for it in rcn.with_stack
                               if ctx.H.lock_of_item(it, m) ==
                               (cname, tbl[fld])]
                    key = 'ticket %s.%s in %s' % (cname, fld, m.qualname)
                    if not region or region != rregion:
                        rc.violation(
                            'ticket-split | ' + key,
                            '%s.%s is read into a local in one critical '
                            'section and incremented in another: two '
                            'threads can obtain the same value (duplicate '
                            'backup file name - one backup overwrites the '
                            'other)' % (cname, fld),
                            prog.loc(m, rcn.ast), key=key)
                    else:
                        rc.ok({'counter': cname + '.' + fld,
                               'read_and_increment': 'one critical section'},
                              key=key)
    n += _length_tickets(ctx, rc)
    if n == 0:
        raise AnalysisError('no guarded counter found')


def _length_tickets(ctx, rc):
    """A ticket taken from the size of a guarded collection
    (``value = len(self._backups)``) and used to build a name is unique only
    if the collection grows in the same critical section; otherwise two
    threads read the same length before either appends."""
    prog = ctx.prog
    n = 0
    grow = ('append', 'add', 'extend', 'insert', 'setdefault', 'update')
    for cname, tbl in L.GUARDS.items():
        for m in prog.classes[cname].methods.values():
            if m.name == '__init__':
                continue
            cfg = ctx.E.cfgs.get(m)

            def self_attr(e):
                return isinstance(e, ast.Attribute) and isinstance(
                    e.value, ast.Name) and e.value.id == m.self_name and \
                    e.attr in tbl

            def region(cn, fld):
                return [id(it) for it in cn.with_stack
                        if ctx.H.lock_of_item(it, m) == (cname, tbl[fld])]
            reads, grows = [], []
            for cn in cfg.nodes:
                if cn.kind != 'stmt':
                    continue
                st = cn.ast
                if isinstance(st, ast.Assign) and all(
                        isinstance(t, ast.Name) for t in st.targets):
                    for x in ast.walk(st.value):
                        if isinstance(x, ast.Call) and isinstance(
                                x.func, ast.Name) and x.func.id == 'len' \
                                and len(x.args) == 1 and self_attr(x.args[0]):
                            reads.append((x.args[0].attr, cn,
                                          [t.id for t in st.targets]))
                for x in ast.walk(st) if not isinstance(
                        st, (ast.With, ast.If, ast.While, ast.For,
                             ast.Try)) else ():
                    if isinstance(x, ast.Call) and isinstance(
                            x.func, ast.Attribute) and x.func.attr in grow \
                            and self_attr(x.func.value):
                        grows.append((x.func.value.attr, cn))
            for fld, rcn, names in reads:
                # a ticket: the local takes part in building a name
                used = False
                for y in ast.walk(m.node):
                    if isinstance(y, (ast.BinOp, ast.AugAssign)) and \
                            isinstance(y.op, (ast.Mod, ast.FloorDiv,
                                              ast.RShift, ast.BitAnd)) or \
                            isinstance(y, ast.JoinedStr) or (
                                isinstance(y, ast.Call) and isinstance(
                                    y.func, ast.Attribute) and
                                y.func.attr in ('format', 'join')):
                        if any(isinstance(z, ast.Name) and z.id in names
                               for z in ast.walk(y)):
                            used = True
                            break
                if not used:
                    continue
                n += 1
                key = 'length ticket %s.%s in %s' % (cname, fld, m.qualname)
                rreg = region(rcn, fld)
                if rreg and any(f == fld and region(g, fld) == rreg
                                for f, g in grows):
                    rc.ok({'ticket': 'len(%s.%s)' % (cname, fld),
                           'read_and_grow': 'one critical section'}, key=key)
                else:
                    rc.violation(
                        'ticket-from-length | ' + key,
                        'a name is derived from len(%s.%s), but the '
                        'collection does not grow in the critical section '
                        'that reads its length: two threads can obtain the '
                        'same value (duplicate backup file name - one '
                        'backup overwrites the other and rollback restores '
                        'the wrong bytes)' % (cname, fld),
                        prog.loc(m, rcn.ast), key=key)
    return n


def r9_8(ctx, rc):
    """A rejected or failing call releases its directory reservation on
    every exceptional exit (the typestate rule of C14): a duplicate rejected
    by the atomic claim must not leave the directory pinned."""
    from .c14 import r14_1
    r14_1(ctx, rc, only=('_build_file',))
    # ... and has created nothing before it was rejected: the validity test
    # precedes the creation of parent directories (order of R10.1) - a
    # directory made by a rejected duplicate has no owner
    from .c10 import r10_1
    r10_1(ctx, rc)


def r9_9(ctx, rc):
    """Claim / run / finish protocol under concurrency (C08 R8.2, R8.3): a
    duplicate issued from another thread is rejected atomically and cannot
    overwrite the owner's record."""
    from .c08 import r8_2, r8_2b, r8_3
    from .c10 import r10_2
    r8_2(ctx, rc)
    r8_2b(ctx, rc)
    r8_3(ctx, rc)
    # a failed output is removed before its record is published (R10.2)
    r10_2(ctx, rc)
    # a duplicate rejected by the atomic claim is a set-up failure of the
    # second call and recorded as one (R14.5, R8.5): otherwise the rejected
    # call's record competes with the owner's
    from .c08 import r8_5
    from .c14 import r14_5, r14_4
    r8_5(ctx, rc)
    r14_5(ctx, rc)
    # two threads moving the same stale output aside (R14.4)
    r14_4(ctx, rc)


RULES = [
    ('R9.1', 'lock-acquisition graph: acyclic, documented order', r9_1),
    ('R9.2', 'no user callback inside a critical section', r9_2),
    ('R9.3', 'static lockset for every guarded field', r9_3),
    ('R9.4', 'the lock-free old cache is never mutated', r9_4),
    ('R9.5', 'shared directory creation tolerates a concurrent creator',
     r9_5),
    ('R9.6', 'a concurrently created directory keeps an owner', r9_6),
    ('R9.7', 'guarded counters are read and incremented atomically', r9_7),
    ('R9.8', 'rejected calls release their directory reservation', r9_8),
    ('R9.9', 'claim/run/finish protocol is atomic and owner-safe', r9_9),
]
