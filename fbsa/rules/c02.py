"""C02 - rollback: a build that raises leaves the pre-build state."""
import ast

from ..model import Func, AnalysisError
from ..effects import DESTROY, CREATE, USER, UNKNOWN
from ..supergraph import callee_name
from .. import queries as Q
from . import opt

EXPLANATION = (
    'R2.1: every effect that can run before commit is covered by a handler '
    'that rolls back. R2.2: every handler (and finally, and the backup '
    'context manager) on the propagation path of a user exception leaves '
    'only by bare raise. R2.3: rollback cannot be cut short (it cannot '
    'raise and always reaches restore_all). R2.4: the target / the cache '
    'file is moved aside (or known absent) before the user callback / the '
    'cache write. R2.5/R2.6: backups live in a with-managed temp dir and '
    'are moved, never copied. R2.7/R2.8: rollback removes new files and '
    'directories, then re-creates the old directories, then restores '
    'backups, and its undo sets cover every source of created directories. '
    'R2.9: a failed cache write is compensated (partial file removed before '
    'restoration, never the old file that is still in place) - flag-'
    'sensitive path search. R2.10: coverage matrix backup-guard x removal-'
    'guard. Decides that rollback runs, re-raises the same object, cannot be '
    'cut short and covers every write; exactness of the undo for every '
    'history beyond the matrix is not decided.'
    ' R2.6b: every backup gets its own slot (the counter naming backup files is read and incremented in one critical section).')
# round 13 additions
EXPLANATION += (
    ' R2.9 also decides that the cache writer creates no path the failure '
    'handler does not know (it writes the file it is given, or removes any '
    'other path itself when it fails). R2.6b accepts a ticket taken from the '
    'length of a guarded collection only if the collection grows in the '
    'critical section that reads the length.')
# round 3/4 additions
EXPLANATION += (
    ' R2.6b also decides that the backup slot name is an injective encoding of the ticket (whole ticket or positional digits, digit before quotient). R2.10 takes the guard facts from control dependence. R2.11: concurrently created directories keep an owner (R9.6) and directories made before a failing mkdir are handed off (R14.3).')

EFFECTS = (DESTROY, CREATE, USER, UNKNOWN)


def _names(ctx):
    R = ctx.R
    B = R.builder
    return {
        'root': R.root_runner(),
        'rollback': ctx.E.func(B + '._roll_back'),
        'commit': ctx.E.func(B + '._commit'),
        'write': ctx.E.func(R.cache + '.write'),
        'remover': ctx.E.func(B + '._try_to_remove_file'),
        'dir_remover': ctx.E.func(B + '._remove_empty_dirs'),
        'create_dirs': ctx.E.func(B + '._create_dirs'),
        'backup': ctx.E.func('FileBackups.back_up_and_remove'),
        'restore': ctx.E.func('FileBackups.restore_all'),
        'build_file': ctx.E.func(B + '._build_file'),
    }


def _effect_leaf(ctx, sn):
    if sn.kind != 'leaf':
        return False
    c = sn.callee
    if isinstance(c, Func):
        return ctx.E.eff.has_effect(c, EFFECTS)
    k, _ = ctx.E.eff.classify(c, sn.call, sn.func)
    return k in EFFECTS


def r2_1(ctx, rc):
    N = _names(ctx)
    root = N['root']
    commit = N['commit'].qualname
    rb = N['rollback'].qualname
    sg = ctx.helpers_graph(root, stop=(commit, rb))
    pre = sg.reach([sg.entry], avoid=lambda x: Q.is_call(x, commit))
    effs = [n for n in sg.nodes if n.id in pre and _effect_leaf(ctx, n)]
    if len(effs) < 3:
        raise AnalysisError('only %d effect statements before commit' %
                            len(effs))
    rexits = set(sg.raise_exits.values())
    for e in effs:
        seen = sg.reach(
            [e.id], avoid=lambda x: Q.is_call(x, rb) or Q.is_call(x, commit))
        hit = [x for x in rexits if x in seen]
        key = 'effect %s in %s' % (callee_name(e), root.qualname)
        if hit:
            rc.violation(
                'unprotected-effect | ' + key,
                'after %s began, an exception can leave %s without a '
                'rollback' % (callee_name(e), root.qualname), e.where(),
                sg.describe_path(sg.witness(seen, hit[0])), key=key)
        else:
            rc.ok({'effect': callee_name(e), 'at': e.where()}, key=key)


def _may_reach_user(ctx, stmts, f):
    for st in stmts:
        for n in ast.walk(st):
            if isinstance(n, ast.Call):
                for g in ctx.prog.resolve_call(n, f):
                    if g == 'USER':
                        return True
                    if isinstance(g, Func) and USER in ctx.E.eff.kinds(g):
                        return True
    return False


def r2_2(ctx, rc):
    prog = ctx.prog
    nh = nf = 0
    for f in prog.funcs.values():
        tries = [n for n in ast.walk(f.node) if isinstance(n, ast.Try)]
        if not tries:
            continue
        sg = None
        for t in tries:
            if not _may_reach_user(ctx, t.body, f):
                continue
            if sg is None:
                sg = ctx.E.super(f, lambda g: False)
            for h in t.handlers:
                nh += 1
                key = 'handler %s in %s' % (
                    ast.unparse(h.type) if h.type else 'bare', f.qualname)
                hn = [x for x in sg.nodes
                      if x.kind == 'in' and x.cn.kind == 'handler' and
                      x.cn.ast is h]
                bad = None
                for start in hn:
                    seen = sg.reach([start.id])
                    for nid in seen:
                        x = sg.nodes[nid]
                        if x.kind in ('exit_t', 'exit_f', 'exit_n'):
                            bad = (seen, nid, 'returns or falls through '
                                   '(the exception is swallowed)')
                        if (x.kind == 'out' and x.cn.kind == 'raise' and
                                x.cn.ast.exc is not None and
                                x.cn.handler_of == start.cn.id):
                            bad = (seen, nid, 'raises a different exception '
                                   'object')
                        if bad:
                            break
                    if bad:
                        break
                if bad:
                    rc.violation(
                        'exception-identity | ' + key,
                        'a handler that can see a user exception %s' % bad[2],
                        prog.loc(f, h), sg.describe_path(
                            sg.witness(bad[0], bad[1])), key=key)
                else:
                    rc.ok({'handler': key, 'leaves_by': 'bare raise'},
                          key=key)
            if t.finalbody:
                nf += 1
                key = 'finally in %s line-independent #%d' % (f.qualname, nf)
                jumps = [n for st in t.finalbody for n in ast.walk(st)
                         if isinstance(n, (ast.Return, ast.Break,
                                           ast.Continue))]
                if jumps:
                    rc.violation(
                        'finally-swallows | finally in ' + f.qualname,
                        'a finally block on the propagation path of a user '
                        'exception contains return/break/continue',
                        prog.loc(f, jumps[0]), key=key)
                else:
                    rc.ok({'finally': f.qualname}, key=key)
    # context managers on the path: __exit__ must not swallow or replace
    for c in prog.classes.values():
        ex = c.methods.get('__exit__')
        if ex is None:
            continue
        key = '__exit__ of ' + c.name
        rets = [n for n in ast.walk(ex.node) if isinstance(n, ast.Return)
                and n.value is not None and not (
                    isinstance(n.value, ast.Constant) and not n.value.value)]
        raises = ctx.E.fault_all.summary.get(ex.qualname, set())
        if rets:
            rc.violation('exit-swallows | ' + key,
                         '__exit__ may return a truthy value and swallow '
                         'the user exception', prog.loc(ex, rets[0]), key=key)
        elif raises:
            rc.violation('exit-raises | ' + key,
                         '__exit__ may raise %s and replace the user '
                         'exception' % sorted(raises),
                         prog.loc(ex, ex.node), key=key)
        else:
            rc.ok({'exit': key}, key=key)
    rc.note('%d handlers and %d finally blocks on user-exception paths' % (
        nh, nf))
    if nh < 3:      # root runner, build_file side, subbuild side
        raise AnalysisError('only %d handlers on user-exception paths' % nh)


def r2_3(ctx, rc):
    N = _names(ctx)
    rb = N['rollback']
    sg = ctx.E.super(rb)
    key = 'rollback cannot raise'
    if sg.raise_exits:
        cls = sorted(sg.raise_exits)
        seen = sg.reach([sg.entry])
        rc.violation('rollback-raises | ' + rb.qualname,
                     'rollback can be cut short by %s' % cls,
                     rb.file, sg.describe_path(sg.witness(
                         seen, sg.raise_exits[cls[0]])), key=key)
    else:
        prims = [n for n in sg.nodes if n.kind == 'leaf' and
                 not isinstance(n.callee, Func) and
                 ctx.E.eff.classify(n.callee, n.call, n.func)[1]]
        rc.ok({'may_fail_primitives_swallowed': sorted(
            {callee_name(p) for p in prims})}, key=key)
    # ... nor by leaving one of its loops early: the loops that remove
    # files, remove / re-create directories and restore backups go through
    # every element (a failing element is skipped with ``continue``)
    todo, seenf = [rb], []
    while todo:
        f0 = todo.pop()
        if f0 in seenf:
            continue
        seenf.append(f0)
        for c in ctx.prog.calls_in(f0):
            for g in ctx.prog.resolve_call(c, f0):
                if isinstance(g, Func) and not g.is_ctor_call and (
                        g.cls in (rb.cls, 'FileBackups')) and \
                        g.name not in ('back_up_and_remove',):
                    todo.append(g)
    for f0 in seenf:
        for lp in ast.walk(f0.node):
            if not isinstance(lp, (ast.For, ast.While)):
                continue
            leaves = []
            for n in ast.walk(lp):
                if isinstance(n, (ast.Break, ast.Return)):
                    # a break that belongs to an inner loop is its own
                    inner = [l2 for l2 in ast.walk(lp)
                             if isinstance(l2, (ast.For, ast.While)) and
                             l2 is not lp and any(x is n
                                                  for x in ast.walk(l2))]
                    if isinstance(n, ast.Return) or not inner:
                        leaves.append(n)
            key = 'loop at %s:%d of %s goes through every element' % (
                f0.file, 0, f0.qualname) + ' #%d' % (
                    [l for l in ast.walk(f0.node) if isinstance(
                        l, (ast.For, ast.While))].index(lp))
            # ... or by an exception: a handler that swallows the failure of
            # one element stands inside the loop; a handler around the loop
            # ends the sweep at the first failure
            if isinstance(lp, ast.For):
                for tr in ast.walk(f0.node):
                    if isinstance(tr, ast.Try) and tr.handlers and any(
                            lp is st or any(lp is y for y in ast.walk(st))
                            for st in tr.body):
                        mayfail = [c for c in ctx.prog.calls_in(f0)
                                   if any(c is y for y in ast.walk(lp)) and
                                   any((not isinstance(g, Func)) and
                                       ctx.E.eff.classify(g, c, f0)[1]
                                       for g in ctx.prog.resolve_call(c, f0))]
                        # ... unless an inner handler of the loop body
                        # catches it first
                        def covered(c):
                            n = c
                            while n is not None and n is not lp:
                                n = ctx.prog.parent(n)
                                if isinstance(n, ast.Try) and n.handlers \
                                        and any(c is y for b in n.body
                                                for y in ast.walk(b)):
                                    return True
                            return False
                        if any(not covered(c) for c in mayfail):
                            leaves.append(tr)
            if leaves and isinstance(lp, ast.For):
                rc.violation(
                    'rollback-loop-left | ' + f0.qualname,
                    'a loop of the rollback path in %s can be left early '
                    '(%s): the remaining files / directories / backups are '
                    'not processed' % (f0.qualname, type(
                        leaves[0]).__name__.lower()),
                    ctx.prog.loc(f0, leaves[0]), key=key)
            elif isinstance(lp, ast.For):
                rc.ok({'loop_in': f0.qualname}, key=key)
    w = Q.first_unguarded(
        sg, [sg.entry], lambda x: Q.is_done(x, N['restore'].qualname),
        lambda x: x.id in sg.normal_exits())
    key = 'rollback always reaches restore_all'
    if w:
        rc.violation('restore-skipped | ' + rb.qualname,
                     'rollback can return without restoring the backups',
                     rb.file, sg.describe_path(w), key=key)
    else:
        rc.ok({'must_pass': N['restore'].qualname}, key=key)


def _isfile_of(ctx, lab, attr_or_param, src=None):
    """Edge label is the F-edge of os.path.isfile(<path>); ``src`` (the
    supergraph node the edge leaves) lets the path be expressed in the root
    frame's terms when the test sits in an inlined helper."""
    if not (isinstance(lab, tuple) and len(lab) == 4 and lab[0] == 'F'):
        return False
    a = lab[1]
    if not isinstance(a, ast.Call):
        return False
    if 'os.path.isfile' not in ctx.prog.resolve_call(a, lab[2]):
        return False
    e = ctx.H.subst_frames(a.args[0], src) if src is not None else \
        ctx.H.subst(a.args[0], lab[2], lab[3])
    try:
        return attr_or_param(e, lab[2])
    except TypeError:
        return attr_or_param(e)


def _own_filename(e):
    return isinstance(e, ast.Attribute) and e.attr == 'filename' and \
        isinstance(e.value, ast.Attribute) and e.value.attr == '_operation'


def r2_4(ctx, rc):
    N = _names(ctx)
    R = ctx.R
    bq = N['backup'].qualname
    # (b) target moved aside (or absent) before the user callback
    from .c08 import _builder_graph, _is_user
    F, sg = _builder_graph(ctx, '_build_file')

    def backed_up(x):
        return Q.is_done(x, bq) and x.call.args and _own_filename(
            ctx.H.subst_frames(x.call.args[0], x))
    w = Q.first_unguarded(
        sg, [sg.entry], backed_up, _is_user,
        edge_ok=lambda a, b, lab: not _isfile_of(ctx, lab, _own_filename,
                                                 src=a))
    key = '%s: target moved aside or absent before USER' % F.qualname
    if w:
        rc.violation('overwrite-without-backup | ' + key,
                     'the user function can run (and overwrite the target) '
                     'on a path where the existing target was not moved '
                     'aside', sg.nodes[w[-1]].where(), sg.describe_path(w),
                     key=key)
    else:
        rc.ok({'order': key}, key=key)
    # (c) cache file moved aside (or absent) before the cache write
    root = N['root']
    sgr = ctx.helpers_graph(root, stop=(N['commit'].qualname,
                                       N['rollback'].qualname))
    cparam, cnames = _cache_names(ctx, root)

    def is_cache_name(e, func=None):
        func = func or root
        return isinstance(e, ast.Name) and (func.qualname, e.id) in cnames

    def backed_up_cache(x):
        return Q.is_done(x, bq) and x.call.args and is_cache_name(
            x.call.args[0], x.func)
    w = Q.first_unguarded(
        sgr, [sgr.entry], backed_up_cache,
        lambda x: Q.is_call(x, N['write'].qualname),
        edge_ok=lambda a, b, lab: not _isfile_of(ctx, lab, is_cache_name))
    key = '%s: cache file moved aside or absent before the write' % \
        root.qualname
    if w:
        rc.violation('cache-overwrite-without-backup | ' + key,
                     'the cache file can be overwritten on a path where the '
                     'old one was not moved aside', sgr.nodes[w[-1]].where(),
                     sgr.describe_path(w), key=key)
    else:
        rc.ok({'order': key}, key=key)


def _cache_param(ctx, root):
    """The parameter of the root runner that is written by Cache.write."""
    return _cache_names(ctx, root)[0]


def _cache_names(ctx, root):
    """(root parameter that names the cache file, {(function, local name)}
    of its aliases in the root runner and in the private helpers it is
    handed down to)."""
    if ('cache_names', root.qualname) in ctx.memo:
        return ctx.memo[('cache_names', root.qualname)]
    prog = ctx.prog
    w = ctx.R.cache + '.write'
    # functions reachable from the root through private builder helpers
    fs = [root]
    todo = [root]
    while todo:
        f = todo.pop()
        for c in prog.calls_in(f):
            for g in prog.resolve_call(c, f):
                if isinstance(g, Func) and (
                        (g.cls == root.cls and not g.is_public) or
                        g in ctx.backup_wrappers()) and \
                        not g.is_ctor_call and g not in fs:
                    fs.append(g)
                    todo.append(g)
    # the written name, traced up to a root parameter
    cparam = None

    def up(f, name, depth=0):
        if f is root:
            return name if name in root.params else None
        if depth > 4 or name not in f.params:
            return None
        for caller, call in prog.callers().get(f.qualname, []):
            if caller in fs:
                a = prog.bind_args(call, f).get(name)
                if isinstance(a, ast.Name):
                    r = up(caller, a.id, depth + 1)
                    if r:
                        return r
        return None
    for f in fs:
        for call in prog.calls_in(f):
            for g in prog.resolve_call(call, f):
                if isinstance(g, Func) and g.qualname == w and call.args and \
                        isinstance(call.args[0], ast.Name):
                    cparam = cparam or up(f, call.args[0].id)
    if cparam is None:
        raise AnalysisError('cannot identify the cache-file parameter of ' +
                            root.qualname)
    names = {(root.qualname, cparam)}
    grew = True
    while grew:
        grew = False
        for f in fs:
            for call in prog.calls_in(f):
                for g in prog.resolve_call(call, f):
                    if isinstance(g, Func) and g in fs:
                        for p, a in prog.bind_args(call, g).items():
                            if isinstance(a, ast.Name) and \
                                    (f.qualname, a.id) in names and \
                                    (g.qualname, p) not in names:
                                names.add((g.qualname, p))
                                grew = True
    ctx.memo[('cache_names', root.qualname)] = (cparam, names)
    return cparam, names


def r2_5(ctx, rc):
    N = _names(ctx)
    prog = ctx.prog
    root = N['root']
    n = 0
    for caller, call in prog.callers().get(root.qualname, []):
        for cn in ctx.H.node_of(caller, call):
            n += 1
            items = [it for it in cn.with_stack
                     if 'FileBackups' in prog.type_of(it.context_expr, caller)]
            key = 'call of %s in %s' % (root.qualname, caller.qualname)
            if not items:
                rc.violation('backups-scope | ' + key,
                             'the build runs outside the with block that '
                             'owns the backups (they could be deleted before '
                             'rollback restores them)',
                             prog.loc(caller, call), key=key)
                continue
            var = items[0].optional_vars
            # the builder that runs the build was given this object
            ok = False
            # names the managed object flows into inside the caller (a
            # context tuple / object built from it)
            flow = {var.id} if isinstance(var, ast.Name) else set()
            grew = True
            while grew:
                grew = False
                for st in ast.walk(caller.node):
                    if isinstance(st, ast.Assign) and any(
                            isinstance(x, ast.Name) and x.id in flow
                            for x in ast.walk(st.value)):
                        for t in st.targets:
                            if isinstance(t, ast.Name) and t.id not in flow:
                                flow.add(t.id)
                                grew = True
            for c2 in prog.calls_in(caller):
                for g in prog.resolve_call(c2, caller):
                    if isinstance(g, Func) and g.is_ctor_call and \
                            g.cls_for_ctor == ctx.R.builder:
                        b = prog.bind_args(c2, g)
                        for p, a in b.items():
                            if isinstance(a, ast.AST) and any(
                                    isinstance(x, ast.Name) and x.id in flow
                                    for x in ast.walk(a)):
                                ok = True
            if ok:
                rc.ok({'with': key}, key=key)
            else:
                rc.violation('backups-object | ' + key,
                             'the builder is not given the with-managed '
                             'backups object', prog.loc(caller, call),
                             key=key)
    if n == 0:
        raise AnalysisError('no call site of the root runner')


def r2_6(ctx, rc):
    allowed = {'os.makedirs', 'os.rename', 'os.replace', 'tempfile.mkdtemp',
               'shutil.rmtree'}
    cls = ctx.R.cls('FileBackups')
    n = 0
    for m in cls.methods.values():
        for call in ctx.prog.calls_in(m):
            for g in ctx.prog.resolve_call(call, m):
                if isinstance(g, Func):
                    continue
                k, _ = ctx.E.eff.classify(g, call, m)
                if k in (DESTROY, CREATE, UNKNOWN):
                    n += 1
                    key = '%s in %s' % (g, m.qualname)
                    if g in allowed:
                        rc.ok({'primitive': key}, key=key)
                    else:
                        rc.violation(
                            'backup-not-a-move | ' + key,
                            'FileBackups uses %s: backups must be moved '
                            '(rename/replace), never copied or rewritten, to '
                            'preserve bytes and mtime' % g,
                            ctx.prog.loc(m, call), key=key)
    if n < 4:
        raise AnalysisError('only %d FS primitives in FileBackups' % n)


def r2_6b(ctx, rc):
    """Every backup gets its own slot: the counter that names backup files
    is read and incremented in one critical section (R9.7)."""
    from .c09 import r9_7
    r9_7(ctx, rc)
    _slot_encoding(ctx, rc)


def _slot_encoding(ctx, rc):
    """The slot name is an injective function of the ticket: either the
    ticket is formatted as a whole, or it is split into base-B digits by the
    positional scheme ``while t >= B: digit = t % B; t //= B`` (digit before
    quotient, one base) with the last quotient used as well.  Taking the
    quotient first maps whole blocks of tickets to one name: a later backup
    overwrites an earlier one and rollback restores the wrong bytes."""
    N = _names(ctx)
    F = N['backup']
    prog = ctx.prog
    # the ticket: local(s) read from the counter attribute that is
    # incremented in this function
    incs = {n.target.attr for n in ast.walk(F.node)
            if isinstance(n, ast.AugAssign) and isinstance(
                n.target, ast.Attribute)}
    tickets = {t.id for n in ast.walk(F.node) if isinstance(n, ast.Assign)
               and isinstance(n.value, ast.Attribute) and
               n.value.attr in incs for t in n.targets
               if isinstance(t, ast.Name)}
    # ... or taken from the length of a collection (R9.7 decides whether
    # that is unique)
    tickets |= {t.id for n in ast.walk(F.node) if isinstance(n, ast.Assign)
                and isinstance(n.value, ast.Call) and isinstance(
                    n.value.func, ast.Name) and n.value.func.id == 'len'
                and n.value.args and isinstance(
                    n.value.args[0], ast.Attribute) for t in n.targets
                if isinstance(t, ast.Name)}
    key = 'slot name is an injective encoding of the ticket'
    if not tickets:
        raise AnalysisError('backup ticket not identified in ' + F.qualname)
    loops = [n for n in ast.walk(F.node) if isinstance(n, ast.While) and any(
        isinstance(x, ast.Name) and x.id in tickets
        for x in ast.walk(n.test))]
    arith = [n for n in ast.walk(F.node)
             if isinstance(n, (ast.BinOp, ast.AugAssign)) and isinstance(
                 n.op, (ast.Mod, ast.FloorDiv, ast.Div, ast.RShift,
                        ast.BitAnd)) and any(
                 isinstance(x, ast.Name) and x.id in tickets
                 for x in ast.walk(n))
             and not (isinstance(n, ast.BinOp) and isinstance(
                 n.left, ast.Constant) and isinstance(n.left.value, str))]
    if not arith:
        rc.ok({'encoding': 'the ticket is formatted as a whole'}, key=key)
        return
    if len(loops) != 1:
        raise AnalysisError('ticket arithmetic outside the one digit loop '
                            'in ' + F.qualname)
    lp = loops[0]
    t = lp.test
    base = None
    def cval(e):
        c = prog.const_value(e, F)
        return c.value if c is not None else None
    if isinstance(t, ast.Compare) and len(t.ops) == 1 and isinstance(
            t.ops[0], ast.GtE) and cval(t.comparators[0]) is not None:
        base = cval(t.comparators[0])
    problems = []
    if base is None:
        raise AnalysisError('digit loop test of %s is not "ticket >= B"' %
                            F.qualname)
    mod_i = div_i = None
    for i, st in enumerate(lp.body):
        for n in ast.walk(st):
            if isinstance(n, ast.BinOp) and isinstance(n.op, ast.Mod) and \
                    isinstance(n.left, ast.Name) and n.left.id in tickets:
                if mod_i is None:
                    mod_i = i
                if cval(n.right) != base:
                    problems.append('digit taken modulo %s in a loop that '
                                    'runs while ticket >= %s' % (
                                        ast.unparse(n.right), base))
            q = None
            if isinstance(n, ast.AugAssign) and isinstance(
                    n.op, ast.FloorDiv) and isinstance(
                        n.target, ast.Name) and n.target.id in tickets:
                q = n.value
            elif isinstance(n, ast.Assign) and isinstance(
                    n.value, ast.BinOp) and isinstance(
                        n.value.op, ast.FloorDiv) and isinstance(
                            n.value.left, ast.Name) and \
                    n.value.left.id in tickets and any(
                        isinstance(x, ast.Name) and x.id in tickets
                        for x in n.targets):
                q = n.value.right
            if q is not None:
                if div_i is None:
                    div_i = i
                if cval(q) != base:
                    problems.append('quotient by %s in a loop that runs '
                                    'while ticket >= %s' % (
                                        ast.unparse(q), base))
            if isinstance(n, ast.Call) and isinstance(
                    n.func, ast.Name) and n.func.id == 'divmod':
                mod_i = div_i = i
    if mod_i is None or div_i is None:
        raise AnalysisError('digit loop of %s has no digit/quotient step' %
                            F.qualname)
    if div_i < mod_i:
        problems.append('the quotient step comes before the digit is taken: '
                        'every block of %s consecutive tickets gets the same '
                        'name' % base)
    # the most significant digit (the last quotient) is part of the name
    after = False
    used_after = False
    for st in ast.walk(F.node):
        pass
    body_ids = {id(x) for x in ast.walk(lp)}
    for n in ast.walk(F.node):
        if isinstance(n, ast.Name) and n.id in tickets and isinstance(
                n.ctx, ast.Load) and id(n) not in body_ids and \
                n.lineno > lp.end_lineno:
            used_after = True
    if not used_after:
        problems.append('the last quotient is not part of the name')
    if problems:
        rc.violation('slot-encoding | ' + F.qualname,
                     'the backup slot name is not an injective encoding of '
                     'the ticket: ' + '; '.join(problems),
                     prog.loc(F, lp), key=key)
    else:
        rc.ok({'encoding': 'base-%s digits, digit before quotient' % base},
              key=key)


def r2_7(ctx, rc):
    """Order inside rollback: the new files and directories are removed
    before the backups are restored (restore_all skips a path that is still
    occupied); and rollback itself does not occupy a backed-up path: the
    previous build's directories are re-created only after the restore (or
    filtered against the backups) - a path that the previous build had as a
    directory, that the user replaced by a file and that the failed build
    overwrote would otherwise be re-created as a directory and its backup
    skipped and lost."""
    N = _names(ctx)
    rb = N['rollback']
    sg = ctx.helpers_graph(rb, stop=(N['remover'].qualname,
                                     N['dir_remover'].qualname,
                                     N['create_dirs'].qualname))
    rs = N['restore'].qualname
    cd = N['create_dirs'].qualname
    csites = [x for x in sg.nodes if Q.is_call(x, cd)]
    key = '%s does not occupy a backed-up path' % rb.qualname
    if not csites:
        rc.violation('rollback-step-missing | ' + cd,
                     'rollback never calls %s' % cd, rb.file, key=key)
    else:
        w = Q.first_unguarded(sg, [sg.entry], lambda x: Q.is_done(x, rs),
                              lambda x: Q.is_call(x, cd))
        filtered = all(any(
            (o[0] in ('attr', 'call') and 'FileBackups' in str(o[1]))
            for o in ctx.H.origins(x.call.args[0], x.func, x.cn))
            for x in csites if x.call.args)
        if w and not filtered:
            rc.violation(
                'rollback-recreate-before-restore | ' + rb.qualname,
                'rollback re-creates the previous build\'s directories '
                'before it restores the backups, without excluding the '
                'backed-up paths: where the previous build had a directory '
                'that was replaced by a regular file before this build and '
                'this build overwrote that file, the directory is '
                're-created in the file\'s place, restore_all skips the '
                'backup ("existing directory") and the file is lost',
                csites[0].where(), sg.describe_path(w), key=key)
        else:
            rc.ok({'order': 'restore_all, then ' + cd} if not w else
                  {'filtered_by': 'FileBackups'}, key=key)
    for first in (N['remover'].qualname, N['dir_remover'].qualname):
        sites = [x for x in sg.nodes if Q.is_call(x, first)]
        key = '%s before %s in %s' % (first, rs, rb.qualname)
        if not sites:
            rc.violation('rollback-step-missing | ' + key,
                         'rollback never calls %s' % first, rb.file, key=key)
            continue
        # no call of `first` is reachable after restore_all began
        starts = [x.id for x in sg.nodes if Q.is_call(x, rs)]
        seen = sg.reach(starts)
        late = [x for x in sites if x.id in seen]
        # and restore_all is not reachable without passing the dir steps
        w = None
        if first != N['remover'].qualname:
            w = Q.first_unguarded(sg, [sg.entry],
                                  lambda x: Q.is_done(x, first),
                                  lambda x: Q.is_call(x, rs))
        if late or w:
            rc.violation(
                'rollback-order | ' + key,
                'rollback must run %s before restoring the backups (a '
                'backed-up file whose path is still occupied is skipped by '
                'restore_all and then lost)' % first,
                (late[0].where() if late else rb.file),
                sg.describe_path(w) if w else [], key=key)
        else:
            rc.ok({'order': key}, key=key)
    # the directories re-created are the old cache's
    for x in sg.nodes:
        if Q.is_call(x, N['create_dirs'].qualname):
            org = ctx.H.origins(x.call.args[0], rb, x.cn,
                                stop=lambda n: n.endswith('.created_dirs'))
            key = 'argument of _create_dirs'
            want = ctx.R.cache + '.created_dirs'
            if not any(o[0] == 'call' and o[1] == want for o in org):
                rc.violation('rollback-recreate-origin | ' + key,
                             'the directories re-created by rollback do not '
                             'come from the old cache', x.where(), key=key)
            else:
                roles = ctx.H.expr_roles(x.call.args[0].func.value, rb, x.cn) \
                    if isinstance(x.call.args[0], ast.Call) and isinstance(
                        x.call.args[0].func, ast.Attribute) else {'old'}
                if roles != {'old'}:
                    rc.violation('rollback-recreate-origin | ' + key,
                                 'rollback re-creates directories of the '
                                 '%s cache' % sorted(roles), x.where(),
                                 key=key)
                else:
                    rc.ok({'recreates': 'old_cache.created_dirs()'}, key=key)


def r2_8(ctx, rc):
    N = _names(ctx)
    rb = N['rollback']
    cfg = ctx.E.cfgs.get(rb)
    stop = lambda n: n in ('BuildDirs.created_dirs',
                           'BuildDirs.norm_cased_error_created_dirs',
                           ctx.R.cache + '.created_files',
                           ctx.R.cache + '.created_dirs')
    done = 0
    for call in ctx.prog.calls_in(rb):
        for g in ctx.prog.resolve_call(call, rb):
            if isinstance(g, Func) and g.qualname == N['dir_remover'].qualname:
                cn = ctx.H.node_of(rb, call)[0]
                org = ctx.H.origins(call.args[0], rb, cn, stop=stop)
                calls = {o[1] for o in org if o[0] == 'call'}
                params = {o for o in org if o[0] in ('param', 'api_param')}
                for need in ('BuildDirs.created_dirs',
                             'BuildDirs.norm_cased_error_created_dirs'):
                    key = 'rollback directory set includes ' + need
                    done += 1
                    if need in calls:
                        rc.ok({'includes': need}, key=key)
                    else:
                        rc.violation(
                            'undo-set-incomplete | ' + key,
                            'the set of directories removed by rollback does '
                            'not include %s() (they would leak after every '
                            'rolled-back build)' % need,
                            ctx.prog.loc(rb, call), key=key)
                key = 'rollback directory set includes the cache-file dirs'
                done += 1
                # the parameter of rollback fed from the root runner
                pnames = [p for p in rb.params]
                porigin = any(
                    isinstance(n, ast.Name) and n.id in pnames
                    for n in _slice_names(ctx, rb, call.args[0], cn))
                if porigin:
                    rc.ok({'includes': 'cache_file_created_dirs'}, key=key)
                else:
                    rc.violation(
                        'undo-set-incomplete | ' + key,
                        'the directories created for the cache file are not '
                        'in the set removed by rollback',
                        ctx.prog.loc(rb, call), key=key)
    # file loop ranges over the new cache's created files
    loops = [n for n in ast.walk(rb.node) if isinstance(n, ast.For)]
    ok = False
    for lp in loops:
        if isinstance(lp.iter, ast.Call) and isinstance(
                lp.iter.func, ast.Attribute) and \
                lp.iter.func.attr == 'created_files':
            cn = ctx.H.node_of(rb, lp.iter)[0]
            if ctx.H.expr_roles(lp.iter.func.value, rb, cn) == {'new'} and \
                    any(isinstance(c, ast.Call) and any(
                        isinstance(g, Func) and
                        g.qualname == N['remover'].qualname
                        for g in ctx.prog.resolve_call(c, rb))
                        for st in lp.body for c in ast.walk(st)):
                ok = True
    key = 'rollback removes the files of the new cache'
    done += 1
    if ok:
        rc.ok({'loop': 'new_cache.created_files()'}, key=key)
    else:
        rc.violation('undo-files | ' + key,
                     'rollback does not iterate over the new cache\'s '
                     'created files to remove them', rb.file, key=key)
    if done < 4:
        raise AnalysisError('rollback undo sets not found')
    # which build a listing of directories / a membership question refers
    # to: rollback keeps what the *previous* build had (its directories are
    # exempt from removal and re-created, its outputs are not deleted); the
    # new cache contributes only the list of files to delete
    want = {'created_dirs': 'old', 'created_file': 'old',
            'created_norm_cased_file': 'old', 'created_files': 'new'}
    n = 0
    for call in ctx.prog.calls_in(rb):
        f = call.func
        if isinstance(f, ast.Attribute) and f.attr in (
                'get_file', 'get_norm_cased_file', 'has_norm_cased_file',
                'get_subbuild', 'has_subbuild'):
            cns = ctx.H.node_of(rb, call)
            roles = ctx.H.expr_roles(f.value, rb, cns[0]) if cns else set()
            if roles and roles != {'not-a-cache'}:
                n += 1
                rc.violation(
                    'rollback-question | %s | %s' % (rb.qualname, f.attr),
                    'rollback decides by %s() of the %s cache: the only '
                    'question that tells what the previous build left on '
                    'disk is created_file() of the old cache (a record of '
                    'a failed call exists without a file)' % (
                        f.attr, '/'.join(sorted(roles))),
                    ctx.prog.loc(rb, call),
                    key='rollback asks only created_* questions')
            continue
        if not (isinstance(f, ast.Attribute) and f.attr in want):
            continue
        cns = ctx.H.node_of(rb, call)
        if not cns:
            continue
        roles = ctx.H.expr_roles(f.value, rb, cns[0])
        if not roles or roles == {'not-a-cache'}:
            continue                # BuildDirs.created_dirs()
        n += 1
        key = 'rollback asks the %s cache for %s' % (want[f.attr], f.attr)
        if roles == {want[f.attr]}:
            rc.ok({'call': ast.unparse(call)[:60], 'role': want[f.attr]},
                  key=key)
        else:
            rc.violation(
                'rollback-role | %s | %s' % (rb.qualname, f.attr),
                'rollback consults the %s cache for %s() where the %s one '
                'belongs: the directories exempt from removal / re-created '
                'and the outputs kept are those of the previous build, the '
                'files deleted are those of the failed one' % (
                    '/'.join(sorted(roles)), f.attr, want[f.attr]),
                ctx.prog.loc(rb, call), key=key)
    if n < 3:
        raise AnalysisError('cache listings in rollback not found (%d)' % n)


def _slice_names(ctx, func, expr, cn, depth=0, seen=None):
    """Names (params/locals) in the flow-insensitive backward slice of expr
    inside one function (through assignments and container writes)."""
    seen = seen if seen is not None else set()
    out = []
    for n in ast.walk(expr):
        if isinstance(n, ast.Name) and n.id not in seen:
            seen.add(n.id)
            out.append(n)
            cfg = ctx.E.cfgs.get(func)
            for d in cfg.nodes:
                if n.id in d.defs and isinstance(d.ast, ast.Assign):
                    out += _slice_names(ctx, func, d.ast.value, d, depth + 1,
                                        seen)
            for a in ctx.H.container_writes(func).get(n.id, []):
                out += _slice_names(ctx, func, a, cn, depth + 1, seen)
    return out


def r2_9(ctx, rc):
    N = _names(ctx)
    root = N['root']
    sg = ctx.helpers_graph(root, stop=(N['commit'].qualname,
                                      N['rollback'].qualname,
                                      N['remover'].qualname))
    cparam, cnames = _cache_names(ctx, root)
    wq = N['write'].qualname
    rmq = N['remover'].qualname
    rbq = N['rollback'].qualname
    bq = N['backup'].qualname

    def is_cache_arg(x):
        """The call's first argument is the cache file name (the root's
        parameter, possibly handed down to a helper)."""
        if not x.call or not x.call.args:
            return False
        a = x.call.args[0]
        if isinstance(a, ast.Name) and (x.func.qualname, a.id) in cnames:
            return True
        if x.frame.parent is None:
            return isinstance(a, ast.Name) and a.id == cparam
        org = ctx.H.origins(a, x.func, x.cn)
        return bool(org) and all(
            o[0] in ('param', 'api_param') and o[2] == cparam or
            (o[0] == 'call' and o[1] == ctx.R.builder + '._sanitize_filename')
            for o in org)

    def removes_cache(x):
        return Q.is_call(x, rmq) and is_cache_arg(x)
    writes = [x for x in sg.nodes if Q.is_call(x, wq)]
    if not writes:
        raise AnalysisError('cache write not found in ' + root.qualname)
    # (i) a failing write is compensated on every path to the raise exit
    first = Q.reach_flags(sg, [sg.entry])
    rexit = lambda x: x.kind == 'raise_exit'
    commit = N['commit'].qualname
    for w in writes:
        vals = Q.flag_valuations_at(sg, first, w.id)
        bad = None
        for st in vals:
            seen = Q.reach_flags(
                sg, [w.id], init=dict(st),
                avoid=lambda x: removes_cache(x) or Q.is_call(x, commit))
            p = Q.flag_witness(sg, seen, rexit)
            if p:
                bad = p
                break
        key = 'write of %s in %s is compensated' % (cparam, root.qualname)
        if bad:
            rc.violation(
                'uncompensated-write | %s | %s(%s)' % (
                    root.qualname, wq, cparam),
                'if writing the cache file fails (or a later step does), a '
                'path leaves %s without removing the partially written '
                'file; with no old cache file to restore, a broken cache '
                'file stays behind' % root.qualname, w.where(),
                sg.describe_path(bad), key=key)
        else:
            rc.ok({'write': key, 'flag_valuations_at_write': len(vals)},
                  key=key)
    # (ii) the remover never deletes an old cache file that is still in place
    def backed(x):
        return Q.is_done(x, bq) and is_cache_arg(x)

    def edge_ok(a, b, lab):
        return not _isfile_of(
            ctx, lab, lambda e, func=None: isinstance(e, ast.Name) and (
                (func or root).qualname, e.id) in cnames)
    seen = Q.reach_flags(sg, [sg.entry], avoid=backed, edge_ok=edge_ok)
    p = Q.flag_witness(sg, seen, removes_cache)
    key = 'remover of %s only after the old file was moved aside' % cparam
    if p:
        rc.violation(
            'compensation-deletes-old | %s | %s(%s)' % (
                root.qualname, rmq, cparam),
            'the failure handler can delete the cache file on a path where '
            'the old cache file is still in place (it was neither absent '
            'nor moved aside): the previous cache is lost',
            sg.nodes[p[-1]].where(), sg.describe_path(p), key=key)
    else:
        rc.ok({'guard': key}, key=key)
    # (iii) compensation precedes restoration
    starts = [x.id for x in sg.nodes if Q.is_call(x, rbq)]
    seen = sg.reach(starts)
    late = [x for x in sg.nodes if x.id in seen and removes_cache(x)]
    key = 'remover of %s precedes rollback' % cparam
    if late:
        rc.violation(
            'compensation-after-restore | %s | %s(%s)' % (
                root.qualname, rmq, cparam),
            'the partially written cache file is removed after rollback '
            'restored the old cache file: the restored file is deleted',
            late[0].where(), sg.describe_path(
                sg.witness(seen, late[0].id)), key=key)
    else:
        rc.ok({'order': key}, key=key)
    # (iv) the writer creates no path the compensation does not know: every
    # file it opens for writing, or moves something to, is the name it was
    # given - or it removes the other path itself when it fails
    _writer_paths(ctx, rc, N['write'], root)


_CREATORS = {'gzip.open': 0, 'open': 0, 'io.open': 0, 'os.replace': 1,
             'os.rename': 1, 'shutil.move': 1, 'shutil.copy': 1,
             'shutil.copy2': 1, 'shutil.copyfile': 1, 'os.link': 1,
             'os.mkdir': 0, 'os.makedirs': 0, 'bz2.open': 0, 'lzma.open': 0,
             'gzip.GzipFile': 0}
_TEMP_MAKERS = ('tempfile.mkstemp', 'tempfile.NamedTemporaryFile',
                'tempfile.mkdtemp', 'tempfile.TemporaryDirectory')
_REMOVERS = ('os.remove', 'os.unlink', 'os.rmdir', 'shutil.rmtree')


def _dotted(e):
    parts = []
    while isinstance(e, ast.Attribute):
        parts.append(e.attr)
        e = e.value
    if isinstance(e, ast.Name):
        parts.append(e.id)
        return '.'.join(reversed(parts))
    return None


def _opens_for_writing(call, name):
    if name not in ('gzip.open', 'open', 'io.open', 'bz2.open', 'lzma.open',
                    'gzip.GzipFile'):
        return True
    mode = call.args[1] if len(call.args) > 1 else None
    for k in call.keywords:
        if k.arg == 'mode':
            mode = k.value
    if mode is None:
        return False
    if isinstance(mode, ast.Constant) and isinstance(mode.value, str):
        return any(c in mode.value for c in 'wax+')
    return True


def _writer_paths(ctx, rc, wf, root):
    if not wf.params:
        raise AnalysisError(wf.qualname + ' has no file-name parameter')
    param = wf.params[0]
    created = []      # (call node, dotted name, path expression)
    temps = []
    for n in ast.walk(wf.node):
        if not isinstance(n, ast.Call):
            continue
        d = _dotted(n.func)
        if d in _TEMP_MAKERS:
            temps.append(n)
            continue
        if d not in _CREATORS or not _opens_for_writing(n, d):
            continue
        i = _CREATORS[d]
        if len(n.args) > i:
            created.append((n, d, n.args[i]))
    if not created and not temps:
        raise AnalysisError('no file-creating call found in ' + wf.qualname)

    def cleaned_up(site, path):
        """`site` lies in the body of a try of the writer whose handler or
        finally clause removes `path`."""
        want = ast.dump(path)
        for t in ast.walk(wf.node):
            if not isinstance(t, ast.Try):
                continue
            if not any(site is x for b in t.body for x in ast.walk(b)):
                continue
            clean = list(t.finalbody)
            for h in t.handlers:
                clean += h.body
            for c in clean:
                for x in ast.walk(c):
                    if isinstance(x, ast.Call) and x.args and (
                            _dotted(x.func) in _REMOVERS or (
                                isinstance(x.func, ast.Attribute) and
                                'remove' in x.func.attr)) and \
                            ast.dump(x.args[0]) == want:
                        return True
        return False
    key = '%s creates only the file it is given' % wf.qualname
    bad = [(n, d, a) for n, d, a in created
           if not (isinstance(a, ast.Name) and a.id == param) and
           not cleaned_up(n, a)]
    bad += [(n, _dotted(n.func), n) for n in temps
            if not any(isinstance(t, ast.Try) and t.finalbody or
                       isinstance(t, ast.With) for t in ast.walk(wf.node)
                       if any(n is x for x in ast.walk(t)))]
    if bad:
        n, d, a = bad[0]
        rc.violation(
            'writer-creates-unknown-path | %s | %s' % (wf.qualname, d),
            'the cache writer creates a path other than the name it was '
            'given (%s) and does not remove it when it fails; the failure '
            'handler of %s removes only the cache file itself, so a failed '
            'write leaves that file behind after rollback' % (
                ast.unparse(a)[:60], root.qualname),
            '%s:%d' % (wf.file, n.lineno), key=key)
    else:
        rc.ok({'writer': key, 'creating_calls': len(created) + len(temps)},
              key=key)


def r2_10(ctx, rc):
    """Coverage matrix: backup guard (in the build_file protocol) x removal
    guard (in rollback)."""
    N = _names(ctx)
    R = ctx.R
    bf = N['build_file']
    sgb = ctx.helpers_graph(bf, stop=(
        ctx.R.builder + opt('._try_to_reuse_cached_file'),
        ctx.R.builder + opt('._rebuild_file'),
        ctx.R.builder + opt('._prepare_file_creation'),
        ctx.R.builder + opt('._assert_build_file_call_valid'),
        ctx.R.builder + opt('._ensure_dirs_case')))
    bq = N['backup'].qualname
    bsites = [x for x in sgb.nodes if Q.is_call(x, bq) and x.call.args and
              _own_filename(ctx.H.subst_frames(x.call.args[0], x))]
    if not bsites:
        rc.violation('backup-guard | ' + bf.qualname,
                     'the target is never moved aside before it is rebuilt '
                     '(an existing file that the build overwrites cannot be '
                     'restored by rollback)', bf.file, key='backup guard')
        return
    # the conditions of the backup: the branch facts the site is control-
    # dependent on (independent of how the protocol is split into helpers)
    bfacts = {(f[0], ast.dump(ctx.H.subst(f[1], f[2], f[3]))): f
              for f in Q.control_facts(sgb, bsites[0].id)}
    rb = N['rollback']
    sgr = ctx.helpers_graph(rb, stop=(N['remover'].qualname,
                                      N['dir_remover'].qualname,
                                      N['create_dirs'].qualname))
    rsites = [x for x in sgr.nodes if Q.is_call(x, N['remover'].qualname)]
    if not rsites:
        raise AnalysisError('file remover not found in rollback')
    rfacts = {(f[0], ast.dump(ctx.H.subst(f[1], f[2], f[3]))): f
              for f in Q.control_facts(sgr, rsites[0].id)}

    def classify(f):
        pol, atom, func, cn = f
        if isinstance(atom, ast.Name) and atom.id in \
                ctx.E.cfgs.get(func).flag_names:
            return 'REUSED', pol      # a recorded branch, tracked as a flag
        a = ctx.H.subst(atom, func, cn)
        if isinstance(a, ast.Call):
            names = [g.qualname if isinstance(g, Func) else g
                     for g in ctx.prog.resolve_call(a, func)]
            if 'os.path.isfile' in names:
                return 'ISFILE', pol
            if R.cache + '.created_file' in names or \
                    R.cache + '.created_norm_cased_file' in names:
                if isinstance(a.func, ast.Attribute) and ctx.H.expr_roles(
                        a.func.value, func, cn) == {'old'}:
                    return 'OLD_CREATED', pol
            if any(n.endswith('_try_to_reuse_cached_file') for n in names):
                return 'REUSED', pol
            return 'OTHER:' + '/'.join(names), pol
        return 'OTHER:' + ast.unparse(a)[:40], pol
    def is_validation(sg, f, site):
        """The fact comes from a guard whose other branch only raises (an
        argument/state validation, not a condition of the action)."""
        pol, atom, func, cn = f
        for x in sg.nodes:
            if x.kind == 'out' and x.cn is cn:
                for d, lab in x.succ:
                    if isinstance(lab, tuple) and len(lab) == 4 and \
                            lab[0] != pol and lab[0] in ('T', 'F'):
                        seen = sg.reach([d])
                        if site.id in seen or any(
                                e in seen for e in sg.normal_exits()):
                            return False
                return True
        return False
    b = sorted({classify(f) for f in (bfacts or {}).values()
                if not (classify(f)[0].startswith('OTHER') and
                        is_validation(sgb, f, bsites[0]))})
    r = sorted({classify(f) for f in (rfacts or {}).values()
                if not (classify(f)[0].startswith('OTHER') and
                        is_validation(sgr, f, rsites[0]))})
    b = [x for x in b if x[0] != 'REUSED']
    key = 'backup guard'
    if [x for x in b if x[0].startswith('OTHER')] or \
            ('ISFILE', 'T') not in b:
        rc.violation('backup-guard | ' + bf.qualname,
                     'the target is moved aside under %s, expected exactly '
                     'ISFILE(target)' % b, bsites[0].where(), key=key)
    else:
        rc.ok({'backup_iff': 'ISFILE(target)'}, key=key)
    key = 'removal guard'
    if r != [('OLD_CREATED', 'F')]:
        rc.violation(
            'removal-guard | %s | %s' % (rb.qualname, r),
            'rollback removes a file of the new cache under %s, expected '
            'exactly "not created by the old cache" (an output whose old '
            'record is a failure, or that is merely present in the old '
            'cache, would survive rollback)' % r, rsites[0].where(),
            key=key)
        return
    rc.ok({'remove_iff': 'not OLD_CREATED(file)'}, key=key)
    # enumerate the cells (finite abstract evaluation)
    for isfile in (True, False):
        for oldc in (True, False):
            backed = isfile
            removed = not oldc
            cell = 'ISFILE(target)=%s & OLD_CREATED(target)=%s' % (
                isfile, oldc)
            key = 'cell ' + cell
            if backed or removed:
                rc.ok({'cell': cell, 'backed_up': backed,
                       'removed': removed}, key=key)
            else:
                rc.violation(
                    'R2.10-matrix | ' + cell,
                    'an output that is rebuilt by a failing build when '
                    '%s is neither restored from a backup nor removed by '
                    'rollback' % cell, rsites[0].where(), key=key)


def r2_11(ctx, rc):
    """Rollback removes the directories the build created: each of them
    has an owner even when two threads created/reserved it concurrently
    (R9.6)."""
    from .c09 import r9_6
    from .c14 import r14_3
    r9_6(ctx, rc)
    # ... and directories made before a failing mkdir are handed off
    r14_3(ctx, rc)


RULES = [
    ('R2.1', 'every effect before commit is inside the rollback scope', r2_1),
    ('R2.2', 'user exceptions propagate by bare raise only', r2_2),
    ('R2.3', 'rollback cannot be cut short', r2_3),
    ('R2.4', 'backup (or absence) precedes overwrite', r2_4),
    ('R2.5', 'the build runs inside the with block owning the backups', r2_5),
    ('R2.6', 'backups are moved, never copied', r2_6),
    ('R2.6b', 'every backup gets its own slot', r2_6b),
    ('R2.7', 'rollback order: remove before restore; no directory re-created over a backup', r2_7),
    ('R2.8', 'rollback undo sets are complete', r2_8),
    ('R2.9', 'a failed cache write is compensated', r2_9),
    ('R2.10', 'coverage matrix backup guard x removal guard', r2_10),
    ('R2.11', 'a concurrently created directory keeps an owner', r2_11),
]
