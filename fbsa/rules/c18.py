"""C18 - JSON helper laws (the clauses that are shape, not arithmetic)."""
import ast

from ..model import Func, AnalysisError
from .. import queries as Q

EXPLANATION = (
    'R18.1 freshness: every return of sanitize is the argument itself under '
    'a path condition that its exact class is an immutable scalar (or it is '
    'None), a container constructed in this activation whose elements are '
    'results of the recursive call (keys: results of the key converter), an '
    'immutable constructor call, or a json round trip - so the result '
    'shares no mutable structure with the argument. R18.2 totality: every '
    'path through sanitize/_key_to_str ends in such a return or in raise '
    'TypeError. R18.3: in every JSON walker bool is discriminated before '
    'the generic fall-through (raw ==, identity return, int branch). R18.4: '
    'tag discipline of the hashable form (constant non-str list tag; the '
    'encodings of [], {}, True, False pairwise distinct). R18.5: container '
    'equality compares lengths and tests key presence before comparing '
    'values. R18.6: the dict branch of sanitize stores with overwrite '
    'semantics in the order of the argument\'s items, so among keys that '
    'stringify alike the last member wins as in json.loads(json.dumps(d)). '
    'The algebraic laws over run-time values (reflexive/symmetric/'
    'transitive, 1 == 1.0, full injectivity) are NOT decided.')

IMMUT = {'str', 'int', 'float', 'bool'}
WALKERS = ('is_equal', 'to_hashable', 'sanitize', '_key_to_str')


def _util(ctx, name):
    return ctx.E.func('JsonUtil.' + name)


def _mentions(e, name):
    return any(isinstance(n, ast.Name) and n.id == name
               for n in ast.walk(e))


def _class_of_param(ctx, e, func, cn, params):
    """e (after copy propagation) is <param>.__class__ or type(<param>)."""
    s = ctx.H.subst(e, func, cn)
    if isinstance(s, ast.Attribute) and s.attr == '__class__' and \
            isinstance(s.value, ast.Name) and s.value.id in params:
        return s.value.id
    if isinstance(s, ast.Call) and isinstance(s.func, ast.Name) and \
            s.func.id == 'type' and s.args and isinstance(
                s.args[0], ast.Name) and s.args[0].id in params:
        return s.args[0].id
    return None


def _immutable_fact(ctx, lab, param, func):
    """T-edge of `<class of param> == <immutable class>` / `param is None`."""
    if not (isinstance(lab, tuple) and len(lab) == 4 and lab[0] == 'T'):
        return False
    a = lab[1]
    if isinstance(a, ast.Compare) and len(a.ops) == 1:
        l, r = a.left, a.comparators[0]
        if isinstance(a.ops[0], (ast.Eq, ast.Is)):
            if isinstance(r, ast.Name) and r.id in IMMUT and \
                    _class_of_param(ctx, l, lab[2], lab[3], [param]):
                return True
            if isinstance(l, ast.Name) and l.id in IMMUT and \
                    _class_of_param(ctx, r, lab[2], lab[3], [param]):
                return True
            if isinstance(a.ops[0], ast.Is) and isinstance(l, ast.Name) and \
                    l.id == param and isinstance(r, ast.Constant) and \
                    r.value is None:
                return True
    return False


def _fresh(ctx, e, func, cn, rec, keyconv, depth=0):
    """None if e is a freshly built container whose elements come from the
    recursive call; else a reason string."""
    if depth > 4:
        return 'too deep'
    prog = ctx.prog

    def through_local(x):
        # a named local holding the result (``v = sanitize(sub)``)
        if isinstance(x, ast.Name):
            cns = ctx.H.node_of(func, x)
            if cns:
                return ctx.H.subst(x, func, cns[0])
        return x

    def is_rec(x):
        x = through_local(x)
        return isinstance(x, ast.Call) and any(
            isinstance(g, Func) and g.qualname == rec.qualname
            for g in prog.resolve_call(x, func))

    def is_key(x):
        x = through_local(x)
        return isinstance(x, ast.Call) and any(
            isinstance(g, Func) and g.qualname == keyconv.qualname
            for g in prog.resolve_call(x, func))
    if isinstance(e, ast.Call):
        names = prog.resolve_call(e, func)
        if any(n in ('builtins.list', 'builtins.tuple', 'builtins.dict',
                     'builtins.set') for n in names if isinstance(n, str)):
            if not e.args:
                return None
            return _fresh(ctx, e.args[0], func, cn, rec, keyconv, depth + 1)
        if any(n in ('builtins.str', 'builtins.int', 'builtins.float',
                     'builtins.bool') for n in names if isinstance(n, str)):
            return None
        if any(n == 'json.loads' for n in names if isinstance(n, str)):
            return None
        if is_rec(e):
            return None
        return 'call %s is not a copy' % ast.unparse(e.func)
    if isinstance(e, (ast.List, ast.Tuple, ast.Set)):
        for x in e.elts:
            if not is_rec(x) and not isinstance(x, ast.Constant):
                return 'element %s is not a result of the recursive call' % \
                    ast.unparse(x)
        return None
    if isinstance(e, (ast.ListComp, ast.SetComp, ast.GeneratorExp)):
        if not is_rec(e.elt):
            return 'comprehension element %s is not a result of the ' \
                'recursive call' % ast.unparse(e.elt)
        return None
    if isinstance(e, ast.DictComp):
        if not is_rec(e.value):
            return 'dict value is not a result of the recursive call'
        if not (is_key(e.key) or isinstance(e.key, ast.Constant)):
            return 'dict key is not a result of the key converter'
        return None
    if isinstance(e, ast.Dict):
        for k, v in zip(e.keys, e.values):
            if not is_rec(v):
                return 'dict value is not a result of the recursive call'
        return None
    if isinstance(e, ast.Constant):
        return None
    if isinstance(e, ast.Name):
        cfg = ctx.E.cfgs.get(func)
        rd = cfg.reaching_defs()[cn.id].get(e.id, ())
        if not rd:
            return 'unbound'
        for nid in rd:
            v = cfg.def_value(nid, e.id)
            if not isinstance(v, ast.AST):
                return '%s is not built in this activation' % e.id
            r = _fresh(ctx, v, func, cfg.nodes[nid], rec, keyconv, depth + 1)
            if r:
                return r
        # every write into the local stores results of the recursive call
        for n in ast.walk(func.node):
            if isinstance(n, ast.Assign):
                for t in n.targets:
                    if isinstance(t, ast.Subscript) and isinstance(
                            t.value, ast.Name) and t.value.id == e.id:
                        if not is_rec(n.value):
                            return 'stores %s into %s' % (
                                ast.unparse(n.value), e.id)
                        if not (is_key(t.slice) or isinstance(
                                t.slice, ast.Constant)):
                            return 'key %s is not a result of the key ' \
                                'converter' % ast.unparse(t.slice)
            if isinstance(n, ast.Call) and isinstance(
                    n.func, ast.Attribute) and isinstance(
                        n.func.value, ast.Name) and n.func.value.id == e.id \
                    and n.func.attr in ('append', 'add', 'extend', 'update',
                                        'insert', 'setdefault'):
                for a in n.args:
                    if not is_rec(a) and not is_key(a):
                        return 'adds %s to %s' % (ast.unparse(a), e.id)
        return None
    return 'unsupported return shape %s' % type(e).__name__


def r18_1(ctx, rc):
    S = _util(ctx, 'sanitize')
    K = _util(ctx, '_key_to_str')
    param = S.params[0]
    sg = ctx.E.super(S, lambda g: False)
    n = 0
    for x in sg.nodes:
        if not (x.kind == 'out' and x.cn.kind == 'return'):
            continue
        v = x.cn.ast.value
        if v is None:
            continue
        n += 1
        key = 'return %s' % ast.unparse(v)[:50]
        if isinstance(v, ast.Name) and v.id == param:
            seen = sg.reach(
                [sg.entry],
                edge_ok=lambda a, b, lab: not _immutable_fact(
                    ctx, lab, param, S))
            if x.id in seen:
                rc.violation(
                    'shares-structure | sanitize | return of the argument',
                    'sanitize can return its argument itself on a path that '
                    'did not establish that its exact class is an immutable '
                    'scalar (a list/dict subclass instance or container '
                    'would be shared with the caller)', x.where(),
                    sg.describe_path(sg.witness(seen, x.id)), key=key)
            else:
                rc.ok({'return': 'argument', 'under': 'exact class in '
                       '{str,int,float,bool} or None'}, key=key)
            continue
        why = _fresh(ctx, v, S, x.cn, S, K)
        if why:
            rc.violation('shares-structure | sanitize | ' + key,
                         'a return of sanitize is not provably fresh: ' + why,
                         x.where(), key=key)
        else:
            rc.ok({'return': ast.unparse(v)[:60], 'fresh': True}, key=key)
    if n < 5:
        raise AnalysisError('only %d returns in sanitize' % n)


def r18_2(ctx, rc):
    for name in ('sanitize', '_key_to_str'):
        F = _util(ctx, name)
        sg = ctx.E.super(F, lambda g: g.qualname == 'JsonUtil._key_to_str')
        key = name + ' raises only TypeError'
        other = sorted(c for c in sg.raise_exits if c != 'TypeError')
        if other:
            rc.violation('rejection-class | ' + name,
                         '%s can raise %s instead of TypeError' % (
                             name, other), F.file, key=key)
        elif 'TypeError' not in sg.raise_exits:
            rc.violation('no-rejection | ' + name,
                         '%s never raises TypeError: non-JSON values are '
                         'not rejected' % name, F.file, key=key)
        else:
            rc.ok({'raises': ['TypeError']}, key=key)
        # no implicit return None: every edge into a normal exit comes from
        # a return statement
        key = name + ' has no implicit return'
        bad = None
        for x in sg.nodes:
            if x.frame.parent is not None:
                continue
            for d, lab in x.succ:
                dn = sg.nodes[d]
                if dn.kind in ('exit_t', 'exit_f', 'exit_n') and \
                        dn.frame.parent is None:
                    if not (x.kind == 'out' and x.cn.kind == 'return'):
                        bad = x
        if bad is not None:
            rc.violation('implicit-return | ' + name,
                         '%s can fall off its end and return None' % name,
                         bad.where(), key=key)
        else:
            rc.ok({'explicit_returns_only': True}, key=key)
        # the last resort of the chain rejects
        key = name + ' final else rejects'
        from ..astpaths import cond_paths
        def established(t, pol):
            # ``x is not None`` evaluated False establishes ``x is None``
            if isinstance(t, ast.Compare) and len(t.ops) == 1 and isinstance(
                    t.ops[0], (ast.IsNot, ast.NotEq, ast.NotIn)):
                return not pol
            return pol
        finals = [st for conds, st in cond_paths(F.node.body)
                  if len(conds) >= 2 and not any(
                      established(t, pol) for t, pol in conds)]
        if finals and all(isinstance(x, ast.Raise) for x in finals):
            rc.ok({'final': 'raise'}, key=key)
        else:
            rc.violation('final-else | ' + name,
                         'the final alternative of %s does not raise '
                         'TypeError (unknown classes pass through)' % name,
                         ctx.prog.loc(F, F.node), key=key)


def _is_bool_test(e):
    """A recognised test that separates bool from every other class:
    `<cls> == bool` / `<cls> is bool` (either order), isinstance(x, bool),
    or the xor form `(c1 == bool) != (c2 == bool)`.  A test that lumps bool
    together with other classes (e.g. `{c1, c2} == {bool, int}`) is not
    one: it separates bool from int only."""
    if isinstance(e, ast.Call) and isinstance(e.func, ast.Name) and \
            e.func.id == 'isinstance' and len(e.args) == 2 and \
            isinstance(e.args[1], ast.Name) and e.args[1].id == 'bool':
        return True
    if isinstance(e, ast.Compare) and len(e.ops) == 1:
        l, r = e.left, e.comparators[0]
        if isinstance(e.ops[0], (ast.Eq, ast.Is, ast.NotEq, ast.IsNot)):
            if isinstance(r, ast.Name) and r.id == 'bool' and not \
                    _mentions(l, 'bool'):
                return True
            if isinstance(l, ast.Name) and l.id == 'bool' and not \
                    _mentions(r, 'bool'):
                return True
            if _is_bool_test(l) and _is_bool_test(r):
                return True
    return False


_CTX = {}


def _bool_atom(lab):
    if not (isinstance(lab, tuple) and len(lab) == 4):
        return False
    if _is_bool_test(lab[1]):
        return True
    ctx = _CTX.get('ctx')
    if ctx is not None:
        return _is_bool_test(ctx.H.subst(lab[1], lab[2], lab[3]))
    return False


def r18_3(ctx, rc):
    prog = ctx.prog
    _CTX['ctx'] = ctx
    for name in WALKERS:
        F = _util(ctx, name)
        params = F.params
        sg = ctx.E.super(F, lambda g: False)
        targets = []
        for x in sg.nodes:
            if x.kind == 'out' and x.cn.kind == 'cond':
                a = x.cn.atom
                # raw == between the two parameters (generic comparison)
                if isinstance(a, ast.Compare) and len(a.ops) == 1 and \
                        isinstance(a.ops[0], (ast.Eq, ast.NotEq)) and \
                        isinstance(a.left, ast.Name) and \
                        a.left.id in params and isinstance(
                            a.comparators[0], ast.Name) and \
                        a.comparators[0].id in params and \
                        a.left.id != a.comparators[0].id:
                    targets.append((x, 'raw == of the arguments'))
            if x.kind == 'out' and x.cn.kind == 'return' and \
                    name == 'to_hashable':
                v = x.cn.ast.value
                if isinstance(v, ast.Name) and v.id in params:
                    targets.append((x, 'identity return'))
        # int branches: T-edge of isinstance(x, int) / cls == int
        int_edges = []
        for x in sg.nodes:
            if x.kind == 'out' and x.cn.kind == 'cond':
                a = x.cn.atom
                is_int = False
                if isinstance(a, ast.Call) and isinstance(a.func, ast.Name) \
                        and a.func.id == 'isinstance' and len(a.args) == 2:
                    cl = a.args[1]
                    names = [c.id for c in (cl.elts if isinstance(
                        cl, ast.Tuple) else [cl]) if isinstance(c, ast.Name)]
                    is_int = 'int' in names and 'bool' not in names
                if is_int:
                    for d, lab in x.succ:
                        if isinstance(lab, tuple) and lab[0] == 'T':
                            int_edges.append((x, d))
        seen = sg.reach([sg.entry],
                        edge_ok=lambda a, b, lab: not _bool_atom(lab))
        for x, what in targets:
            key = '%s: bool discriminated before %s' % (name, what)
            if x.id in seen:
                rc.violation(
                    'bool-not-discriminated | %s | %s' % (name, what),
                    '%s reaches its %s without a test that separates '
                    'booleans from numbers (True == 1)' % (name, what),
                    x.where(), sg.describe_path(sg.witness(seen, x.id)),
                    key=key)
            else:
                rc.ok({'walker': name, 'fallthrough': what}, key=key)
        for x, d in int_edges:
            key = '%s: bool branch before the int branch' % name
            if x.id in seen:
                rc.violation(
                    'bool-after-int | ' + name,
                    'in %s the int branch can be taken by a bool (the bool '
                    'test does not precede it)' % name, x.where(),
                    sg.describe_path(sg.witness(seen, x.id)), key=key)
            else:
                rc.ok({'walker': name, 'int_branch_after_bool': True},
                      key=key)
        if name in ('is_equal', 'to_hashable') and not targets:
            raise AnalysisError('generic fall-through of %s not found' %
                                name)
        # sibling cross-check: classes each walker discriminates
        if name != '_key_to_str':
            ms = {c for c in ('list', 'dict', 'bool')
                  if _mentions(F.node, c)}
            key = name + ' discriminates list, dict, bool'
            if ms != {'list', 'dict', 'bool'}:
                rc.violation('walker-classes | ' + name,
                             '%s does not discriminate %s' % (
                                 name, sorted({'list', 'dict', 'bool'} - ms)),
                             F.file, key=key)
            else:
                rc.ok({'walker': name, 'classes': sorted(ms)}, key=key)


def _const_tuple(e):
    try:
        v = ast.literal_eval(e)
    except Exception:
        return None
    return v if isinstance(v, tuple) else None


def _scalar_passthrough(ctx, rc, F):
    """A scalar keeps its exact value in the hashable form: a return that
    is not a tagged tuple is the argument itself, never a conversion of it
    (``float(value)`` merges integers above 2**53, ``str(value)`` merges 1
    and '1'): the form is a cache key and must separate what JSON equality
    separates."""
    param = F.params[0]
    conv = {'float', 'int', 'str', 'bool', 'repr', 'round', 'abs', 'hash'}
    for r in ast.walk(F.node):
        if not isinstance(r, ast.Return) or r.value is None:
            continue
        v = r.value
        if isinstance(v, ast.Call) and isinstance(v.func, ast.Name) and \
                v.func.id in conv and any(
                    isinstance(x, ast.Name) and x.id == param
                    for a in v.args for x in ast.walk(a)):
            rc.violation(
                'hashable-scalar-converted | ' + F.qualname,
                '%s returns %s: a scalar must keep its exact value in the '
                'hashable form (two different arguments would share one '
                'cache key)' % (F.qualname, ast.unparse(v)[:40]),
                ctx.prog.loc(F, r), key='scalar returns of ' + F.qualname)
            return
    rc.ok({'scalars': 'returned unconverted'},
          key='scalar returns of ' + F.qualname)


def r18_4(ctx, rc):
    F = _util(ctx, 'to_hashable')
    _scalar_passthrough(ctx, rc, F)
    enc = {}
    from ..astpaths import cond_paths, class_eq_fact, isinstance_fact
    bool_rets = []
    for conds, st in cond_paths(F.node.body):
        cname = None
        for t, pol in conds:
            ce = class_eq_fact(t)
            if ce is not None and pol != ce[2] and ce[1] in (
                    'list', 'tuple', 'dict', 'bool'):
                cname = ce[1]
            fi = isinstance_fact(t)
            if fi is not None and pol:
                for c in fi[1]:
                    if c in ('list', 'tuple', 'dict', 'bool'):
                        cname = c
        if cname in ('list', 'tuple') and isinstance(st, ast.Assign) and \
                isinstance(st.value, (ast.List, ast.Tuple)) and \
                'list' not in enc:
            try:
                enc['list'] = tuple(ast.literal_eval(st.value))
            except Exception:
                enc['list'] = None
        elif cname in ('list', 'tuple') and isinstance(st, ast.Return):
            v = st.value
            if isinstance(v, ast.BinOp) and isinstance(v.op, ast.Add):
                enc['list'] = _const_tuple(v.left)
            elif isinstance(v, ast.Tuple) and any(
                    isinstance(e, ast.Starred) for e in v.elts):
                # (0, *[...]): the constants in front of the expansion
                lead = []
                for e in v.elts:
                    if isinstance(e, ast.Starred):
                        break
                    lead.append(e)
                enc['list'] = _const_tuple(ast.Tuple(elts=lead,
                                                     ctx=ast.Load()))
            elif isinstance(v, ast.Call) and v.args and 'list' not in enc:
                enc['list'] = None
        elif cname == 'dict' and isinstance(st, ast.Assign) and isinstance(
                st.value, (ast.List, ast.Tuple)):
            try:
                enc['dict'] = tuple(ast.literal_eval(st.value))
            except Exception:
                enc['dict'] = None
        elif cname == 'bool' and isinstance(st, ast.Return) and isinstance(
                st.value, ast.IfExp):
            bool_rets.append((True, _const_tuple(st.value.body)))
            bool_rets.append((False, _const_tuple(st.value.orelse)))
        elif cname == 'bool' and isinstance(st, ast.Return):
            # (value-test polarity, encoding)
            truth = [pol for t, pol in conds if isinstance(t, ast.Name)]
            bool_rets.append((truth[-1] if truth else None,
                              _const_tuple(st.value)))
    if len(bool_rets) == 2:
        d = dict(bool_rets)
        if set(d) == {True, False}:
            enc['true'], enc['false'] = d[True], d[False]
        else:
            enc['true'], enc['false'] = bool_rets[0][1], bool_rets[1][1]
    need = ('list', 'dict', 'true', 'false')
    if any(k not in enc for k in need):
        missing = sorted(k for k in need if k not in enc)
        if set(missing) <= {'true', 'false'} and 'list' in enc:
            rc.violation(
                'hashable-tags | to_hashable',
                'the hashable form has no distinct encoding for booleans '
                '(True and 1 get the same key)', ctx.prog.loc(F, F.node),
                key='tags of the hashable form')
            return
        raise AnalysisError('encodings of to_hashable not recognised: %s'
                            % sorted(enc))
    problems = []
    lt = enc['list']
    if lt is None or len(lt) < 1:
        problems.append('the list encoding does not start with a constant '
                        'tag')
    else:
        if isinstance(lt[0], str):
            problems.append('the list tag %r is a string: a list collides '
                            'with a dict whose smallest key is that string'
                            % (lt[0],))
    if enc['true'] is None or enc['false'] is None:
        problems.append('the boolean encodings are not constant tuples')
    if enc['dict'] is None:
        problems.append('the initial dict encoding is not a constant')
    if not problems:
        empties = {'[]': lt, '{}': enc['dict'], 'True': enc['true'],
                   'False': enc['false']}
        ks = sorted(empties)
        for i, a in enumerate(ks):
            for b in ks[i + 1:]:
                if empties[a] == empties[b]:
                    problems.append('%s and %s have the same hashable form '
                                    '%r' % (a, b, empties[a]))
        if enc['dict'] and lt and enc['dict'][0] == lt[0]:
            problems.append('dict tag equals list tag')
        for b in ('true', 'false'):
            if enc[b] and (len(enc[b]) != 1 or isinstance(enc[b][0], str)):
                problems.append('boolean encoding %r can collide with a '
                                'dict/list encoding' % (enc[b],))
    key = 'tags of the hashable form'
    if problems:
        rc.violation('hashable-tags | to_hashable',
                     'the hashable form is not injective: ' +
                     '; '.join(problems), ctx.prog.loc(F, F.node), key=key)
    else:
        rc.ok({'encodings': {k: repr(v) for k, v in enc.items()}}, key=key)


def r18_5(ctx, rc):
    F = _util(ctx, 'is_equal')
    # private helpers of the class (a per-kind comparison split out of
    # is_equal) are part of the comparison
    sg = ctx.E.super(F, lambda g: g.cls == F.cls and g is not F and
                     not g.is_public and not g.is_ctor_call)
    # every explicit `return True` was preceded by a length comparison
    for x in sg.nodes:
        if x.kind == 'out' and x.cn.kind == 'return' and isinstance(
                x.cn.ast.value, ast.Constant) and x.cn.ast.value.value is True:
            seen = sg.reach(
                [sg.entry], edge_ok=lambda a, b, lab: not (
                    isinstance(lab, tuple) and len(lab) == 4 and
                    _mentions(lab[1], 'len')))
            key = 'length compared before return True (line-independent %d)' \
                % len(rc.samples)
            if x.id in seen:
                rc.violation('length-unchecked | is_equal',
                             'containers can compare equal without their '
                             'lengths having been compared (zip truncates)',
                             x.where(), sg.describe_path(
                                 sg.witness(seen, x.id)), key=key)
            else:
                rc.ok({'return_true_after': 'len comparison'}, key=key)
    # dict branch: key presence is tested before the values are compared
    loops = [x for x in sg.nodes if x.kind == 'out' and
             x.cn.kind == 'for_next' and isinstance(
                 x.cn.ast.iter, ast.Call) and isinstance(
                     x.cn.ast.iter.func, ast.Attribute) and
             x.cn.ast.iter.func.attr in ('items', 'keys')]
    if not loops:
        raise AnalysisError('dict loop of is_equal not found')
    for lp in loops:
        body = [d for d, l in lp.succ
                if isinstance(l, tuple) and l[0] == 'iter']

        def present(lab):
            if not (isinstance(lab, tuple) and len(lab) == 4):
                return False
            a = lab[1]
            if isinstance(a, ast.Compare) and len(a.ops) == 1:
                if isinstance(a.ops[0], ast.NotIn) and lab[0] == 'F':
                    return True
                if isinstance(a.ops[0], ast.In) and lab[0] == 'T':
                    return True
            return False
        seen = sg.reach(body, edge_ok=lambda a, b, lab: not present(lab))
        back = [n for n in seen if sg.nodes[n].kind == 'in' and
                sg.nodes[n].cn is lp.cn]
        key = 'dict comparison tests key presence'
        if back:
            rc.violation(
                'key-presence | is_equal',
                'the dict branch of is_equal can accept an entry without '
                'having tested that the key is present in the other dict (a '
                'missing key is confused with a None value)', lp.where(),
                sg.describe_path(sg.witness(seen, back[0])), key=key)
        else:
            rc.ok({'loop': 'for key, value in value1.items()',
                   'requires': 'key in value2'}, key=key)


def r18_6(ctx, rc):
    """Key collisions: json.loads(json.dumps(d)) keeps the LAST member among
    keys that stringify alike, in the dict's own iteration order.  The dict
    branch of sanitize must therefore store with overwrite semantics while
    iterating the argument's items in order."""
    prog = ctx.prog
    S = _util(ctx, 'sanitize')
    param = S.params[0]
    parents = {}
    for n in ast.walk(S.node):
        for c in ast.iter_child_nodes(n):
            parents[c] = n

    def chain(n):
        while n in parents:
            n = parents[n]
            yield n

    def items_of_param(it, at):
        cn = ctx.H.node_of(S, at)
        e = ctx.H.subst(it, S, cn[0]) if cn else it
        return (isinstance(e, ast.Call) and isinstance(e.func, ast.Attribute)
                and e.func.attr == 'items' and not e.args and
                isinstance(e.func.value, ast.Name) and
                e.func.value.id == param)
    n = 0
    # (a) results built by a loop
    dict_locals = set()
    for a in ast.walk(S.node):
        if isinstance(a, ast.Assign) and len(a.targets) == 1 and isinstance(
                a.targets[0], ast.Name):
            v = a.value
            if (isinstance(v, ast.Dict) and not v.keys) or (
                    isinstance(v, ast.Call) and isinstance(v.func, ast.Name)
                    and v.func.id == 'dict' and not v.args and
                    not v.keywords):
                dict_locals.add(a.targets[0].id)
    returned = {r.value.id for r in ast.walk(S.node)
                if isinstance(r, ast.Return) and isinstance(r.value, ast.Name)}
    for r in sorted(dict_locals & returned):
        writes = []
        for w in ast.walk(S.node):
            if isinstance(w, ast.Assign) and any(
                    isinstance(t, ast.Subscript) and isinstance(
                        t.value, ast.Name) and t.value.id == r
                    for t in w.targets):
                writes.append(('store', w))
            elif isinstance(w, ast.Call) and isinstance(
                    w.func, ast.Attribute) and isinstance(
                        w.func.value, ast.Name) and w.func.value.id == r \
                    and w.func.attr not in ('items', 'keys', 'values', 'get',
                                            'copy'):
                writes.append((w.func.attr, w))
        for how, w in writes:
            n += 1
            key = 'dict result %s of sanitize: %s' % (r, how)
            loop = next((p for p in chain(w) if isinstance(
                p, (ast.For, ast.While))), None)
            guards_ = [p for p in chain(w) if isinstance(p, ast.If) and
                       _mentions(p.test, r)]
            problem = None
            if how not in ('store', 'update'):
                problem = ('entries are added with .%s(), which does not '
                           'overwrite an entry already present' % how
                           if how == 'setdefault' else
                           'the result is modified with .%s()' % how)
            elif guards_:
                problem = ('the store is guarded by a test on the result '
                           'itself (%s): an entry already present is not '
                           'overwritten' % ast.unparse(guards_[0].test)[:50])
            elif not isinstance(loop, ast.For) or not items_of_param(
                    loop.iter, loop):
                problem = ('the entries are not stored while iterating '
                           '%s.items() in its own order' % param)
            if problem:
                rc.violation(
                    'collision-order | sanitize | ' + how,
                    'json.loads(json.dumps(d)) keeps the last member among '
                    'keys that stringify alike (0 and "0", None and "null"); '
                    + problem, prog.loc(S, w), key=key)
            else:
                rc.ok({'result': r, 'store': 'result[key] = ... in the '
                       'order of %s.items()' % param}, key=key)
    # (b) comprehension / dict(...) results
    for rt in ast.walk(S.node):
        if not isinstance(rt, ast.Return) or rt.value is None:
            continue
        v = rt.value
        comp = None
        if isinstance(v, ast.DictComp):
            comp = v
        elif isinstance(v, ast.Call) and isinstance(v.func, ast.Name) and \
                v.func.id == 'dict' and len(v.args) == 1 and isinstance(
                    v.args[0], (ast.GeneratorExp, ast.ListComp)):
            comp = v.args[0]
        if comp is None:
            continue
        n += 1
        key = 'dict result of sanitize: comprehension'
        g = comp.generators
        if len(g) == 1 and not g[0].ifs and items_of_param(g[0].iter, rt):
            rc.ok({'result': 'comprehension over %s.items()' % param},
                  key=key)
        else:
            rc.violation(
                'collision-order | sanitize | comprehension',
                'the dict result is not built from every item of '
                '%s.items() in order (last member wins among keys that '
                'stringify alike)' % param, prog.loc(S, rt), key=key)
    if n < 1:
        raise AnalysisError('dict branch of sanitize not recognised')


LOSSY = {'math.isclose', 'builtins.round', 'builtins.abs', 'math.floor',
         'math.ceil', 'math.trunc', 'builtins.hash', 'builtins.repr',
         'builtins.str', 'builtins.int', 'builtins.float', 'json.dumps',
         'method:str.lower', 'method:str.upper', 'method:str.casefold',
         'method:str.strip', 'unicodedata.normalize', 'numpy.isclose'}


def r18_7(ctx, rc):
    """JSON equality is exact: ``is_equal`` decides scalars by ``==`` on the
    values themselves, never through a tolerance or a lossy mapping
    (``math.isclose``, rounding, case folding, comparing ``repr``/hashes) -
    two different versions or arguments would compare equal.  And
    ``_key_to_str`` spells a float key as ``float.__repr__`` does: no
    ``int()`` on a key that may be a float (2.0 is the key "2.0", not "2")."""
    prog = ctx.prog
    E = _util(ctx, "is_equal")
    closure = [E]
    for c in prog.calls_in(E):
        for g in prog.resolve_call(c, E):
            if isinstance(g, Func) and g.cls == E.cls and \
                    not g.is_public and g not in closure:
                closure.append(g)
    bad = []
    for f in closure:
        for c in prog.calls_in(f):
            for g in prog.resolve_call(c, f):
                nm = g if isinstance(g, str) else None
                if nm in LOSSY or (nm or '').endswith(('.lower', '.casefold',
                                                       '.upper')):
                    bad.append((f, c, nm))
    key = 'is_equal compares scalars exactly'
    if bad:
        f, c, nm = bad[0]
        rc.violation(
            'inexact-equality | %s | %s' % (f.qualname, nm),
            '%s decides equality through %s: values that differ (versions, '
            'arguments, recorded results) can compare equal, so a change is '
            'not noticed' % (f.qualname, nm), prog.loc(f, c), key=key)
    else:
        rc.ok({'closure': [f.qualname for f in closure],
               'lossy_calls': 0}, key=key)
    # the JSON helpers are not memoised: a cache keyed by Python equality
    # conflates True / 1 / 1.0 and 0.0 / -0.0 / False, which JSON (and the
    # helpers themselves) tell apart - the answer would depend on which of
    # them was asked first
    MEMO = {'lru_cache', 'cache', 'cached_property', 'memoize', 'memoized'}
    memo = []
    for nm in WALKERS:
        F0 = prog.funcs.get('JsonUtil.' + nm)
        if F0 is None:
            continue
        decs = {ast.unparse(d).split('(')[0].split('.')[-1]
                for d in F0.node.decorator_list}
        if decs & MEMO:
            memo.append((F0, sorted(decs & MEMO)))
    key = 'the JSON helpers are not memoised'
    if memo:
        F0, ds = memo[0]
        rc.violation(
            'json-helper-memoised | ' + F0.qualname,
            '%s is memoised (%s): arguments that are equal in Python but '
            'different in JSON (True, 1, 1.0; 0.0, -0.0, False) share one '
            'entry, so the result depends on the order of earlier calls' % (
                F0.qualname, ds), prog.loc(F0, F0.node), key=key)
    else:
        rc.ok({'memoised_helpers': 0}, key=key)
    # an int (subclass) value is never sent through float(): above 2**53
    # two different ints become one float, and the value handed on is not
    # what a JSON round trip gives
    S = _util(ctx, 'sanitize')
    sgs = ctx.E.super(S, lambda g: False)
    key = 'sanitize never converts an int through float()'
    hit = None
    for x in sgs.nodes:
        if x.kind == 'leaf' and x.call is not None and \
                'builtins.float' in prog.resolve_call(x.call, S):
            classes = None
            excluded = set()
            for pol, atom, f_, c_ in Q.control_facts(sgs, x.id):
                if pol == 'T' and isinstance(atom, ast.Call) and \
                        isinstance(atom.func, ast.Name) and \
                        atom.func.id == 'isinstance' and len(atom.args) == 2:
                    t = atom.args[1]
                    names = {e.id for e in (t.elts if isinstance(
                        t, ast.Tuple) else [t]) if isinstance(e, ast.Name)}
                    classes = names if classes is None else classes & names
                elif pol == 'F' and isinstance(atom, ast.Call) and \
                        isinstance(atom.func, ast.Name) and \
                        atom.func.id == 'isinstance' and len(atom.args) == 2:
                    t = atom.args[1]
                    excluded |= {e.id for e in (t.elts if isinstance(
                        t, ast.Tuple) else [t]) if isinstance(e, ast.Name)}
            if 'int' not in excluded and (classes is None or
                                          'int' in classes):
                hit = x
    if hit is not None:
        rc.violation(
            'int-through-float | ' + S.qualname,
            '%s applies float() to a value that can be an int (subclass '
            'instance): it is handed on as a float, and ints above 2**53 '
            'that differ in the low bits become one value' % S.qualname,
            hit.where(), key=key)
    else:
        rc.ok({'int_values': 'int()'}, key=key)
    K = _util(ctx, "_key_to_str")
    sg = ctx.E.super(K, lambda g: False)
    key = '_key_to_str never renders a float key through int()'
    hit = None
    for x in sg.nodes:
        if x.kind == 'leaf' and x.call is not None and \
                'builtins.int' in prog.resolve_call(x.call, K):
            # which classes can the key have here?
            classes = None
            excluded = set()
            for pol, atom, f_, c_ in Q.control_facts(sg, x.id):
                if pol == 'T' and isinstance(atom, ast.Call) and \
                        isinstance(atom.func, ast.Name) and \
                        atom.func.id == 'isinstance' and len(atom.args) == 2:
                    t = atom.args[1]
                    names = {e.id for e in (t.elts if isinstance(
                        t, ast.Tuple) else [t]) if isinstance(e, ast.Name)}
                    classes = names if classes is None else classes & names
                elif pol == 'F' and isinstance(atom, ast.Call) and \
                        isinstance(atom.func, ast.Name) and \
                        atom.func.id == 'isinstance' and len(atom.args) == 2:
                    t = atom.args[1]
                    excluded |= {e.id for e in (t.elts if isinstance(
                        t, ast.Tuple) else [t]) if isinstance(e, ast.Name)}
            if 'float' not in excluded and (classes is None or
                                            'float' in classes):
                hit = x
    if hit is not None:
        rc.violation(
            'float-key-as-int | ' + K.qualname,
            '%s applies int() to a key that can be a float: an integral '
            'float key (2.0) is spelled "2" where json spells "2.0" - it '
            'collides with the int key 2 and with the string key "2"' %
            K.qualname, hit.where(), key=key)
    else:
        rc.ok({'float_keys': 'float.__repr__'}, key=key)


RULES = [
    ('R18.1', 'sanitize returns fresh structure', r18_1),
    ('R18.2', 'sanitize/_key_to_str are total and reject with TypeError',
     r18_2),
    ('R18.3', 'bool is discriminated before the generic fall-through', r18_3),
    ('R18.4', 'tag discipline of the hashable form', r18_4),
    ('R18.5', 'container equality compares lengths and key presence', r18_5),
    ('R18.6', 'colliding dict keys: last member wins, as in json', r18_6),
    ('R18.7', 'equality is exact; float keys keep their spelling', r18_7),
]
