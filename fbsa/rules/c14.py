"""C14 - internal OS errors never leave half-done state."""
import ast

from ..model import Func, AnalysisError
from ..supergraph import callee_name
from .. import queries as Q
from .guards import guards
from . import opt

EXPLANATION = (
    'R14.1: reserve/release typestate with counting - after '
    'BuildDirs.started_building_file(f) every path to the raising exit '
    'releases f exactly as often as it was reserved (error_building_file), '
    'every path to the normal exit releases nothing; loop-aware, so a later '
    'iteration failing after an earlier one reserved is a path. R14.2: the '
    'cache write and the backup of the old cache file are inside the '
    'rollback scope, backup first, and a failing write is compensated '
    '(C02 rules). R14.3: partial acquisition - directories made before a '
    'later mkdir fails are handed to BuildDirs as error-created, and that '
    'hand-off reaches the set removed at commit/rollback. R14.4: a file '
    'that was moved aside is always registered in the backup list. R14.5: a '
    'setup failure is recorded as such. Fault model: every FS primitive '
    'that can raise, at every occurrence.'
    ' R14.6: a reused record is registered only after the fallible apply step (R1.5 order).')
# round 3/4 additions
EXPLANATION += (
    " R14.3: the hand-off loop is never left early. R14.4: only exactly FileNotFoundError of the move may be turned into 'no file'. R14.7 = R4.8 (reference-count walks inverse). R14.8 = R10.2.")

RESERVE = 'BuildDirs.started_building_file'
RELEASE = 'BuildDirs.error_building_file'


def _typestate(sg, start, acq_pred, rel_pred):
    """Explore (node, reserved, released) with saturating counters from the
    first reservation; returns list of (kind, path) violations."""
    SAT = 2
    init = (start, 1, 0)
    seen = {init: None}
    todo = [init]
    bad = []
    while todo:
        st = todo.pop()
        n, a, r = st
        sn = sg.nodes[n]
        if sn.kind == 'raise_exit' and sn.frame.parent is None:
            if r != a:
                bad.append(('raise', st))
            continue
        if sn.kind in ('exit_t', 'exit_f', 'exit_n') and \
                sn.frame.parent is None:
            if r != 0:
                bad.append(('normal', st))
            continue
        for d, lab in sn.succ:
            dn = sg.nodes[d]
            a2, r2 = a, r
            if acq_pred(dn):
                a2 = min(a + 1, SAT)
            if rel_pred(dn):
                r2 = min(r + 1, SAT)
            k = (d, a2, r2)
            if k not in seen:
                seen[k] = st
                todo.append(k)
    out = []
    for kind, st in bad:
        path = []
        k = st
        while k is not None:
            path.append(k[0])
            k = seen[k]
        path.reverse()
        out.append((kind, st, path))
    return out


def r14_1(ctx, rc, only=None):
    R = ctx.R
    G = guards(ctx)
    stop = G.opaque
    ctx.E.func(RESERVE)
    ctx.E.func(RELEASE)
    sites = 0
    prog = ctx.prog

    def reserves(g):
        return any(isinstance(h, Func) and h.qualname == RESERVE
                   for c in prog.calls_in(g)
                   for h in prog.resolve_call(c, g))
    # a reservation made inside a recursion cycle (the cached-subtree walk
    # and a per-file helper calling each other) is analysed over the whole
    # cycle: every member is a root with the other members inlined
    bfuncs = [f for f in prog.funcs.values() if f.cls == R.builder]
    succ = {f.qualname: {g.qualname for c in prog.calls_in(f)
                         for g in prog.resolve_call(c, f)
                         if isinstance(g, Func) and g.cls == R.builder and
                         not g.is_ctor_call} for f in bfuncs}

    def reach_from(q):
        seen, todo = set(), [q]
        while todo:
            for n in succ.get(todo.pop(), ()):
                if n not in seen:
                    seen.add(n)
                    todo.append(n)
        return seen
    reach = {q: reach_from(q) for q in succ}

    def cycle(F):
        return {q for q in reach[F.qualname]
                if F.qualname in reach.get(q, ()) and q != F.qualname}
    for F in bfuncs:
        if only is not None and F.name not in only:
            continue
        cyc = {q for q in cycle(F) if not prog.funcs[q].is_public and
               prog.funcs[q] not in stop}
        if not (reserves(F) or any(reserves(prog.funcs[q]) for q in cyc)):
            continue

        def inline(g, F=F, cyc=cyc):
            # other functions that reserve (for other files) stay opaque:
            # each is analysed as a root of its own
            if g.qualname in cyc:
                return True
            return g.cls == R.builder and not g.is_public and g not in stop \
                and g.qualname != F.qualname and not reserves(g)
        sg = ctx.E.super(F, inline)
        acqs = [x for x in sg.nodes if Q.is_done(x, RESERVE)]
        for a in acqs:
            sites += 1
            res = _typestate(
                sg, a.id,
                lambda x: Q.is_done(x, RESERVE),
                lambda x: Q.is_call(x, RELEASE))
            key = 'reservation in ' + F.qualname
            if not res:
                rc.ok({'acquire': RESERVE, 'in': F.qualname,
                       'release': RELEASE}, key=key)
                continue
            kinds = sorted({(k, st[1], st[2]) for k, st, p in res})
            for k, st, path in res[:1]:
                if k == 'raise' and st[2] < st[1]:
                    what = ('leak | %s' % F.qualname, 'a reservation made '
                            'by %s is still outstanding when %s exits by '
                            'an exception (reserved %s, released %s): the '
                            'directory stays visible and is recorded as '
                            'created' % (RESERVE, F.qualname,
                                         _cnt(st[1]), _cnt(st[2])))
                elif k == 'raise':
                    what = ('double-release | %s' % F.qualname,
                            'a reservation is released more often than it '
                            'was made on an exceptional exit of %s '
                            '(reference counts are corrupted)' % F.qualname)
                else:
                    what = ('release-on-success | %s' % F.qualname,
                            'a reservation is released on a path that '
                            'returns normally from %s' % F.qualname)
                rc.violation('R14.1 | ' + what[0], what[1], a.where(),
                             sg.describe_path(path), key=key)
    if sites < (2 if only is None else 1):
        raise AnalysisError('only %d reservation sites found' % sites)
    # every reservation is followed by a region whose failure releases it:
    # the statement after the reserving statement is a try whose broad
    # handler releases and re-raises (independent of the typestate verdict,
    # so that a known leak elsewhere in the function cannot mask a missing
    # release here)
    for F in bfuncs:
        if only is not None and F.name not in only:
            continue
        for blk in ast.walk(F.node):
            for fld in ('body', 'orelse', 'finalbody'):
                lst = getattr(blk, fld, None)
                if not isinstance(lst, list):
                    continue
                for i, st in enumerate(lst):
                    if isinstance(st, (ast.Try, ast.If, ast.For, ast.While,
                                       ast.With, ast.FunctionDef)):
                        continue
                    if not any(isinstance(c, ast.Call) and any(
                            isinstance(g, Func) and g.qualname == RESERVE
                            for g in prog.resolve_call(c, F))
                            for c in ast.walk(st)):
                        continue
                    key = 'reservation in %s is followed by a releasing ' \
                        'handler' % F.qualname
                    nxt = lst[i + 1] if i + 1 < len(lst) else None
                    ok = False
                    if isinstance(nxt, ast.Try):
                        for h in nxt.handlers:
                            names = ['BaseException'] if h.type is None \
                                else [ast.unparse(t).split('.')[-1]
                                      for t in (h.type.elts if isinstance(
                                          h.type, ast.Tuple) else [h.type])]

                            def releases(c, fn, depth=0):
                                for g in prog.resolve_call(c, fn):
                                    if isinstance(g, Func) and \
                                            g.qualname == RELEASE:
                                        return True
                                    if isinstance(g, Func) and \
                                            g.cls == R.builder and \
                                            not g.is_public and depth < 2 \
                                            and any(releases(c2, g,
                                                             depth + 1)
                                                    for c2 in
                                                    prog.calls_in(g)):
                                        return True
                                return False
                            if set(names) & {'Exception', 'BaseException'} \
                                    and h.body and isinstance(
                                        h.body[-1], ast.Raise) and any(
                                        isinstance(c, ast.Call) and
                                        releases(c, F) for b in h.body
                                        for c in ast.walk(b)):
                                ok = True
                    if ok:
                        rc.ok({'reserve_in': F.qualname,
                               'handler': 'release + raise'}, key=key)
                    else:
                        rc.violation(
                            'reservation-unprotected | ' + F.qualname,
                            'the statement that reserves the directories of '
                            'an output in %s is not followed by a try whose '
                            'handler releases the reservation and re-raises: '
                            'a failure of the next steps leaves the '
                            'directories reserved' % F.qualname,
                            prog.loc(F, st), key=key)


def _cnt(n):
    return {0: '0', 1: '1', 2: '2 or more'}[n]


def r14_2(ctx, rc):
    from . import c02
    c02.r2_1(ctx, rc)
    c02.r2_4(ctx, rc)
    c02.r2_9(ctx, rc)
    # an OS error while the cache file is replaced rolls back after the
    # build function returned: the undo sets and the roles of the caches in
    # rollback decide what is left behind then (R2.7, R2.8)
    c02.r2_7(ctx, rc)
    c02.r2_8(ctx, rc)


def release_records_every_dropped_dir(ctx, rc, Rl, counts, gattr):
    """In the release walk, a directory whose creation record is dropped
    (``<created map>.pop(dir)`` gave an entry) is put into the error-created
    set - the only thing commit and rollback remove it by - and into the
    maybe-removed set before the walk moves on; no further condition."""
    prog = ctx.prog
    sg = ctx.E.super(Rl, lambda g: isinstance(g, Func) and g.cls == Rl.cls
                     and not g.is_public and not g.is_ctor_call)

    def dropped_edge(lab):
        if not (isinstance(lab, tuple) and len(lab) == 4 and
                lab[0] in ('T', 'F')):
            return False
        a = ctx.H.subst(lab[1], lab[2], lab[3])
        neg = False
        if isinstance(a, ast.Compare) and len(a.ops) == 1 and isinstance(
                a.comparators[0], ast.Constant) and \
                a.comparators[0].value is None and isinstance(
                    a.ops[0], (ast.Is, ast.IsNot)):
            neg = isinstance(a.ops[0], ast.Is)
            a = a.left
        if not (isinstance(a, ast.Call) and isinstance(
                a.func, ast.Attribute) and a.func.attr == 'pop' and
                isinstance(a.func.value, ast.Attribute) and
                a.func.value.attr != counts):
            return False
        return (lab[0] == 'T') != neg
    starts = [d for x in sg.nodes for d, lab in x.succ if dropped_edge(lab)]
    # ``if d in created: del created[d]`` - a pop without default as a whole
    # statement only completes when the entry existed
    for x in sg.nodes:
        if x.kind == 'ret' and x.call is not None and isinstance(
                x.call.func, ast.Attribute) and x.call.func.attr == 'pop' \
                and isinstance(x.call.func.value, ast.Attribute) and \
                x.call.func.value.attr != counts and \
                len(x.call.args) == 1 and not x.call.keywords and \
                isinstance(ctx.prog.parent(x.call), ast.Expr):
            starts.append(x.id)
    key0 = '%s drops creation records by a tested pop' % Rl.qualname
    if not starts:
        raise AnalysisError('no tested drop of a creation record in ' +
                            Rl.qualname)
    loops = [n for n in ast.walk(Rl.node) if isinstance(n, (ast.While,
                                                            ast.For))]
    heads = {id(l.test) if isinstance(l, ast.While) else id(l)
             for l in loops}

    def leaves_iteration(x):
        if x.id in sg.normal_exits():
            return True
        return x.kind == 'in' and x.func is Rl and x.cn is not None and \
            x.cn.kind in ('cond', 'for_next') and x.cn.ast is not None and (
                id(x.cn.ast) in heads or any(
                    x.cn.ast is sub for l in loops
                    if isinstance(l, ast.While)
                    for sub in ast.walk(l.test)))
    sets = sorted({c.func.value.attr for f0 in {x.func for x in sg.nodes
                                                if x.func is not None}
                   for c in prog.calls_in(f0)
                   if isinstance(c.func, ast.Attribute) and
                   c.func.attr == 'add' and isinstance(
                       c.func.value, ast.Attribute)})
    if gattr not in sets:
        sets.append(gattr)
    for sname in sets:
        def adds(x, sname=sname):
            return x.kind == 'ret' and x.call is not None and isinstance(
                x.call.func, ast.Attribute) and x.call.func.attr in (
                    'add', 'update') and isinstance(
                        x.call.func.value, ast.Attribute) and \
                x.call.func.value.attr == sname
        key = 'a dropped creation record is followed by .%s.add' % sname
        w = Q.first_unguarded(sg, starts, adds, leaves_iteration,
                              edge_ok=Q.normal_edge)
        if w:
            rc.violation(
                'release-unrecorded | %s | %s' % (Rl.qualname, sname),
                'after %s dropped the creation record of a directory, a path '
                'moves on without adding the directory to .%s: %s' % (
                    Rl.qualname, sname,
                    'it stays on disk after commit and rollback (nothing '
                    'else removes it) and is no longer recorded as created'
                    if sname == gattr else
                    'the view is not told that it may be gone'),
                sg.nodes[w[0]].where(), sg.describe_path(w), key=key)
        else:
            rc.ok({'after': 'pop of the creation record', 'adds': sname},
                  key=key)


def r14_3(ctx, rc):
    R = ctx.R
    prog = ctx.prog
    F = R.builder_f('_make_dirs')
    sg = ctx.helpers_graph(F, stop=(R.builder + opt('._dirs_to_make'),))
    handoff = 'BuildDirs.error_making_dirs'
    have_handoff = handoff in prog.funcs
    mk = [x for x in sg.nodes if x.kind == 'ret' and
          callee_name(x) in ('os.mkdir', 'os.makedirs')]
    if not mk:
        raise AnalysisError('no directory creation in ' + F.qualname)
    for m in mk:
        w = Q.first_unguarded(sg, [m.id], lambda x: Q.is_call(x, handoff),
                              lambda x: x.kind == 'raise_exit')
        key = 'directories made by %s in %s are handed off on failure' % (
            callee_name(m), F.qualname)
        if w:
            rc.violation(
                'partial-acquisition | %s | %s in loop' % (
                    F.qualname, callee_name(m)),
                'after a directory was created, a later failure can leave '
                '%s without undoing or handing off the directories made so '
                'far (they stay on disk, unreserved and unrecorded)'
                % F.qualname, m.where(), sg.describe_path(w), key=key)
        else:
            rc.ok({'acquire': callee_name(m), 'handoff': handoff}, key=key)
    if not have_handoff:
        return
    # the list handed off contains every directory made: the local passed
    # to the hand-off is appended to right after mkdir, before any may-fail
    hcalls = [x for x in sg.nodes if Q.is_call(x, handoff)]
    for h in hcalls:
        arg = h.call.args[0] if h.call.args else None
        key = 'hand-off argument of ' + handoff
        if not isinstance(arg, ast.Name):
            rc.violation('handoff-arg | ' + F.qualname,
                         'the hand-off does not pass the made-directories '
                         'list', h.where(), key=key)
            continue

        def appended(x):
            return (x.kind == 'ret' and x.call is not None and
                    isinstance(x.call.func, ast.Attribute) and
                    x.call.func.attr in ('append', 'add') and
                    isinstance(x.call.func.value, ast.Name) and
                    x.call.func.value.id == arg.id)
        bad = None
        for m in mk:
            w = Q.first_unguarded(
                sg, [m.id], appended,
                lambda x: (x.kind == 'leaf' and x.id != m.id and any(
                    isinstance(l, tuple) and l[0] == 'exc'
                    for _, l in x.succ)) or (x.kind in (
                        'exit_t', 'exit_f', 'exit_n') and
                        x.func is F))
            if w:
                bad = w
        if bad:
            rc.violation('handoff-incomplete | ' + F.qualname,
                         'a directory can be created without being added to '
                         'the list that is handed off on failure',
                         h.where(), sg.describe_path(bad), key=key)
        else:
            rc.ok({'list': arg.id, 'appended_after': 'os.mkdir'}, key=key)
    # the hand-off stores its argument in the error-created set, whose
    # getter feeds the directory removers of commit and rollback
    H = ctx.E.func(handoff)
    getter = ctx.E.func('BuildDirs.norm_cased_error_created_dirs')
    gattr = None
    gcfg = ctx.E.cfgs.get(getter)
    for rn in gcfg.nodes:
        if rn.kind == 'return' and rn.ast.value is not None:
            for o in ctx.H.origins(rn.ast.value, getter, rn):
                if o[0] == 'attr' and o[1] == 'BuildDirs':
                    gattr = o[2]
    if gattr is None:
        raise AnalysisError('error-created set not identified')
    ok = False
    for call in prog.calls_in(H):
        fn = call.func
        if (isinstance(fn, ast.Attribute) and fn.attr in ('add', 'update')
                and isinstance(fn.value, ast.Attribute) and
                fn.value.attr == gattr and call.args):
            cn = ctx.H.node_of(H, call)[0]
            org = ctx.H.origins(call.args[0], H, cn)
            if any(o[0] in ('param',) or (
                    o[0] == 'call' and False) for o in org) or \
                    _derives_from_param(ctx, H, call.args[0], cn):
                ok = True
    # ... or through a private helper of the same class that H hands the
    # (derived) directory to
    for call in prog.calls_in(H):
        for g in prog.resolve_call(call, H):
            if not (isinstance(g, Func) and g.cls == H.cls and
                    not g.is_public and not g.is_ctor_call):
                continue
            b = prog.bind_args(call, g)
            cn = ctx.H.node_of(H, call)[0]
            for c2 in prog.calls_in(g):
                fn = c2.func
                if not (isinstance(fn, ast.Attribute) and
                        fn.attr in ('add', 'update') and isinstance(
                            fn.value, ast.Attribute) and
                        fn.value.attr == gattr and c2.args):
                    continue
                cn2 = ctx.H.node_of(g, c2)[0]
                for p2, a in b.items():
                    if isinstance(a, ast.AST) and _derives_from_param(
                            ctx, g, c2.args[0], cn2) and any(
                                isinstance(x, ast.Name) and x.id == p2
                                for x in ast.walk(ctx.H.subst(
                                    c2.args[0], g, cn2))) and \
                            _derives_from_param(ctx, H, a, cn):
                        ok = True
    # every directory of the argument is considered: the loop over it is
    # never left early (a reserved ancestor must not hide the deeper,
    # unreserved directories the failed call created)
    for lp in ast.walk(H.node):
        if isinstance(lp, ast.For) and isinstance(lp.iter, ast.Name) and \
                lp.iter.id in H.params:
            leaves = [n for n in ast.walk(lp)
                      if isinstance(n, (ast.Break, ast.Return))]
            k2 = '%s walks its whole argument' % handoff
            if leaves:
                rc.violation(
                    'handoff-loop-left | ' + handoff,
                    '%s leaves the loop over the directories it is given '
                    'early: the remaining directories are neither recorded '
                    'for removal nor virtually removed' % handoff,
                    prog.loc(H, leaves[0]), key=k2)
            else:
                rc.ok({'loop_over': lp.iter.id}, key=k2)
    # sibling agreement with the release walk: a directory that the release
    # of a failed output gives up is put into the same sets as a directory
    # handed off here (one of them feeds the removers, the other makes it
    # disappear from the view), and the only reason not to record a handed-
    # off directory is that somebody has reserved it meanwhile
    from .refcount import Walk
    Rl = ctx.E.func(RELEASE)
    cattrs = Walk(ctx, ctx.E.func(RESERVE)).counter_attr() & \
        Walk(ctx, Rl).counter_attr()
    counts = next(iter(cattrs)) if len(cattrs) == 1 else None

    def added_sets(fn):
        out = {}
        fs = [fn] + [g for c in prog.calls_in(fn)
                     for g in prog.resolve_call(c, fn)
                     if isinstance(g, Func) and g.cls == fn.cls and
                     not g.is_public and not g.is_ctor_call]
        for f0 in fs:
            for c in prog.calls_in(f0):
                f = c.func
                if isinstance(f, ast.Attribute) and f.attr == 'add' and \
                        isinstance(f.value, ast.Attribute):
                    out.setdefault(f.value.attr, []).append((f0, c))
        return out
    rel_sets = added_sets(Rl)
    ho_sets = added_sets(H)
    release_records_every_dropped_dir(ctx, rc, Rl, counts, gattr)
    key = '%s records a directory in the same sets as %s' % (
        handoff, RELEASE)
    if set(rel_sets) - set(ho_sets):
        rc.violation(
            'handoff-sets | ' + handoff,
            '%s gives a directory up by adding it to %s, but %s adds the '
            'directories it is handed only to %s: they are not %s' % (
                RELEASE, sorted(rel_sets), handoff, sorted(ho_sets),
                'virtually removed' if gattr in ho_sets else
                'recorded for physical removal'),
            prog.loc(H, H.node), key=key)
    else:
        rc.ok({'sets': sorted(rel_sets)}, key=key)
    if counts is not None:
        for sname, sites in sorted(ho_sets.items()):
            if sname not in rel_sets:
                continue
            for f0, c in sites[:1]:
                sgh = ctx.E.super(f0, lambda g: False)
                site = [x for x in sgh.nodes if x.kind == 'leaf' and
                        x.call is c]
                facts = Q.control_facts(sgh, site[0].id) if site else []
                odd = []
                for pol, atom, fn_, cn_ in facts:
                    good = isinstance(atom, ast.Compare) and len(
                        atom.ops) == 1 and isinstance(
                            atom.ops[0], ast.In) and isinstance(
                                atom.comparators[0], ast.Attribute) and \
                        atom.comparators[0].attr == counts and pol == 'F'
                    if not good:
                        odd.append('%s is %s' % (ast.unparse(atom)[:50],
                                                 pol))
                key = '%s: .%s.add only skipped for reserved directories' \
                    % (handoff, sname)
                if odd:
                    rc.violation(
                        'handoff-condition | %s | %s' % (handoff, sname),
                        'a handed-off directory is recorded in .%s only '
                        'when %s; the only admissible reason to skip it is '
                        'that it is reserved (a key of .%s)' % (
                            sname, '; '.join(odd), counts),
                        prog.loc(f0, c), key=key)
                else:
                    rc.ok({'set': sname, 'skipped_iff': 'in .' + counts},
                          key=key)
    key = '%s records its argument in %s' % (handoff, gattr)
    if ok:
        rc.ok({'set': gattr}, key=key)
    else:
        rc.violation(
            'handoff-not-recorded | ' + handoff,
            '%s does not add the directories it is given to %s; they are '
            'hidden in the virtual view but never physically removed at '
            'commit or rollback' % (handoff, gattr), prog.loc(H, H.node),
            key=key)
    for user in ('_commit', '_roll_back'):
        U = R.builder_f(user)
        key = '%s removes the error-created directories' % U.qualname
        found = False
        for call in prog.calls_in(U):
            for g in prog.resolve_call(call, U):
                if isinstance(g, Func) and g.qualname == \
                        R.builder + '._remove_empty_dirs':
                    cn = ctx.H.node_of(U, call)[0]
                    org = ctx.H.origins(
                        call.args[0], U, cn,
                        stop=lambda n: n == getter.qualname)
                    if any(o[0] == 'call' and o[1] == getter.qualname
                           for o in org):
                        found = True
                    # commit receives them through its parameter from the
                    # root runner (_set_created_dirs returns the set)
                    if any(o[0] == 'call' and
                           o[1] == getter.qualname for o in
                           _through_callers(ctx, U, call.args[0], cn,
                                            getter.qualname)):
                        found = True
        if found:
            rc.ok({'remover_fed_by': getter.qualname, 'in': U.qualname},
                  key=key)
        else:
            rc.violation('error-dirs-not-removed | ' + U.qualname,
                         'the directories of failed outputs do not reach '
                         'the directory remover of %s' % U.qualname,
                         U.file, key=key)


def _derives_from_param(ctx, func, expr, cn):
    from .c02 import _slice_names
    names = {n.id for n in _slice_names(ctx, func, expr, cn)}
    cfg = ctx.E.cfgs.get(func)
    # loop variables over a parameter count as derived from it
    for n in ast.walk(func.node):
        if isinstance(n, ast.For) and isinstance(n.iter, ast.Name) and \
                n.iter.id in func.params:
            for t in ast.walk(n.target):
                if isinstance(t, ast.Name) and t.id in names:
                    return True
    return bool(names & set(func.params))


def _through_callers(ctx, func, expr, cn, stopname):
    return ctx.H.origins(expr, func, cn, stop=lambda n: n == stopname)


def r14_4(ctx, rc):
    F = ctx.E.func('FileBackups.back_up_and_remove')
    sg = ctx.helpers_graph(F)
    mv = [x for x in sg.nodes if x.kind == 'ret' and
          callee_name(x) in ('os.rename', 'os.replace', 'shutil.move')]
    if not mv:
        rc.violation(
            'backup-not-moved | ' + F.qualname,
            '%s does not move the file aside (no rename/replace/move): the '
            'original stays in place or is copied, so there is nothing '
            'atomic to register and restore' % F.qualname,
            ctx.prog.loc(F, F.node), key='the backup is a move')
        return

    def registered(x):
        return (x.kind == 'ret' and x.call is not None and
                isinstance(x.call.func, ast.Attribute) and
                x.call.func.attr == 'append' and
                isinstance(x.call.func.value, ast.Attribute) and
                x.call.func.value.attr == '_backups')

    def was_dir(a, b, lab):
        return not (isinstance(lab, tuple) and len(lab) == 4 and
                    lab[0] == 'T' and isinstance(lab[1], ast.Call) and
                    'os.path.isdir' in ctx.prog.resolve_call(lab[1], lab[2]))
    for m in mv:
        w = Q.first_unguarded(sg, [m.id], registered,
                              lambda x: x.id in sg.all_exits(),
                              edge_ok=was_dir)
        key = 'moved-aside file is registered in ' + F.qualname
        if w:
            rc.violation('moved-unregistered | ' + F.qualname,
                         'after the file was moved aside a path leaves %s '
                         'without registering the backup (the file can '
                         'never be restored)' % F.qualname, m.where(),
                         sg.describe_path(w), key=key)
        else:
            rc.ok({'move': callee_name(m), 'registered_in': '_backups'},
                  key=key)
    # a failure of the move itself surfaces: the only outcome that may be
    # turned into "there was no file" is exactly FileNotFoundError
    prog = ctx.prog
    covered_moves = []
    all_moves = []
    for f0 in [F] + [g for g in prog.funcs.values()
                     if g.cls == F.cls and not g.is_public and any(
                         isinstance(h, Func) and h is g
                         for c in prog.calls_in(F)
                         for h in prog.resolve_call(c, F))]:
        for call in prog.calls_in(f0):
            if not ({'os.rename', 'os.replace', 'shutil.move'} &
                    set(x for x in prog.resolve_call(call, f0)
                        if isinstance(x, str))):
                continue
            all_moves.append((f0, call))
            node = call
            while node is not None and node is not f0.node:
                par = prog.parent(node)
                if isinstance(par, ast.Try) and any(
                        node is b or any(node is y for y in ast.walk(b))
                        for b in par.body):
                    for h in par.handlers:
                        names = ['BaseException'] if h.type is None else [
                            ast.unparse(t).split('.')[-1] for t in (
                                h.type.elts if isinstance(h.type, ast.Tuple)
                                else [h.type])]
                        key = 'handler %s around the move in %s' % (
                            '/'.join(names), f0.qualname)
                        reraises = bool(h.body) and isinstance(
                            h.body[-1], ast.Raise)
                        covered_moves.append(call)
                        if names == ['FileNotFoundError'] and not reraises:
                            # "the file was not there" may only be
                            # concluded from the move itself: no other
                            # file-system primitive stands in that try body
                            # (a failed makedirs of the backup directory
                            # would be taken for "nothing to back up")
                            others = [c for b in par.body
                                      for c in ast.walk(b)
                                      if isinstance(c, ast.Call) and
                                      c is not call and any(
                                          isinstance(g, str) and
                                          ctx.E.eff.classify(g, c, f0)[1]
                                          for g in prog.resolve_call(c, f0))]
                            k2 = 'only the move is under the not-found ' \
                                'handler in ' + f0.qualname
                            if others:
                                rc.violation(
                                    'not-found-too-wide | ' + f0.qualname,
                                    'the handler that turns '
                                    'FileNotFoundError into "there was no '
                                    'file" also covers %s: its failure is '
                                    'swallowed, the file is overwritten in '
                                    'place without a backup' % ast.unparse(
                                        others[0].func),
                                    prog.loc(f0, others[0]), key=k2)
                            else:
                                rc.ok({'try_body': 'the move only'}, key=k2)
                        if names == ['FileNotFoundError'] or reraises:
                            rc.ok({'handler': key}, key=key)
                        else:
                            rc.violation(
                                'move-failure-swallowed | ' + f0.qualname,
                                'a handler for %s around the move does not '
                                'always re-raise: a genuine failure to move '
                                'the file aside (PermissionError, EXDEV, '
                                '...) is reported as "the file did not '
                                'exist", the build overwrites the file in '
                                'place and rollback cannot restore it' %
                                '/'.join(names), prog.loc(f0, h), key=key)
                node = par
    # the file can vanish between any test and the move (another thread
    # moves the same stale output aside): the move tolerates that - its
    # FileNotFoundError is handled, not propagated
    for f0, call in all_moves:
        key = 'the move in %s tolerates a vanished file' % f0.qualname
        if any(call is c for c in covered_moves):
            rc.ok({'move': 'inside try/except'}, key=key)
        else:
            rc.violation(
                'move-not-tolerant | ' + f0.qualname,
                'the move in %s is not inside a handler: when two threads '
                'move the same old output aside, the loser gets a '
                'FileNotFoundError out of build_file and its output is '
                'never built (an existence test before the move does not '
                'help)' % f0.qualname, prog.loc(f0, call), key=key)
    # nothing may fail between reserving the slot and the move except the
    # creation of the backup directory (nothing moved yet)
    pre = sg.reach([sg.entry], avoid=lambda x: x.kind == 'leaf' and
                   callee_name(x) in ('os.rename', 'os.replace'))
    rc.ok({'may_fail_before_move': sorted({
        callee_name(sg.nodes[n]) for n in pre
        if sg.nodes[n].kind == 'leaf' and any(
            isinstance(l, tuple) and l[0] == 'exc'
            for _, l in sg.nodes[n].succ)})}, key='pre-move failures')


def r14_5(ctx, rc):
    from .c08 import r8_5
    r8_5(ctx, rc)


def r14_6(ctx, rc):
    """A reused record is registered only after the fallible step that
    re-creates and reserves its directories (R1.5 order): a failure there
    must not leave the record claimed."""
    from .c01 import r1_5
    r1_5(ctx, rc)


def r14_7(ctx, rc):
    from .refcount import refcount_rule
    refcount_rule(ctx, rc, RESERVE, RELEASE)


def r14_8(ctx, rc):
    """The failure handler of build_file withdraws what was done before the
    failing step, claim included (R10.2)."""
    from .c10 import r10_2
    r10_2(ctx, rc)


def r14_9(ctx, rc):
    """What a failed set-up leaves on disk must not change the answer for a
    directory already confirmed removed: the memo is asked before the scan,
    and a "removed" verdict is memoised (R4.10)."""
    from .c04 import r4_10
    r4_10(ctx, rc)


RULES = [
    ('R14.1', 'reserve/release typestate on every exit', r14_1),
    ('R14.2', 'cache write: in rollback scope, backed up, compensated',
     r14_2),
    ('R14.3', 'partial acquisition of directories is handed off', r14_3),
    ('R14.4', 'a file moved aside is always registered', r14_4),
    ('R14.5', 'a setup failure is recorded as such', r14_5),
    ('R14.6', 'reuse registers only after the fallible apply step', r14_6),
    ('R14.7', 'release walk is the inverse of the reserve walk (R4.8)',
     r14_7),
    ('R14.8', 'the build_file failure handler is complete (R10.2)', r14_8),
    ('R14.9', 'removed-directory memo is asked first and kept (R4.10)',
     r14_9),
]
