"""C06 - version changes invalidate the function and its transitive callers."""
import ast

from ..model import Func, AnalysisError
from .guards import guards

EXPLANATION = (
    'R6.1/R6.3: on the inlined graph of every reuse decider (discovered as '
    'the callers of the replay routine, plus the simple decider it calls) '
    'every path to a positive exit passes the branch edge on which '
    'JsonUtil.is_equal(old.get_func_version(x.func_name), '
    'new.get_func_version(x.func_name)) is true (resp. '
    'get_operation_version). R6.2: the replay routine sends every complex '
    'suboperation to a version-guarded decider and propagates False. R6.4/'
    'R6.5: version maps flow from the sanitised API parameter into the new '
    'cache, are written and read back into the same field. Decides the '
    'version clause of the statement; what is re-executed beyond that is '
    'C01/C05.')


def r6_1(ctx, rc):
    guards(ctx).check(rc, columns={'VERSION_EQ'}, rule_prefix='version')


def r6_3(ctx, rc):
    guards(ctx).check(rc, columns={'OPVERSION_EQ'}, rule_prefix='version')


RULES = [
    ('R6.1', 'version equality guards every complex reuse decider', r6_1),
    ('R6.3', 'operation-version equality guards the simple decider', r6_3),
]
