"""C06 - version changes invalidate the function and its transitive callers."""
import ast

from ..model import Func, AnalysisError
from .guards import guards

EXPLANATION = (
    'R6.1/R6.3: on the inlined graph of every reuse decider (discovered as '
    'the callers of the replay routine, plus the simple decider it calls) '
    'every path to a positive exit passes the branch edge on which '
    'JsonUtil.is_equal(old.get_func_version(x.func_name), '
    'new.get_func_version(x.func_name)) is true (resp. '
    'get_operation_version). R6.2: the replay routine sends every complex '
    'suboperation to a version-guarded decider and propagates False. R6.4/'
    'R6.5: version maps flow from the sanitised API parameter into the new '
    'cache, are written and read back into the same field. Decides the '
    'version clause of the statement; what is re-executed beyond that is '
    'C01/C05.'
    ' R6.5: version maps are written verbatim from, and read back into, the field get_func_version reads; an absent version reads as None.')


def r6_1(ctx, rc):
    guards(ctx).check(rc, columns={'VERSION_EQ'}, rule_prefix='version')


def r6_3(ctx, rc):
    guards(ctx).check(rc, columns={'OPVERSION_EQ'}, rule_prefix='version')


def r6_5(ctx, rc):
    """Versions are persisted verbatim and read back into the same field
    (R16.2 for funcVersions / operationVersions), and come from the
    sanitised API parameter."""
    from .c16 import r16_2
    r16_2(ctx, rc)
    C = ctx.R.cache
    G = ctx.E.func(C + '.get_func_version')
    ok = False
    for n in ast.walk(G.node):
        if isinstance(n, ast.Return) and isinstance(n.value, ast.Call) and \
                isinstance(n.value.func, ast.Attribute) and \
                n.value.func.attr == 'get' and len(n.value.args) == 1:
            ok = True
    key = 'absent version reads as None'
    if ok:
        rc.ok({'getter': 'dict.get(name) -> None when absent'}, key=key)
    else:
        rc.violation('version-getter | ' + G.qualname,
                     'get_func_version is not a plain dict.get(name): an '
                     'absent version must read as None', G.file, key=key)


def _flows_to_version_field(ctx, g, p, depth=0):
    """Parameter p of Cache function g ends up in the field read by
    get_func_version."""
    from .c11 import _param_field
    prog = ctx.prog
    C = ctx.R.cache
    G = ctx.E.func(C + '.get_func_version')
    vattrs = {n.attr for n in ast.walk(G.node)
              if isinstance(n, ast.Attribute) and isinstance(
                  n.value, ast.Name) and n.value.id == G.self_name}
    if g.name == '__init__':
        return _param_field(ctx, g.cls, p) in vattrs
    if depth > 4:
        return False
    for call in prog.calls_in(g):
        for h in prog.resolve_call(call, g):
            if isinstance(h, Func) and (h.cls == C or h.is_ctor_call):
                b = prog.bind_args(call, h)
                for p2, a in b.items():
                    if isinstance(a, ast.Name) and a.id == p and \
                            _flows_to_version_field(ctx, h, p2, depth + 1):
                        return True
    return False


def r6_4(ctx, rc):
    """The version maps given to the caches of a build are the sanitised
    ones (a private JSON snapshot): the comparison partner read from the
    cache file is canonical JSON, and the caller keeps no handle on the
    map the build compares with."""
    R = ctx.R
    prog = ctx.prog
    C = R.cache
    n = 0
    for F in prog.funcs.values():
        if F.cls != R.builder:
            continue
        for call in prog.calls_in(F):
            for g in prog.resolve_call(call, F):
                if not (isinstance(g, Func) and (
                        g.cls == C or (g.is_ctor_call and
                                       g.cls_for_ctor == C))):
                    continue
                b = prog.bind_args(call, g)
                for p, a in b.items():
                    if isinstance(a, list) or not _flows_to_version_field(
                            ctx, g, p):
                        continue
                    n += 1
                    cn = ctx.H.node_of(F, call)[0]
                    org = ctx.H.origins(
                        a, F, cn, stop=lambda nm: nm == 'JsonUtil.sanitize')
                    key = 'versions given to %s in %s' % (
                        g.qualname, F.qualname)
                    bad = {o for o in org if not (
                        o[0] == 'call' and o[1] == 'JsonUtil.sanitize')}
                    if bad or not org:
                        rc.violation(
                            'versions-raw | %s | %s' % (F.qualname,
                                                        g.qualname),
                            'the version map handed to %s does not (only) '
                            'come from JsonUtil.sanitize: %s - it is '
                            'compared with canonical JSON from the cache '
                            'file and stays shared with the caller' % (
                                g.qualname, sorted(str(o[:3]) for o in bad)),
                            prog.loc(F, call), key=key)
                    else:
                        rc.ok({'call': key, 'origin': 'JsonUtil.sanitize'},
                              key=key)
    if n < 2:
        raise AnalysisError('only %d version arguments found' % n)


def r6_7(ctx, rc):
    """Each version getter reads its own table: ``get_operation_version``
    the field that a new cache fills from the software's table
    (``_OPERATION_VERSIONS``), ``get_func_version`` the field filled from
    the caller's ``versions``; the two fields differ.  (A getter reading the
    sibling field compares None with None for ever.)"""
    from .c11 import _param_field
    prog = ctx.prog
    C = ctx.R.cache
    init = prog.funcs.get(C + '.__init__')
    if init is None:
        raise AnalysisError('constructor of the cache not found')

    def field_of(getter):
        G = ctx.E.func(C + '.' + getter)
        at = {n.attr for r in ast.walk(G.node) if isinstance(r, ast.Return)
              and r.value is not None for n in ast.walk(r.value)
              if isinstance(n, ast.Attribute) and isinstance(
                  n.value, ast.Name) and n.value.id == G.self_name}
        return G, at
    Gf, ff = field_of('get_func_version')
    Go, fo = field_of('get_operation_version')
    key = 'the two version getters read different fields'
    if len(ff) != 1 or len(fo) != 1 or ff == fo:
        rc.violation(
            'version-getter-field | ' + Go.qualname,
            'get_func_version reads %s and get_operation_version reads %s: '
            'each must read exactly one field of its own' % (
                sorted(ff), sorted(fo)), Go.file, key=key)
        return
    rc.ok({'func': sorted(ff), 'operation': sorted(fo)}, key=key)
    pf = {p: _param_field(ctx, C, p) for p in init.params}
    p_op = [p for p, f in pf.items() if f in fo]
    p_fn = [p for p, f in pf.items() if f in ff]
    # the factory of empty (new) caches
    n = 0
    for F in prog.funcs.values():
        if F.cls != C or F.name == '__init__':
            continue
        for call in prog.calls_in(F):
            for g in prog.resolve_call(call, F):
                if not (isinstance(g, Func) and g.is_ctor_call and
                        g.cls_for_ctor == C):
                    continue
                b = prog.bind_args(call, g)
                for plist, what in ((p_op, 'operation'), (p_fn, 'func')):
                    for p in plist:
                        a = b.get(p)
                        if a is None or isinstance(a, list):
                            continue
                        cn = ctx.H.node_of(F, call)[0]
                        a = ctx.H.subst(a, F, cn)
                        txt = ast.unparse(a)
                        soft = 'OPERATION_VERSIONS' in txt
                        read = 'operationVersions' in txt
                        readf = 'funcVersions' in txt
                        n += 1
                        key = '%s versions of a cache built in %s' % (
                            what, F.qualname)
                        if what == 'operation' and not (soft or read) or \
                                what == 'func' and (soft or read):
                            rc.violation(
                                'version-table | %s | %s' % (F.qualname,
                                                             what),
                                '%s fills the field read by get_%s_version '
                                'from %s' % (F.qualname, what, txt[:60]),
                                prog.loc(F, call), key=key)
                        else:
                            rc.ok({'factory': F.qualname, 'table': what,
                                   'from': txt[:40]}, key=key)
    if n < 4:
        raise AnalysisError('version arguments of the cache factories not '
                            'found (%d)' % n)


def r6_6(ctx, rc):
    """Versions are compared with JSON equality: its structural rules
    (R18.3 bool discrimination, R18.5 lengths and key presence)."""
    from . import c18
    c18.r18_3(ctx, rc)
    c18.r18_5(ctx, rc)
    c18.r18_7(ctx, rc)


RULES = [
    ('R6.1', 'version equality guards every complex reuse decider', r6_1),
    ('R6.3', 'operation-version equality guards the simple decider', r6_3),
    ('R6.4', 'the caches are given sanitised version maps', r6_4),
    ('R6.5', 'versions are persisted verbatim and read back', r6_5),
    ('R6.6', 'JSON equality: bool discrimination, lengths, key presence',
     r6_6),
    ('R6.7', 'each version getter reads its own table', r6_7),
]
