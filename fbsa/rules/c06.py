"""C06 - version changes invalidate the function and its transitive callers."""
import ast

from ..model import Func, AnalysisError
from .guards import guards

EXPLANATION = (
    'R6.1/R6.3: on the inlined graph of every reuse decider (discovered as '
    'the callers of the replay routine, plus the simple decider it calls) '
    'every path to a positive exit passes the branch edge on which '
    'JsonUtil.is_equal(old.get_func_version(x.func_name), '
    'new.get_func_version(x.func_name)) is true (resp. '
    'get_operation_version). R6.2: the replay routine sends every complex '
    'suboperation to a version-guarded decider and propagates False. R6.4/'
    'R6.5: version maps flow from the sanitised API parameter into the new '
    'cache, are written and read back into the same field. Decides the '
    'version clause of the statement; what is re-executed beyond that is '
    'C01/C05.'
    ' R6.5: version maps are written verbatim from, and read back into, the field get_func_version reads; an absent version reads as None.')


def r6_1(ctx, rc):
    guards(ctx).check(rc, columns={'VERSION_EQ'}, rule_prefix='version')


def r6_3(ctx, rc):
    guards(ctx).check(rc, columns={'OPVERSION_EQ'}, rule_prefix='version')


def r6_5(ctx, rc):
    """Versions are persisted verbatim and read back into the same field
    (R16.2 for funcVersions / operationVersions), and come from the
    sanitised API parameter."""
    from .c16 import r16_2
    r16_2(ctx, rc)
    C = ctx.R.cache
    G = ctx.E.func(C + '.get_func_version')
    ok = False
    for n in ast.walk(G.node):
        if isinstance(n, ast.Return) and isinstance(n.value, ast.Call) and \
                isinstance(n.value.func, ast.Attribute) and \
                n.value.func.attr == 'get' and len(n.value.args) == 1:
            ok = True
    key = 'absent version reads as None'
    if ok:
        rc.ok({'getter': 'dict.get(name) -> None when absent'}, key=key)
    else:
        rc.violation('version-getter | ' + G.qualname,
                     'get_func_version is not a plain dict.get(name): an '
                     'absent version must read as None', G.file, key=key)


RULES = [
    ('R6.1', 'version equality guards every complex reuse decider', r6_1),
    ('R6.3', 'operation-version equality guards the simple decider', r6_3),
    ('R6.5', 'versions are persisted verbatim and read back', r6_5),
]
