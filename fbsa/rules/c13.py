"""C13 - comparison modes: HASH tracks content, METADATA size+mtime."""
import ast

from ..model import Func, AnalysisError
from ..supergraph import callee_name
from .. import queries as Q
from .guards import guards

EXPLANATION = (
    'R13.1: the comparison dispatch is exhaustive over the enum (members of '
    'FileComparison == string literals dispatched on; the fall-through '
    'raises). R13.2: METADATA observes exactly st_size and st_mtime_ns of '
    'os.stat - no more, no less, not the float mtime. R13.3: the HASH digest '
    'depends on file bytes only (no stat in its slice; every chunk read '
    'reaches update before the next read) and the memo is hit only when the '
    'stored "built" flag equals new_cache.has_norm_cased_file(path), the '
    'same flag that is stored with the digest. R13.4: the recorded mode is '
    'the replayed mode - the integrity test compares a record\'s result '
    'with a fresh one computed with that record\'s own mode through JSON '
    'equality; a read observation carries the mode in its argument list and '
    'the executor hands it to the comparison; the replay of a recorded '
    'query compares result and exception class. Decides what each mode '
    'observes; memo correctness over a history is not decided.')
# round 3/4 additions
EXPLANATION += (
    ' R13.3 also requires a collision-resistant digest (whitelist) and no unguarded scratch state on the shared executor.')


def _ex(ctx, name):
    return ctx.E.func(ctx.R.executor + '.' + name)


def r13_1(ctx, rc):
    prog = ctx.prog
    enums = [c for c in prog.classes.values() if 'Enum' in c.bases]
    if len(enums) != 1:
        # the comparison modes are the public one (exported by the package)
        api = set()
        for st in getattr(prog.modules.get('__init__'), 'body', []):
            if isinstance(st, ast.ImportFrom):
                api |= {a.asname or a.name for a in st.names}
        enums = [c for c in enums if c.name in api]
    if len(enums) != 1:
        raise AnalysisError('comparison enum not identified')
    members = set(enums[0].class_attrs)
    D, table, fall = _dispatch(ctx)
    lits = table
    key = 'dispatch literals == enum members'
    if set(lits) != members:
        rc.violation('mode-dispatch | ' + D.qualname,
                     'the comparison dispatch handles %s but the enum has '
                     '%s' % (sorted(lits), sorted(members)), D.file, key=key)
    else:
        rc.ok({'members': sorted(members)}, key=key)
    key = 'unknown mode raises'
    if fall and all(isinstance(x, ast.Raise) for x in fall):
        rc.ok({'fallthrough': 'raise'}, key=key)
    else:
        rc.violation('mode-fallthrough | ' + D.qualname,
                     'an unknown comparison name does not raise', D.file,
                     key=key)
    # the API hands the member's name to the recorder
    n = 0
    from .c01 import _api_records
    if True:
        if True:
            for F, call, nm, lst in _api_records(ctx):
                if True:
                    if isinstance(nm, ast.Constant) and nm.value == 'read':
                        n += 1
                        key = 'read observation in %s carries the mode ' \
                            'name' % F.qualname
                        ok = isinstance(lst, ast.List) and len(lst.elts) == 2 \
                            and isinstance(lst.elts[1], ast.Attribute) and \
                            lst.elts[1].attr == 'name' and isinstance(
                                lst.elts[1].value, ast.Name) and \
                            lst.elts[1].value.id in F.params
                        if ok:
                            rc.ok({'args': '[filename, '
                                   'file_comparison.name]'}, key=key)
                        else:
                            rc.violation(
                                'read-mode | ' + F.qualname,
                                'the recorded read does not carry the '
                                'comparison mode of the call',
                                prog.loc(F, call), key=key)
    if n < 3:
        raise AnalysisError('only %d recorded reads found' % n)
    # the executor's read hands its mode parameter to the comparison
    Rd = _ex(ctx, 'read')
    key = 'executor.read compares with the recorded mode'
    ok = False
    for call in prog.calls_in(Rd):
        for g in prog.resolve_call(call, Rd):
            if isinstance(g, Func) and g.qualname == D.qualname and \
                    len(call.args) == 2 and all(
                        isinstance(a, ast.Name) and a.id in Rd.params[:2]
                        for a in call.args) and \
                    [a.id for a in call.args] == Rd.params[:2]:
                ok = True
    if ok:
        rc.ok({'call': 'file_comparison_result(filename, mode)'}, key=key)
    else:
        rc.violation('read-mode-arg | ' + Rd.qualname,
                     'executor.read does not pass its own (filename, mode) '
                     'to the comparison', Rd.file, key=key)


def _dispatch(ctx):
    """literal -> statements executed for it; plus the fall-through."""
    from ..astpaths import cond_paths, eq_const_fact
    D = _ex(ctx, 'file_comparison_result')
    table = {}
    fall = []
    eq0 = eq_const_fact

    def eq_const_fact(t):
        # named constants (class-level, module-level, enum member names)
        # stand for their literal
        if isinstance(t, ast.Compare) and len(t.ops) == 1:
            l, r = t.left, t.comparators[0]
            cl = None if isinstance(l, ast.Constant) else \
                ctx.prog.const_value(l, D)
            cr = None if isinstance(r, ast.Constant) else \
                ctx.prog.const_value(r, D)
            if cl is not None or cr is not None:
                t = ast.Compare(left=cl or l, ops=t.ops,
                                comparators=[cr or r])
        return eq0(t)
    for conds, st in cond_paths(D.node.body):
        lits = []
        allneg = bool(conds)
        for t, pol in conds:
            e = eq_const_fact(t)
            if e is None or not isinstance(e[1], str):
                allneg = False
                continue
            holds = pol != e[2]
            if holds:
                lits.append(e[1])
                allneg = False
        for l in lits:
            table.setdefault(l, []).append(st)
        if allneg:
            fall.append(st)
        for t, pol in conds:
            e = eq_const_fact(t)
            if e is not None and isinstance(e[1], str):
                table.setdefault(e[1], [])
    return D, table, fall


def _impl_for(ctx, lit):
    D, table, fall = _dispatch(ctx)
    for st in table.get(lit, []):
        for c in ast.walk(st):
            if isinstance(c, ast.Call):
                for g in ctx.prog.resolve_call(c, D):
                    if isinstance(g, Func):
                        return g
    if table.get(lit):
        return D          # implemented inline in the dispatch branch
    raise AnalysisError('implementation of mode %s not found' % lit)


def r13_2(ctx, rc):
    M = _impl_for(ctx, 'METADATA')
    prog = ctx.prog
    D, table, fall = _dispatch(ctx)
    # the statements that implement the mode: the implementing function, or
    # - when it was inlined - the dispatch branch
    scope = M.node if M is not D else ast.Module(
        body=[st for st in table.get('METADATA', [])], type_ignores=[])
    stat_vars = set()
    for n in ast.walk(scope):
        if isinstance(n, ast.Assign) and isinstance(n.value, ast.Call) and \
                'os.stat' in prog.resolve_call(n.value, M):
            for t in n.targets:
                if isinstance(t, ast.Name):
                    stat_vars.add(t.id)
    if not stat_vars:
        raise AnalysisError('METADATA does not call os.stat')
    observed = set()
    other = []
    for r in ast.walk(scope):
        if isinstance(r, ast.Return) and r.value is not None:
            for x in ast.walk(r.value):
                if isinstance(x, ast.Attribute) and isinstance(
                        x.value, ast.Name) and x.value.id in stat_vars:
                    observed.add(x.attr)
                elif isinstance(x, ast.Call):
                    other.append(ast.unparse(x))
    key = 'METADATA observes exactly st_size and st_mtime_ns'
    want = {'st_size', 'st_mtime_ns'}
    if observed != want or other:
        rc.violation(
            'metadata-fields | ' + M.qualname,
            'METADATA observes %s%s, expected exactly %s (a pure atime/'
            'ctime change must not invalidate; size and nanosecond mtime '
            'must)' % (sorted(observed), ' and ' + str(other) if other
                       else '', sorted(want)), M.file, key=key)
    else:
        rc.ok({'observes': sorted(observed)}, key=key)
    key = 'METADATA of a directory raises IsADirectoryError'
    ok = any(isinstance(n, ast.Raise) and 'IsADirectoryError' in
             ast.unparse(n) for n in ast.walk(scope))
    if ok:
        rc.ok({'directory': 'IsADirectoryError'}, key=key)
    else:
        rc.violation('metadata-dir | ' + M.qualname,
                     'METADATA of a directory does not raise '
                     'IsADirectoryError', M.file, key=key)


def r13_3(ctx, rc):
    prog = ctx.prog
    H = _impl_for(ctx, 'HASH')
    prims = {p for k, p in ctx.E.eff.summaries()[H.qualname]['prims']}
    key = 'HASH never looks at stat'
    bad = sorted(p for p in prims if p in (
        'os.stat', 'os.lstat', 'os.path.getsize', 'os.path.getmtime'))
    if bad:
        rc.violation('hash-stat | ' + H.qualname,
                     'the HASH comparison depends on %s (a pure timestamp '
                     'change must not matter)' % bad, H.file, key=key)
    else:
        rc.ok({'primitives': sorted(prims)}, key=key)
    sg = ctx.E.super(H, lambda g: g.cls == ctx.R.executor and
                     g.name.startswith('_') and g.qualname != H.qualname)
    READS = ('method:file.read', 'method:?.read', 'method:file.readinto',
             'method:?.readinto', 'method:file.read1', 'method:?.read1')
    reads = [x for x in sg.nodes if x.kind == 'ret' and
             callee_name(x) in READS]
    if not reads:
        raise AnalysisError('HASH reads no bytes')
    # the digest distinguishes contents: a collision-resistant function
    STRONG = {'sha256', 'sha384', 'sha512', 'sha512_256', 'sha3_256',
              'sha3_384', 'sha3_512', 'blake2b', 'blake2s'}
    digests = []
    for x in sg.nodes:
        if x.kind in ('leaf', 'ret') and x.call is not None and \
                x.kind == 'leaf':
            nm = callee_name(x)
            if isinstance(nm, str) and nm.startswith('hashlib.'):
                alg = nm.split('.', 1)[1]
                if alg == 'new' and x.call.args and isinstance(
                        x.call.args[0], ast.Constant):
                    alg = str(x.call.args[0].value).lower().replace('-', '_')
                digests.append((alg, x))
    key = 'HASH uses a collision-resistant digest'
    if not digests:
        raise AnalysisError('no hashlib digest in the HASH implementation')
    weak = [(a, x) for a, x in digests if a not in STRONG]
    if weak:
        rc.violation(
            'hash-weak | %s | %s' % (H.qualname, weak[0][0]),
            'HASH compares contents through %s, for which different '
            'contents with the same digest are known/constructible: a '
            'changed file can compare equal' % weak[0][0],
            weak[0][1].where(), key=key)
    else:
        rc.ok({'digest': sorted({a for a, _ in digests})}, key=key)
    # the implementation keeps no unguarded scratch state on the executor,
    # which all threads of a build share
    from . import locks as L_
    L_.shared_state_census(ctx, rc, [ctx.R.executor])
    upd = lambda x: x.kind == 'ret' and callee_name(x) in (
        'method:hash.update', 'method:?.update')
    for r in reads:
        w = Q.first_unguarded(
            sg, [r.id], upd, lambda x: x.kind == 'leaf' and
            callee_name(x) in READS)
        key = 'every chunk read is hashed before the next read'
        if w:
            rc.violation('hash-chunk-dropped | ' + H.qualname,
                         'a chunk can be read and dropped without being fed '
                         'to the digest', r.where(), sg.describe_path(w),
                         key=key)
        else:
            rc.ok({'read': 'file_.read', 'update': 'digest.update'}, key=key)
    # the digest returned comes from hexdigest of that digest object / memo
    # memo discipline
    memo_attr = None
    for n in ast.walk(H.node):
        if isinstance(n, ast.Assign):
            for t in n.targets:
                if isinstance(t, ast.Subscript) and isinstance(
                        t.value, ast.Attribute):
                    memo_attr = t.value.attr
                    store = n
    if memo_attr is None:
        rc.note('no memo in the HASH implementation')
        return
    # flag variable stored with the digest: the entry is a pair or a
    # namedtuple-like value object; the flag is the member defined by the
    # new cache's has_norm_cased_file
    cfg = ctx.E.cfgs.get(H)
    members = []
    sv = store.value
    if isinstance(sv, ast.Tuple):
        members = list(sv.elts)
    elif isinstance(sv, ast.Call) and any(
            isinstance(g, Func) and g.is_ctor_call and getattr(
                prog.classes.get(g.cls_for_ctor), 'synthetic', False)
            for g in prog.resolve_call(sv, H)):
        members = list(sv.args) + [k.value for k in sv.keywords]
    flag = None
    names = [m.id for m in members if isinstance(m, ast.Name)]
    for nm in names:
        for d in cfg.nodes:
            if nm in d.defs and isinstance(d.ast, ast.Assign) and isinstance(
                    d.ast.value, ast.Call) and isinstance(
                        d.ast.value.func, ast.Attribute) and \
                    d.ast.value.func.attr == 'has_norm_cased_file':
                flag = nm
    if flag is None and len(members) == 2 and isinstance(
            members[1], ast.Name):
        flag = members[1].id
    key = 'memo stores (digest, built-flag)'
    if flag is None or len(members) != 2:
        rc.violation('memo-shape | ' + H.qualname,
                     'the hash memo does not store the built flag with the '
                     'digest', prog.loc(H, store), key=key)
        return
    rc.ok({'memo': memo_attr, 'flag': flag}, key=key)
    # the flag is exactly new_cache.has_norm_cased_file(<path>)
    defs = [d for d in cfg.nodes if flag in d.defs]
    key = 'built flag == new_cache.has_norm_cased_file(path)'
    ok = len(defs) == 1 and isinstance(defs[0].ast, ast.Assign)
    if ok:
        v = defs[0].ast.value
        ok = isinstance(v, ast.Call) and isinstance(
            v.func, ast.Attribute) and \
            v.func.attr == 'has_norm_cased_file' and ctx.H.expr_roles(
                v.func.value, H, defs[0]) == {'new'}
    if ok:
        rc.ok({'flag': 'new_cache.has_norm_cased_file(norm_cased_filename)'},
              key=key)
    else:
        rc.violation(
            'memo-flag | ' + H.qualname,
            'the "built" half of the memo key is not exactly '
            'new_cache.has_norm_cased_file(path): a digest taken before an '
            'output is (re)built can be served after it was rebuilt',
            prog.loc(H, defs[0].ast) if defs else H.file, key=key)
    # the memo-hit return is guarded by stored flag == current flag
    def from_memo(e, func, cn):
        org = ctx.H.origins(e, func, cn)
        return any(o[0] == 'attr' and o[2] == memo_attr for o in org)
    hits = [x for x in sg.nodes if x.kind == 'out' and
            x.cn.kind == 'return' and x.func is H and
            x.cn.ast.value is not None and
            from_memo(x.cn.ast.value, H, x.cn)]

    def flag_eq(lab):
        if not (isinstance(lab, tuple) and len(lab) == 4 and lab[0] == 'T'):
            return False
        a = lab[1]
        if not (isinstance(a, ast.Compare) and len(a.ops) == 1 and
                isinstance(a.ops[0], (ast.Eq, ast.Is))):
            return False
        sides = (a.left, a.comparators[0])
        cur = [s_ for s_ in sides
               if isinstance(s_, ast.Name) and s_.id == flag]
        old = [s_ for s_ in sides if s_ not in cur and
               not isinstance(s_, ast.Constant) and
               from_memo(s_, lab[2], lab[3])]
        return bool(cur) and bool(old)
    seen = sg.reach([sg.entry], edge_ok=lambda a, b, lab: not flag_eq(lab))
    key = 'memo hit requires stored flag == current flag'
    if not hits:
        raise AnalysisError('memo-hit return not found')
    if any(h.id in seen for h in hits):
        rc.violation('memo-hit-unguarded | ' + H.qualname,
                     'a memoised digest can be returned without comparing '
                     'the stored built flag with the current one',
                     hits[0].where(), key=key)
    else:
        rc.ok({'guard': 'cache_entry[1] == is_built'}, key=key)


def r13_4(ctx, rc):
    R = ctx.R
    prog = ctx.prog
    G = guards(ctx)
    # the integrity test computes the fresh result with the record's mode
    n = 0
    for f in prog.funcs.values():
        if f.cls != R.builder:
            continue
        for call in prog.calls_in(f):
            if len(call.args) != 2:
                continue
            if not any(isinstance(g, Func) for g in
                       prog.resolve_call(call, f)):
                continue
            cns = ctx.H.node_of(f, call)
            if not cns:
                continue
            cn = cns[0]
            a1 = ctx.H.subst(call.args[1], f, cn)
            if isinstance(a1, ast.Attribute) and a1.attr == 'name' and \
                    isinstance(a1.value, ast.Attribute) and \
                    a1.value.attr == 'file_comparison':
                # the executor is asked directly, by the mode's name
                a1 = a1.value
            if not (isinstance(a1, ast.Attribute) and
                    a1.attr == 'file_comparison'):
                continue
            # a fresh comparison result computed with a record's mode
            n += 1
            a0 = ctx.H.subst(call.args[0], f, cn)
            key = 'fresh result in %s uses the record\'s own path ' \
                'and mode' % f.qualname
            ok = isinstance(a0, ast.Attribute) and \
                a0.attr == 'filename' and \
                ast.dump(a0.value) == ast.dump(a1.value)
            if ok:
                rc.ok({'call': ast.unparse(call)[:70]}, key=key)
            else:
                rc.violation(
                    'mode-mismatch | ' + f.qualname,
                    'a fresh comparison result is computed with a '
                    'path/mode that are not both taken from the '
                    'same record', prog.loc(f, call), key=key)
    if n < 3:
        raise AnalysisError('only %d fresh comparison sites' % n)
    # comparisons of results go through JSON equality; replay of a recorded
    # query compares result and exception class (guard table columns)
    G.check(rc, columns={'OUTPUT_INTACT', 'RAISED_OR_OUTPUT_INTACT',
                         'RESULT_EQ', 'EXC_EQ', 'OPVERSION_EQ',
                         'NAME_KNOWN'}, rule_prefix='mode-replay')


def r13_5(ctx, rc):
    """The memo and the records are keyed by normalised paths (R7.1): two
    spellings of one file must not get two memo entries / identities."""
    from .c07 import r7_1
    r7_1(ctx, rc)


def r13_7(ctx, rc):
    """What is recorded as an output's comparison result is a sample taken
    now, with the mode of the record it is stored in - never the result
    copied from another record (the cached one may have been taken with a
    different mode: a digest stored as a METADATA result never compares
    equal again, a METADATA pair stored as a digest hides a change)."""
    R = ctx.R
    prog = ctx.prog
    fcr0 = R.executor + '.file_comparison_result'
    fresh = {fcr0}
    grew = True
    while grew:
        grew = False
        for f in prog.funcs.values():
            if f.qualname in fresh or f.name in ('exec', 'read'):
                continue
            if (f.cls == R.executor or f.cls == R.builder) and any(
                    isinstance(g, Func) and g.qualname in fresh
                    for c in prog.calls_in(f)
                    for g in prog.resolve_call(c, f)) and \
                    len(f.params) == 2:
                fresh.add(f.qualname)
                grew = True
    n = 0
    for f in prog.funcs.values():
        if f.cls != R.builder:
            continue
        cfg = ctx.E.cfgs.get(f)
        for cn in cfg.nodes:
            st = cn.ast
            if cn.kind != 'stmt' or not isinstance(st, ast.Assign):
                continue
            if not any(isinstance(t, ast.Attribute) and
                       t.attr == 'file_comparison_result'
                       for t in st.targets):
                continue
            n += 1
            org = ctx.H.origins(st.value, f, cn,
                                stop=lambda nm: nm in fresh)
            copied = [o for o in org if o[0] in ('attr', 'field') and
                      str(o[-1]) == 'file_comparison_result']
            sampled = [o for o in org if o[0] == 'call' and o[1] in fresh]
            key = 'comparison result stored in ' + f.qualname
            none_only = bool(org) and all(
                o[0] == 'const' and str(o[1]) == 'None' for o in org)
            if none_only:
                # "there is no regular file": the outcome of a sample that
                # raised, stored by its handler
                rc.ok({'function': f.qualname, 'from': 'None'}, key=key)
                continue
            if copied or not sampled:
                rc.violation(
                    'result-not-sampled | ' + f.qualname,
                    '%s stores a comparison result that %s: the record keeps '
                    'a result that was not taken now with its own mode' % (
                        f.qualname, 'is copied from another record'
                        if copied else 'does not come from a fresh sample'),
                    prog.loc(f, st), key=key)
            else:
                rc.ok({'function': f.qualname, 'from': sorted(
                    str(o[1]) for o in sampled)}, key=key)
    if n < 2:
        raise AnalysisError('only %d stores of a comparison result' % n)


def r13_6(ctx, rc):
    """A comparison sample (stat or digest) is only taken of a file the
    virtual view has just declared visible: in ``read`` the kernel
    ``_is_file_no_read`` is asked before ``file_comparison_result`` on every
    path - sampling first leaves a window in which the file is rebuilt (the
    stale sample is recorded as current) and memoises digests of outputs
    that are still being written; and the kernel hides an output while its
    function runs (R4.5)."""
    from .c04 import r4_5
    r4_5(ctx, rc)
    # ... and a replayed read sees the outputs replayed before it: the
    # overlay of the enclosing record is threaded through (R5.4)
    from .c05 import r5_4
    r5_4(ctx, rc)
    ex = ctx.R.executor
    Rd = ctx.E.func(ex + '.read')
    sg = ctx.E.super(Rd, lambda g: False)
    kernel = ex + '._is_file_no_read'
    sample = ex + '.file_comparison_result'
    ctx.E.func(kernel)
    ctx.E.func(sample)
    sites = [x for x in sg.nodes if Q.is_call(x, sample)]
    key = 'read asks the virtual view before it samples the file'
    if not sites:
        raise AnalysisError('read takes no comparison sample')
    w = Q.first_unguarded(sg, [sg.entry], lambda x: Q.is_done(x, kernel),
                          lambda x: Q.is_call(x, sample))
    if w:
        rc.violation(
            'sample-before-visibility | ' + Rd.qualname,
            'read can take the METADATA/HASH sample of the real file before '
            'it asked whether the file is visible in the virtual state: a '
            'file that is being (re)built is sampled and memoised, and a '
            'sample taken before a concurrent rebuild is recorded as the '
            'current one', sg.nodes[w[-1]].where(), sg.describe_path(w),
            key=key)
    else:
        rc.ok({'order': '_is_file_no_read, then file_comparison_result'},
              key=key)


RULES = [
    ('R13.1', 'comparison dispatch is exhaustive over the enum', r13_1),
    ('R13.2', 'METADATA observes exactly size and mtime_ns', r13_2),
    ('R13.3', 'HASH observes bytes only; memo keyed by the built flag',
     r13_3),
    ('R13.4', 'the recorded mode is the replayed mode', r13_4),
    ('R13.5', 'paths are normalised before they key memo and records', r13_5),
    ('R13.6', 'samples are taken of visible, finished files only', r13_6),
    ('R13.7', 'recorded comparison results are fresh samples', r13_7),
]
