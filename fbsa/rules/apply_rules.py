"""Rules about the routine that applies a reused cached subtree
(re-registers its outputs and directories).  Shared by C01, C04, C05, C12."""
import ast

from ..model import Func, AnalysisError
from .. import queries as Q
from . import opt

RESERVE = 'BuildDirs.started_building_file'


def apply_routine(ctx):
    """The builder function that iterates ``.suboperations`` and reserves
    directories for build_file records (calls RESERVE inside the loop)."""
    R = ctx.R
    prog = ctx.prog
    # builder functions from which RESERVE is reachable through private
    # helpers of the builder
    reaches = set()
    changed = True
    while changed:
        changed = False
        for f in prog.funcs.values():
            if f.cls != R.builder or f.qualname in reaches:
                continue
            for call in prog.calls_in(f):
                for g in prog.resolve_call(call, f):
                    if isinstance(g, Func) and (
                            g.qualname == RESERVE or (
                                g.qualname in reaches and not g.is_public)):
                        reaches.add(f.qualname)
                        changed = True
    c = []
    for f in prog.funcs.values():
        if f.cls != R.builder or f.qualname not in reaches:
            continue
        loops = [n for n in ast.walk(f.node) if isinstance(n, ast.For) and
                 isinstance(n.iter, ast.Attribute) and
                 n.iter.attr == 'suboperations']
        recursive = any(isinstance(g, Func) and g.qualname == f.qualname
                        for call in prog.calls_in(f)
                        for g in prog.resolve_call(call, f)) or any(
            isinstance(g, Func) and g.cls == R.builder and not g.is_public
            and any(isinstance(h, Func) and h.qualname == f.qualname
                    for c2 in prog.calls_in(g)
                    for h in prog.resolve_call(c2, g))
            for call in prog.calls_in(f)
            for g in prog.resolve_call(call, f))
        if loops and recursive:
            c.append(f)
    if len(c) != 1:
        raise AnalysisError('cannot identify the apply routine: %r' % (
            [x.qualname for x in c]))
    return c[0]


def _refuted(ctx, facts):
    """Concrete record classes refuted by isinstance F-facts on the path."""
    out = set()
    for pol, atom, func, cn in facts:
        if pol != 'F':
            continue
        if isinstance(atom, ast.Call) and isinstance(atom.func, ast.Name) \
                and atom.func.id == 'isinstance' and len(atom.args) == 2:
            cl = atom.args[1]
            for c in (cl.elts if isinstance(cl, ast.Tuple) else [cl]):
                if isinstance(c, ast.Name) and c.id in ctx.prog.classes:
                    out |= set(ctx.prog.subclasses(c.id))
    return out


def apply_rules(ctx, rc):
    R = ctx.R
    A = apply_routine(ctx)
    sg = ctx.helpers_graph(A, stop=(R.builder + '._make_dirs',
                                   R.builder + opt('._ensure_dirs_case')))
    # A1: only outputs that did not raise are reserved / get directories
    res = [x for x in sg.nodes if Q.is_call(x, RESERVE)]
    mk = [x for x in sg.nodes if Q.is_call(x, R.builder + '._make_dirs')]

    def not_raised(lab):
        return isinstance(lab, tuple) and len(lab) == 4 and lab[0] == 'F' \
            and isinstance(lab[1], ast.Attribute) and lab[1].attr == 'raised'
    seen = sg.reach([sg.entry],
                    edge_ok=lambda a, b, lab: not not_raised(lab))
    for x in res + mk:
        key = 'apply: %s only for outputs that did not raise' % (
            x.callee.qualname)
        if x.id in seen:
            rc.violation(
                'apply-raised-output | ' + x.callee.qualname,
                'when a cached subtree is reused, directories are created/'
                'reserved for a recorded output whose function had raised '
                '(the from-scratch view has neither the file nor its '
                'directories)', x.where(),
                sg.describe_path(sg.witness(seen, x.id)), key=key)
        else:
            rc.ok({'apply': key}, key=key)
    if not res:
        raise AnalysisError('reservation not found in the apply routine')
    # A2: the recursion reaches every complex suboperation
    loops = [x for x in sg.nodes if x.kind == 'out' and
             x.cn.kind == 'for_next']
    if not loops:
        raise AnalysisError('loop of the apply routine not found')
    lp = loops[0]
    body = [d for d, l in lp.succ
            if isinstance(l, tuple) and l[0] == 'iter']
    complex_concrete = {c for c in R.concrete_records
                        if 'suboperations' in R.record_fields[c]}

    def recursive(x):
        return Q.is_call(x, A.qualname)

    def end(x):
        return (x.kind == 'in' and x.cn is lp.cn) or x.id in sg.all_exits()
    bad = None
    n_paths = 0
    for b in body:
        for path, facts in Q.enumerate_paths(sg, b, end, avoid=recursive):
            if sg.nodes[path[-1]].kind == 'raise_exit':
                continue
            n_paths += 1
            if not complex_concrete <= _refuted(ctx, facts):
                bad = (path, complex_concrete - _refuted(ctx, facts))
    key = 'apply: recursion into every complex suboperation'
    if bad:
        rc.violation(
            'apply-skips-subtree | ' + A.qualname,
            'the routine that re-registers a reused subtree can skip a '
            'suboperation of class %s without recursing into it (outputs '
            'nested below it lose their directory registration: clean '
            'leaves directories behind, later builds see them as foreign)'
            % sorted(bad[1]), lp.where(), sg.describe_path(bad[0]), key=key)
    else:
        rc.ok({'apply': key, 'skip_paths_checked': n_paths}, key=key)
    # A3: directories made < reservation
    w = Q.first_unguarded(
        sg, [sg.entry], lambda x: Q.is_done(x, R.builder + '._make_dirs'),
        lambda x: Q.is_call(x, RESERVE))
    key = 'apply: parents created before the reservation'
    if w:
        rc.violation('apply-order | ' + A.qualname,
                     'a reservation is made before the parent directories '
                     'exist', sg.nodes[w[-1]].where(), sg.describe_path(w),
                     key=key)
    else:
        rc.ok({'apply': key}, key=key)
    # A4: what _make_dirs returned is what is reserved
    for x in res:
        a = x.call.args[1] if len(x.call.args) > 1 else None
        key = 'apply: reservation receives the directories just made'
        if a is not None:
            org = ctx.H.origins(
                a, x.func, x.cn,
                stop=lambda n: n == R.builder + '._make_dirs')
            if {o[1] for o in org if o[0] == 'call'} == {
                    R.builder + '._make_dirs'}:
                rc.ok({'apply': key}, key=key)
                continue
        rc.violation('apply-created-dirs | ' + A.qualname,
                     'the reservation is not given the list of directories '
                     'returned by _make_dirs (their ownership is lost)',
                     x.where(), key=key)
    applied_record_rule(ctx, rc)


def applied_record_rule(ctx, rc):
    """A5: what is handed to the apply routine from outside (not its own
    recursion) is the record found in the previous build's cache - not the
    new, still empty record of the running call."""
    R = ctx.R
    prog = ctx.prog
    A = apply_routine(ctx)
    n = 0
    for caller, call in prog.callers().get(A.qualname, []):
        if caller is A or not call.args:
            continue
        b = prog.bind_args(call, A)
        p0 = [p for p in A.params][0] if A.params else None
        a = b.get(p0)
        if a is None or isinstance(a, list):
            continue
        cns = ctx.H.node_of(caller, call)
        if not cns:
            continue
        # helpers of the apply routine pass the record along
        if caller.cls == A.cls and not caller.is_public and any(
                isinstance(g, Func) and g.qualname == caller.qualname
                for c2 in prog.calls_in(A)
                for g in prog.resolve_call(c2, A)):
            continue
        n += 1
        org = ctx.H.origins(a, caller, cns[0])
        # origins are resolved through the getters: a record found in a
        # cache comes from one of the cache's maps, the own record from an
        # attribute of the builder (or a constructor)
        looked_up = [o for o in org if (o[0] == 'attr' and o[1] == R.cache)
                     or o[0] == 'call']
        own = [o for o in org if (o[0] == 'attr' and o[1] == R.builder)
               or o[0] == 'ctor']
        key = 'record applied by %s' % caller.qualname
        if looked_up and not own:
            rc.ok({'apply': key, 'origin': sorted(
                str(o[-1]) for o in looked_up)[:3]}, key=key)
        else:
            rc.violation(
                'apply-wrong-record | ' + caller.qualname,
                '%s hands %s to the routine that re-registers a reused '
                'subtree, which is not (only) the record looked up in the '
                'previous build\'s cache (origins: %s): the nested outputs '
                'of the cached record get no directories and no '
                'reservations' % (caller.qualname, ast.unparse(a)[:40],
                                  sorted({o[0] for o in org})),
                prog.loc(caller, call), key=key)
    if n == 0:
        raise AnalysisError('no external call of the apply routine')


def subtree_walk_rule(ctx, rc, F, visit, what, key_prefix):
    """A routine that iterates ``.suboperations`` must reach ``visit`` (a
    node predicate, e.g. the recursive call) for every complex
    suboperation: an iteration may skip it only on a path whose isinstance
    facts refute every complex record class."""
    R = ctx.R
    sg = ctx.E.super(F, lambda g: False)
    loops = [x for x in sg.nodes if x.kind == 'out' and
             x.cn.kind == 'for_next' and isinstance(
                 x.cn.ast.iter, ast.Attribute) and
             x.cn.ast.iter.attr == 'suboperations']
    if not loops:
        raise AnalysisError('%s does not iterate suboperations' % F.qualname)
    complex_concrete = {c for c in R.concrete_records
                        if 'suboperations' in R.record_fields[c]}
    for lp in loops:
        body = [d for d, l in lp.succ
                if isinstance(l, tuple) and l[0] == 'iter']

        def end(x, lp=lp):
            return (x.kind == 'in' and x.cn is lp.cn) or \
                x.id in sg.all_exits()
        bad = None
        n = 0
        for b in body:
            for path, facts in Q.enumerate_paths(sg, b, end, avoid=visit):
                if sg.nodes[path[-1]].kind == 'raise_exit':
                    continue
                n += 1
                if not complex_concrete <= _refuted(ctx, facts):
                    bad = (path, complex_concrete - _refuted(ctx, facts))
        key = '%s: %s for every complex suboperation' % (F.qualname, what)
        if bad:
            rc.violation(
                '%s | %s' % (key_prefix, F.qualname),
                '%s can skip a suboperation of class %s without %s: the '
                'whole-subtree guarantee does not hold for records nested '
                'below it' % (F.qualname, sorted(bad[1]), what),
                lp.where(), sg.describe_path(bad[0]), key=key)
        else:
            rc.ok({'walker': F.qualname, 'visits': what,
                   'skip_paths_checked': n}, key=key)
