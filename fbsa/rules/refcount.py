"""Reference-count walks (R4.8): the release walk is the exact inverse of the
reserve walk.

``BuildDirs.started_building_file`` climbs the ancestors of an output and
increments a per-directory count, ``error_building_file`` climbs the same
ancestors and decrements it.  Whatever the stopping rule is, the two must
agree: if the reserve walk, arriving at a directory whose count is n, stores
n' and (stops | continues), then the release walk arriving at count n' must
store n and (stop | continue) likewise - otherwise ancestors are decremented
that were never incremented (a directory with live outputs disappears from
the view) or stay incremented for ever (a directory whose outputs all failed
stays visible and is recorded as created).  A count that returns to zero must
leave the map, because the rest of the class tests membership.

The walk bodies are evaluated by abstract interpretation of one loop
iteration over the count domain {absent, 1, ..., M+1, > M+1} (M = largest
integer constant compared with in the two loops; above it every comparison
with a constant has a fixed truth value, so the last point stands for all
larger counts).  Only the counter map, integer locals derived from it and
comparisons are interpreted; every other statement is skipped, an
uninterpretable test explores both branches.
"""
import ast

from ..model import AnalysisError


class Unsupported(Exception):
    pass


TOP = ('top',)


class Walk:
    def __init__(self, ctx, F):
        self.ctx = ctx
        self.F = F
        self.self_name = F.self_name

    # -- discovery --------------------------------------------------------
    def aliases(self):
        """local name -> attribute for ``name = self.<attr>`` bound once."""
        if not hasattr(self, '_al'):
            self._al = {}
            for n in ast.walk(self.F.node):
                if isinstance(n, ast.Assign) and len(n.targets) == 1 and \
                        isinstance(n.targets[0], ast.Name) and isinstance(
                            n.value, ast.Attribute) and isinstance(
                                n.value.value, ast.Name) and \
                        n.value.value.id == self.self_name:
                    nm = n.targets[0].id
                    v = self.ctx.prog.single_local_def(self.F, nm)
                    if v is n.value:
                        self._al[nm] = n.value.attr
        return self._al

    def map_attr(self, e):
        if isinstance(e, ast.Attribute) and isinstance(e.value, ast.Name) \
                and e.value.id == self.self_name:
            return e.attr
        if isinstance(e, ast.Name) and e.id in self.aliases():
            return self.aliases()[e.id]
        return None

    def is_map(self, e, attr=None):
        a = self.map_attr(e)
        return a is not None and (attr is None or a == attr)

    def counter_attr(self):
        """The attribute whose items are stored with +1 / -1 arithmetic."""
        cands = set()
        for n in ast.walk(self.F.node):
            tgt = None
            if isinstance(n, ast.Assign) and len(n.targets) == 1:
                tgt, val = n.targets[0], n.value
            elif isinstance(n, ast.AugAssign):
                tgt, val = n.target, n
            if isinstance(tgt, ast.Subscript) and self.is_map(tgt.value):
                if isinstance(val, ast.AugAssign) or any(
                        isinstance(b, ast.BinOp) and isinstance(
                            b.op, (ast.Add, ast.Sub))
                        for b in ast.walk(val)) or isinstance(val, ast.Name):
                    cands.add(self.map_attr(tgt.value))
        return cands

    def loop_of(self, attr):
        loops = []
        for n in ast.walk(self.F.node):
            if isinstance(n, (ast.While, ast.For)):
                if any(self.is_map(x, attr) and isinstance(
                        self._parent_map().get(x), (ast.Subscript,))
                       for x in ast.walk(n)):
                    loops.append(n)
        # outermost loop that touches the map
        loops.sort(key=lambda l: l.lineno)
        return loops[0] if loops else None

    def _parent_map(self):
        if not hasattr(self, '_pm'):
            self._pm = {}
            for n in ast.walk(self.F.node):
                for c in ast.iter_child_nodes(n):
                    self._pm[c] = n
        return self._pm

    # -- abstract interpretation of one iteration --------------------------
    def run(self, attr, loop, v):
        """Outcomes {(exit kind, final count or None)} of one iteration that
        starts with count ``v`` (None = absent)."""
        self.attr = attr
        outs = set()
        for st, kind in self.block(loop.body, {'D': v, 'loc': {}}):
            outs.add((kind, st['D']))
        # leaving the loop on an uninterpreted test before the count was
        # touched (``if parent == prev_parent: break`` - the root is
        # reached) is the loop's own termination, not a decision of the walk
        if len(outs) > 1:
            outs.discard(('break', v))
        return outs

    def touches(self, node):
        for x in ast.walk(node):
            if self.is_map(x, self.attr):
                return True
        return False

    def block(self, stmts, st):
        states = [st]
        done = []
        for s in stmts:
            nxt = []
            for cur in states:
                for st2, kind in self.stmt(s, cur):
                    if kind == 'fall':
                        nxt.append(st2)
                    else:
                        done.append((st2, kind))
            states = nxt
            if not states:
                break
        return done + [(s_, 'fall') for s_ in states]

    @staticmethod
    def copy(st):
        return {'D': st['D'], 'loc': dict(st['loc'])}

    def stmt(self, s, st):
        if isinstance(s, ast.Assign) and len(s.targets) == 1:
            t = s.targets[0]
            if isinstance(t, ast.Name):
                st = self.copy(st)
                st['loc'][t.id] = self.ev(s.value, st)
                return [(st, 'fall')]
            if isinstance(t, ast.Subscript) and self.is_map(t.value,
                                                            self.attr):
                val = self.ev(s.value, st)
                if val is TOP or isinstance(val, bool):
                    raise Unsupported('count stored from %s' %
                                      ast.unparse(s.value))
                st = self.copy(st)
                st['D'] = val
                return [(st, 'fall')]
            if self.touches(s):
                raise Unsupported(ast.unparse(s)[:60])
            if isinstance(t, (ast.Tuple, ast.List)):
                st = self.copy(st)
                for x in ast.walk(t):
                    if isinstance(x, ast.Name):
                        st['loc'][x.id] = TOP
            return [(st, 'fall')]
        if isinstance(s, ast.AugAssign):
            t = s.target
            if isinstance(t, ast.Subscript) and self.is_map(t.value,
                                                            self.attr):
                cur = st['D']
                d = self.ev(s.value, st)
                if cur is None or d is TOP or not isinstance(
                        s.op, (ast.Add, ast.Sub)):
                    raise Unsupported(ast.unparse(s)[:60])
                st = self.copy(st)
                st['D'] = cur + d if isinstance(s.op, ast.Add) else cur - d
                return [(st, 'fall')]
            if isinstance(t, ast.Name):
                st = self.copy(st)
                a = st['loc'].get(t.id, TOP)
                d = self.ev(s.value, st)
                if a is TOP or d is TOP or not isinstance(
                        s.op, (ast.Add, ast.Sub)) or a is None:
                    st['loc'][t.id] = TOP
                else:
                    st['loc'][t.id] = a + d if isinstance(
                        s.op, ast.Add) else a - d
                return [(st, 'fall')]
            return [(st, 'fall')]
        if isinstance(s, ast.Delete):
            for t in s.targets:
                if isinstance(t, ast.Subscript) and self.is_map(
                        t.value, self.attr):
                    st = self.copy(st)
                    st['D'] = None
                elif self.touches(t):
                    raise Unsupported(ast.unparse(s)[:60])
            return [(st, 'fall')]
        if isinstance(s, ast.Expr):
            c = s.value
            if isinstance(c, ast.Call) and isinstance(
                    c.func, ast.Attribute) and self.is_map(
                        c.func.value, self.attr):
                if c.func.attr == 'pop':
                    st = self.copy(st)
                    st['D'] = None
                    return [(st, 'fall')]
                raise Unsupported(ast.unparse(s)[:60])
            if self.touches(s):
                # reads of the map inside other expressions do not change it
                pass
            return [(st, 'fall')]
        if isinstance(s, ast.If):
            t = self.ev(s.test, st)
            out = []
            if t is TOP or self.truth(t):
                out += self.block(s.body, self.copy(st))
            if t is TOP or not self.truth(t):
                out += self.block(s.orelse, self.copy(st))
            return out
        if isinstance(s, ast.Break):
            if getattr(self, '_one_trip', 0):
                return [(st, 'obreak')]
            return [(st, 'break')]
        if isinstance(s, ast.Continue):
            if getattr(self, '_one_trip', 0):
                raise Unsupported('continue inside a one-trip block')
            return [(st, 'fall')]
        if isinstance(s, ast.While) and isinstance(
                s.test, ast.Constant) and s.test.value is True and \
                not s.orelse and s.body and isinstance(
                    s.body[-1], (ast.Break, ast.Return, ast.Raise)):
            # ``while True: ...; break`` is a block whose ``break`` is a
            # jump to its end (an inlined helper with early returns)
            self._one_trip = getattr(self, '_one_trip', 0) + 1
            try:
                res = self.block(s.body, st)
            finally:
                self._one_trip -= 1
            out = []
            for st2, kind in res:
                if kind == 'fall':
                    raise Unsupported('one-trip block can loop')
                out.append((st2, 'fall' if kind == 'obreak' else kind))
            return out
        if isinstance(s, ast.Return):
            return [(st, 'break')]
        if isinstance(s, ast.Raise):
            return [(st, 'raise')]
        if isinstance(s, (ast.For, ast.While)):
            writes = any(
                (isinstance(x, (ast.Assign, ast.AugAssign, ast.Delete)) and
                 self.touches(x) and any(
                     isinstance(t, ast.Subscript) and self.is_map(
                         t.value, self.attr)
                     for t in (getattr(x, 'targets', None) or
                               [getattr(x, 'target', None)]) if t is not None))
                or (isinstance(x, ast.Call) and isinstance(
                    x.func, ast.Attribute) and self.is_map(
                        x.func.value, self.attr) and x.func.attr in (
                            'pop', 'clear', 'update', 'setdefault'))
                for x in ast.walk(s))
            if writes:
                raise Unsupported('nested loop writes the counter map')
            st = self.copy(st)
            for x in ast.walk(s):
                if isinstance(x, ast.Name) and isinstance(x.ctx, ast.Store):
                    st['loc'][x.id] = TOP
            return [(st, 'fall')]
        if isinstance(s, ast.With):
            return self.block(s.body, st)
        if isinstance(s, ast.Try):
            for h in s.handlers:
                if self.touches(h):
                    raise Unsupported('handler touches the counter map')
            outs = []
            for st2, kind in self.block(s.body, st):
                if kind == 'fall':
                    outs += self.block(s.orelse + s.finalbody, st2)
                else:
                    outs.append((st2, kind))
            return outs
        if isinstance(s, (ast.Pass, ast.Assert, ast.Global, ast.Nonlocal,
                          ast.Import, ast.ImportFrom)):
            return [(st, 'fall')]
        if self.touches(s):
            raise Unsupported(ast.unparse(s)[:60])
        return [(st, 'fall')]

    @staticmethod
    def truth(v):
        if v is None:
            return False
        return bool(v)

    def ev(self, e, st):
        if isinstance(e, ast.Constant):
            if isinstance(e.value, (int, bool)) or e.value is None:
                return e.value
            return TOP
        if isinstance(e, ast.Name):
            return st['loc'].get(e.id, TOP)
        if isinstance(e, ast.NamedExpr):
            v = self.ev(e.value, st)
            st['loc'][e.target.id] = v
            return v
        if isinstance(e, ast.Subscript) and self.is_map(e.value, self.attr):
            if st['D'] is None:
                raise Unsupported('KeyError path')
            return st['D']
        if isinstance(e, ast.Call) and isinstance(e.func, ast.Attribute) \
                and self.is_map(e.func.value, self.attr):
            if e.func.attr == 'get':
                d = self.ev(e.args[1], st) if len(e.args) > 1 else None
                return st['D'] if st['D'] is not None else d
            return TOP
        if isinstance(e, ast.BinOp) and isinstance(e.op, (ast.Add, ast.Sub)):
            a, b = self.ev(e.left, st), self.ev(e.right, st)
            if a is TOP or b is TOP or a is None or b is None:
                return TOP
            return a + b if isinstance(e.op, ast.Add) else a - b
        if isinstance(e, ast.UnaryOp) and isinstance(e.op, ast.Not):
            a = self.ev(e.operand, st)
            return TOP if a is TOP else (not self.truth(a))
        if isinstance(e, ast.BoolOp):
            vals = [self.ev(v, st) for v in e.values]
            if isinstance(e.op, ast.And):
                if any(v is not TOP and not self.truth(v) for v in vals):
                    return False
                return TOP if any(v is TOP for v in vals) else True
            if any(v is not TOP and self.truth(v) for v in vals):
                return True
            return TOP if any(v is TOP for v in vals) else False
        if isinstance(e, ast.Compare) and len(e.ops) == 1:
            op = e.ops[0]
            r = e.comparators[0]
            if isinstance(op, (ast.In, ast.NotIn)) and self.is_map(
                    r, self.attr):
                present = st['D'] is not None
                return present if isinstance(op, ast.In) else not present
            a, b = self.ev(e.left, st), self.ev(r, st)
            if isinstance(op, (ast.Is, ast.IsNot)):
                if a is TOP or b is TOP:
                    return TOP
                return (a is b) if isinstance(op, ast.Is) else (a is not b)
            if a is TOP or b is TOP or a is None or b is None:
                return TOP
            return {ast.Lt: a < b, ast.LtE: a <= b, ast.Gt: a > b,
                    ast.GtE: a >= b, ast.Eq: a == b,
                    ast.NotEq: a != b}.get(type(op), TOP)
        return TOP


def _max_const(nodes):
    m = 1
    for n in nodes:
        for x in ast.walk(n):
            if isinstance(x, ast.Compare):
                for c in [x.left] + x.comparators:
                    if isinstance(c, ast.Constant) and isinstance(
                            c.value, int) and not isinstance(c.value, bool):
                        m = max(m, abs(c.value))
    return m


class _Body:
    """The statements of a function treated like one loop iteration (the
    count is touched once, outside any loop): 'break' = early return."""

    def __init__(self, func):
        self.body = func.node.body
        self.lineno = func.node.lineno
        self.col_offset = func.node.col_offset
        self.end_lineno = getattr(func.node, 'end_lineno', self.lineno)
        self.end_col_offset = 0


def refcount_rule(ctx, rc, reserve, release, same_stop=True):
    A = ctx.E.func(reserve)
    Rl = ctx.E.func(release)
    wa, wr = Walk(ctx, A), Walk(ctx, Rl)
    attrs = wa.counter_attr() & wr.counter_attr()
    if len(attrs) != 1:
        raise AnalysisError('reference-count map of %s / %s not identified '
                            '(%s)' % (reserve, release, sorted(attrs)))
    attr = attrs.pop()
    la, lr = wa.loop_of(attr), wr.loop_of(attr)
    if same_stop and (la is None or lr is None):
        raise AnalysisError('ancestor walk not found in %s / %s' % (
            reserve, release))
    if la is None:
        la = _Body(A)
    if lr is None:
        lr = _Body(Rl)
    M = _max_const([A.node, Rl.node])
    try:
        for v in [None] + list(range(1, M + 3)):
            n = 0 if v is None else v
            key = 'count %s%d' % ('>= ' if n == M + 2 else '', n)
            oa = wa.run(attr, la, v)
            oa = {o for o in oa if o[0] != 'raise'}
            if len(oa) != 1:
                raise Unsupported('reserve walk is not deterministic in the '
                                  'count (%s)' % sorted(map(str, oa)))
            ka, na = next(iter(oa))
            if na is None or na != n + 1:
                rc.violation(
                    'refcount | %s | count %d' % (reserve, n),
                    'arriving at a directory with %d reservation(s), %s '
                    'stores %s instead of %d' % (n, reserve, na, n + 1),
                    ctx.prog.loc(A, A.node), key=key)
                continue
            orl = wr.run(attr, lr, na)
            orl = {o for o in orl if o[0] != 'raise'}
            if len(orl) != 1:
                raise Unsupported('release walk is not deterministic in the '
                                  'count (%s)' % sorted(map(str, orl)))
            kr, nr = next(iter(orl))
            back = 0 if nr is None else nr
            problems = []
            if back != n or (n == 0 and nr is not None):
                problems.append(
                    'the release walk leaves %s where the reserve walk '
                    'found %s' % (
                        'count %d' % nr if nr is not None else 'no entry',
                        'count %d' % n if n else 'no entry'))
            if ka != kr and same_stop:
                w = {'fall': 'continues to the parent', 'break': 'stops'}
                problems.append(
                    'at a directory with %d earlier reservation(s) the '
                    'reserve walk %s, but the release walk arriving at the '
                    'resulting count %d %s: ancestors are %s' % (
                        n, w[ka], na, w[kr],
                        'incremented and never decremented (a directory '
                        'whose outputs all failed stays reserved, visible '
                        'and recorded as created)' if ka == 'fall' else
                        'decremented without having been incremented (a '
                        'directory with live outputs loses its '
                        'reservation)'))
            if problems:
                rc.violation('refcount | %s vs %s | count %d' % (
                    reserve, release, n), '; '.join(problems),
                    ctx.prog.loc(Rl, Rl.node), key=key)
            else:
                rc.ok({'count': key, 'reserve': '%s -> %d, %s' % (
                    n, na, ka), 'release': '%d -> %s, %s' % (
                        na, nr, kr)}, key=key)
    except Unsupported as e:
        raise AnalysisError('reference-count walk not interpretable: %s' % e)


def _climbing_loops(func):
    """Loops whose body moves a variable to its own parent directory
    (``x = os.path.dirname(x)``)."""
    out = []
    for n in ast.walk(func.node):
        if not isinstance(n, (ast.While, ast.For)):
            continue
        for a in ast.walk(n):
            if isinstance(a, ast.Assign) and len(a.targets) == 1 and \
                    isinstance(a.targets[0], ast.Name) and isinstance(
                        a.value, ast.Call) and ast.unparse(
                            a.value.func).endswith('dirname') and \
                    a.value.args and isinstance(a.value.args[0], ast.Name) \
                    and a.value.args[0].id == a.targets[0].id:
                out.append(n)
                break
    return out


def ancestor_walk_rule(ctx, rc, reserve, release):
    """Sibling agreement of the two ancestor walks: the set that the reserve
    side fills inside its climbing loop must be emptied by the release side
    inside a climbing loop as well (a single conditional step forgets one
    ancestor only)."""
    A = ctx.E.func(reserve)
    Rl = ctx.E.func(release)
    filled = set()
    for lp in _climbing_loops(A):
        for c in ast.walk(lp):
            if isinstance(c, ast.Call) and isinstance(
                    c.func, ast.Attribute) and c.func.attr == 'add' and \
                    isinstance(c.func.value, ast.Attribute) and isinstance(
                        c.func.value.value, ast.Name) and \
                    c.func.value.value.id == A.self_name:
                filled.add(c.func.value.attr)
    if not filled:
        raise AnalysisError('no ancestor set is filled by a climbing loop '
                            'of ' + reserve)
    rloops = _climbing_loops(Rl)
    for attr in sorted(filled):
        key = 'ancestors in .%s: added by a walk, removed by a walk' % attr
        rem = [c for c in ast.walk(Rl.node)
               if isinstance(c, ast.Call) and isinstance(
                   c.func, ast.Attribute) and
               c.func.attr in ('remove', 'discard') and isinstance(
                   c.func.value, ast.Attribute) and
               c.func.value.attr == attr]
        in_loop = [c for c in rem if any(
            c in list(ast.walk(lp)) for lp in rloops)]
        if not rem:
            rc.violation('ancestor-walk | %s | %s' % (release, attr),
                         '%s never removes from .%s what %s adds' % (
                             release, attr, reserve),
                         ctx.prog.loc(Rl, Rl.node), key=key)
        elif not in_loop:
            rc.violation(
                'ancestor-walk | %s | %s' % (release, attr),
                '%s adds every missing ancestor to .%s in a loop, but %s '
                'removes ancestors outside any climbing loop (at most one '
                'level is forgotten; higher ancestors of a failed output '
                'stay visible in the overlay)' % (reserve, attr, release),
                ctx.prog.loc(Rl, rem[0]), key=key)
        else:
            rc.ok({'set': attr, 'reserve': 'loop', 'release': 'loop'},
                  key=key)


def subfiles_rule(ctx, rc, cls='CreatedFiles'):
    """The overlay's listing map (directory -> created entries): the
    forgetting helper undoes what the registering helper does, and says so.
    In the function that removes an entry: every normal return lies behind
    the removal of the entry from the directory's inner map, except on the
    path on which the argument was found to be a root (nothing to remove);
    ``return True`` ("the directory's entry is gone") lies behind the
    removal of the directory's own entry, which in turn is reached only when
    the inner map has become empty; and the overlay registers a finished
    file in the listing like it registers directories."""
    from .. import queries as Q
    prog = ctx.prog
    C = prog.classes.get(cls)
    if C is None:
        raise AnalysisError('anchor vanished: class ' + cls)
    # the adder: stores into an inner dict obtained by setdefault on a map
    adder = remover = None
    mattr = None
    for m in C.methods.values():
        for c in prog.calls_in(m):
            f = c.func
            if isinstance(f, ast.Attribute) and f.attr == 'setdefault' and \
                    isinstance(f.value, ast.Attribute) and isinstance(
                        f.value.value, ast.Name) and \
                    f.value.value.id == m.self_name:
                adder, mattr = m, f.value.attr
    if adder is None:
        raise AnalysisError('listing map of %s not identified' % cls)
    for m in C.methods.values():
        if m is adder or m.name == '__init__':
            continue
        if any(isinstance(c.func, ast.Attribute) and c.func.attr == 'pop'
               and isinstance(c.func.value, ast.Attribute) and
               c.func.value.attr == mattr for c in prog.calls_in(m)):
            remover = m
    if remover is None:
        rc.violation(
            'listing-never-removed | %s.%s' % (cls, mattr),
            'no method of %s ever removes a directory\'s entry from .%s: '
            'the overlay keeps listing directories whose outputs all '
            'failed' % (cls, mattr), prog.loc(adder, adder.node),
            key='the listing map is emptied somewhere')
        return
    sg = ctx.E.super(remover, lambda g: False)
    inner = {t.id for n in ast.walk(remover.node)
             if isinstance(n, ast.Assign) and isinstance(
                 n.value, ast.Subscript) and isinstance(
                     n.value.value, ast.Attribute) and
             n.value.value.attr == mattr for t in n.targets
             if isinstance(t, ast.Name)}

    def inner_pop(x):
        return x.kind == 'ret' and x.call is not None and isinstance(
            x.call.func, ast.Attribute) and x.call.func.attr in (
                'pop', '__delitem__') and isinstance(
                    x.call.func.value, ast.Name) and \
            x.call.func.value.id in inner

    def map_pop(x):
        return x.kind == 'ret' and x.call is not None and isinstance(
            x.call.func, ast.Attribute) and x.call.func.attr == 'pop' and \
            isinstance(x.call.func.value, ast.Attribute) and \
            x.call.func.value.attr == mattr

    def root_fact(lab):
        # T-edge of ``<split head> == <argument>``
        if not (isinstance(lab, tuple) and len(lab) == 4 and lab[0] == 'T'):
            return False
        a = lab[1]
        return isinstance(a, ast.Compare) and len(a.ops) == 1 and \
            isinstance(a.ops[0], ast.Eq) and any(
                isinstance(s_, ast.Name) and s_.id in remover.params
                for s_ in (a.left, a.comparators[0]))
    ends = set(sg.normal_exits())
    is_predicate = any(
        isinstance(r, ast.Return) and isinstance(r.value, ast.Constant) and
        r.value.value is True for r in ast.walk(remover.node)) and any(
        isinstance(r, ast.Return) and isinstance(r.value, ast.Constant) and
        r.value.value is False for r in ast.walk(remover.node))
    if not is_predicate:
        # the removal was inlined into the forgetting walk: only the
        # emptiness condition and the registration of finished files apply
        rc.note('the listing remover %s is not a predicate helper; verdict '
                'clauses skipped' % remover.qualname)
        return _subfiles_tail(ctx, rc, sg, remover, mattr, inner, C, adder)
    # (1) every non-root return removed the entry
    seen = sg.reach([sg.entry], avoid=inner_pop,
                    edge_ok=lambda a, b, lab: not root_fact(lab))
    key = '%s removes the entry on every non-root path' % remover.qualname
    hit = [e for e in ends if e in seen]
    if hit:
        rc.violation(
            'listing-remove | ' + remover.qualname,
            '%s can return without having removed the entry from the '
            'directory\'s map although the argument is not a root: a failed '
            'output stays listed in the overlay' % remover.qualname,
            prog.loc(remover, remover.node),
            sg.describe_path(sg.witness(seen, hit[0])), key=key)
    else:
        rc.ok({'remover': remover.qualname}, key=key)
    # (2) "True" only after the directory's own entry was removed
    seen = sg.reach([sg.entry], avoid=map_pop)
    key = '%s: True only after the directory entry is gone' % \
        remover.qualname
    if sg.exits['T'] in seen:
        rc.violation(
            'listing-verdict | ' + remover.qualname,
            '%s can answer True ("the directory has no created entries '
            'left") without having removed the directory\'s entry, so the '
            'caller climbs on while the directory is still listed' %
            remover.qualname, prog.loc(remover, remover.node),
            sg.describe_path(sg.witness(seen, sg.exits['T'])), key=key)
    else:
        rc.ok({'verdict': 'True => directory entry removed'}, key=key)
    # (2b) ... and "False" on a non-root path only while entries remain
    pops = [x for x in sg.nodes if map_pop(x)]
    post = sg.reach([x.id for x in pops])
    key = '%s: False only while entries remain' % remover.qualname
    if pops and sg.exits['F'] in post:
        rc.violation(
            'listing-verdict | ' + remover.qualname + ' | False',
            '%s can answer False after it removed the directory\'s entry: '
            'the caller stops climbing and the parent keeps listing a '
            'directory that is gone' % remover.qualname,
            prog.loc(remover, remover.node), key=key)
    else:
        rc.ok({'verdict': 'False => directory entry kept'}, key=key)
    return _subfiles_tail(ctx, rc, sg, remover, mattr, inner, C, adder)


def _subfiles_tail(ctx, rc, sg, remover, mattr, inner, C, adder):
    from .. import queries as Q
    prog = ctx.prog
    cls = C.name
    # (3) the directory's entry is removed only when the inner map is empty
    key = '%s removes the directory entry only when it is empty' % \
        remover.qualname
    bad = None
    for x in sg.nodes:
        if x.kind == 'leaf' and x.call is not None and isinstance(
                x.call.func, ast.Attribute) and x.call.func.attr == 'pop' \
                and isinstance(x.call.func.value, ast.Attribute) and \
                x.call.func.value.attr == mattr:
            facts = Q.control_facts(sg, x.id)
            ok = any(isinstance(a, ast.Name) and a.id in inner and pol == 'F'
                     for pol, a, f_, c_ in facts) or any(
                isinstance(a, ast.Call) and isinstance(a.func, ast.Name)
                and a.func.id == 'len' and pol == 'F'
                for pol, a, f_, c_ in facts)
            if not ok:
                bad = x
    if bad is not None:
        rc.violation(
            'listing-empty | ' + remover.qualname,
            'the directory\'s entry is removed from .%s although its inner '
            'map was not found empty: other created entries of the '
            'directory disappear from the overlay' % mattr, bad.where(),
            key=key)
    else:
        rc.ok({'condition': 'inner map empty'}, key=key)
    # (4) a finished file is registered in the listing
    fin = C.methods.get('finished_building_file')
    key = 'a finished output is listed in the overlay'
    if fin is None:
        raise AnalysisError('anchor vanished: %s.finished_building_file' %
                            cls)
    sgf = ctx.E.super(fin, lambda g: False)
    w = Q.first_unguarded(sgf, [sgf.entry],
                          lambda x: Q.is_done(x, adder.qualname),
                          lambda x: x.id in sgf.normal_exits())
    if w:
        rc.violation(
            'listing-finished | ' + fin.qualname,
            '%s can return without registering the finished file in the '
            'listing map (%s): a replayed list_dir / walk does not show the '
            'output and the record is re-executed on every build' % (
                fin.qualname, adder.qualname), prog.loc(fin, fin.node),
            key=key)
    else:
        rc.ok({'registers': adder.qualname}, key=key)
