"""Program model (DESIGN E1/E2): modules, classes, functions, imports,
receiver-type inference and call resolution.  Pure ``ast``.
"""
import ast
import copy
import builtins
import json
import os


class AnalysisError(Exception):
    """The analysis is inconclusive for this tree (exit code 2)."""


PKG = 'file_builder'


class Func:
    def __init__(self, module, cls, node):
        self.module = module
        self.cls = cls                      # class name or None
        self.node = node
        self.name = node.name
        self.qualname = (cls + '.' if cls else '') + node.name
        self.is_static = any(
            isinstance(d, ast.Name) and d.id == 'staticmethod'
            for d in node.decorator_list)
        a = node.args
        names = [x.arg for x in a.posonlyargs + a.args]
        self.has_self = bool(cls) and not self.is_static
        self.self_name = names[0] if self.has_self and names else None
        self.params = names[1:] if self.has_self else names
        self.vararg = a.vararg.arg if a.vararg else None
        self.kwarg = a.kwarg.arg if a.kwarg else None
        self.kwonly = [x.arg for x in a.kwonlyargs]
        nd = len(a.defaults)
        self.defaults = {}
        allpos = names
        for i, d in enumerate(a.defaults):
            self.defaults[allpos[len(allpos) - nd + i]] = d
        self.file = None
        self.is_public = not node.name.startswith('_')

    def all_param_names(self):
        r = list(self.params) + list(self.kwonly)
        if self.vararg:
            r.append(self.vararg)
        if self.kwarg:
            r.append(self.kwarg)
        return r

    def __repr__(self):
        return '<Func %s>' % self.qualname


class Cls:
    def __init__(self, module, node):
        self.module = module
        self.node = node
        self.name = node.name
        self.bases = []
        for b in node.bases:
            if isinstance(b, ast.Name):
                self.bases.append(b.id)
            elif isinstance(b, ast.Attribute):
                self.bases.append(b.attr)
        self.methods = {}
        self.class_attrs = {}
        for st in node.body:
            if isinstance(st, ast.Assign):
                for t in st.targets:
                    if isinstance(t, ast.Name):
                        self.class_attrs[t.id] = st.value


def _inline_simple_properties(tree):
    """A read-only ``@property`` whose body is ``return <expression over
    self>`` is an accessor: reads ``self.<prop>`` inside the class are
    replaced by that expression (positions of the read are kept)."""
    import copy as _copy
    for cd in tree.body:
        if not isinstance(cd, ast.ClassDef):
            continue
        props = {}
        for m in cd.body:
            if not (isinstance(m, ast.FunctionDef) and any(
                    isinstance(d, ast.Name) and d.id == 'property'
                    for d in m.decorator_list)):
                continue
            body = [b for b in m.body if not (
                isinstance(b, ast.Expr) and isinstance(b.value, ast.Constant)
                and isinstance(b.value.value, str))]
            if len(body) == 1 and isinstance(body[0], ast.Return) and \
                    body[0].value is not None and len(m.args.args) == 1 and \
                    not any(isinstance(x, (ast.Call, ast.Lambda))
                            for x in ast.walk(body[0].value)):
                props[m.name] = (m.args.args[0].arg, body[0].value)
        setters = {d.value.id for m in cd.body
                   if isinstance(m, ast.FunctionDef)
                   for d in m.decorator_list
                   if isinstance(d, ast.Attribute) and isinstance(
                       d.value, ast.Name)}
        props = {k: v for k, v in props.items() if k not in setters}
        if not props:
            continue

        class T(ast.NodeTransformer):
            def __init__(self, self_name):
                self.self_name = self_name

            def visit_Attribute(self, n):
                self.generic_visit(n)
                if isinstance(n.ctx, ast.Load) and isinstance(
                        n.value, ast.Name) and n.value.id == self.self_name \
                        and n.attr in props:
                    pself, expr = props[n.attr]
                    new = _copy.deepcopy(expr)
                    for x in ast.walk(new):
                        if isinstance(x, ast.Name) and x.id == pself:
                            x.id = self.self_name
                        if hasattr(x, 'lineno'):
                            ast.copy_location(x, n)
                    return new
                return n
        for m in cd.body:
            if isinstance(m, ast.FunctionDef) and m.name not in props and \
                    m.args.args:
                sn = m.args.args[0].arg
                m.body = [T(sn).visit(b) for b in m.body]


def _first_atom(e):
    """The sub-expression of a test that is evaluated unconditionally."""
    while True:
        if isinstance(e, ast.BoolOp):
            e = e.values[0]
        elif isinstance(e, ast.UnaryOp) and isinstance(e.op, ast.Not):
            e = e.operand
        else:
            return e


def _hoist_walrus(tree):
    """``if (x := E) is None:`` is ``x = E`` followed by ``if x is None:``;
    ``while len(b := f()) > 0: body`` is ``while True: b = f(); if not
    (len(b) > 0): break; body``.  Only assignment expressions inside the
    unconditionally evaluated first operand of the test are hoisted (the
    rewrite keeps the evaluation order); others are left alone."""

    def hoist(test):
        atom = _first_atom(test)
        pre = []

        class H(ast.NodeTransformer):
            def visit_NamedExpr(self, n):
                self.generic_visit(n)
                pre.append(ast.copy_location(ast.Assign(
                    targets=[ast.copy_location(ast.Name(
                        id=n.target.id, ctx=ast.Store()), n)],
                    value=n.value, lineno=n.lineno), n))
                return ast.copy_location(
                    ast.Name(id=n.target.id, ctx=ast.Load()), n)

            def visit_Lambda(self, n):
                return n
        if not any(isinstance(x, ast.NamedExpr) for x in ast.walk(atom)):
            return test, []
        # replace inside the first atom only (in place: the atom object is
        # part of ``test``)
        parent = None
        for p in ast.walk(test):
            for fld, val in ast.iter_fields(p):
                if val is atom:
                    parent = (p, fld, None)
                elif isinstance(val, list):
                    for i, x in enumerate(val):
                        if x is atom:
                            parent = (p, fld, i)
        new_atom = H().visit(atom)
        if parent is None:
            test = new_atom
        elif parent[2] is None:
            setattr(parent[0], parent[1], new_atom)
        else:
            getattr(parent[0], parent[1])[parent[2]] = new_atom
        return test, pre

    def fix_block(stmts):
        out = []
        for st in stmts:
            for fld in ('body', 'orelse', 'finalbody'):
                if isinstance(getattr(st, fld, None), list):
                    setattr(st, fld, fix_block(getattr(st, fld)))
            for h in getattr(st, 'handlers', []) or []:
                h.body = fix_block(h.body)
            if isinstance(st, ast.If):
                st.test, pre = hoist(st.test)
                out.extend(pre)
                out.append(st)
            elif isinstance(st, ast.While) and not st.orelse and any(
                    isinstance(x, ast.NamedExpr)
                    for x in ast.walk(_first_atom(st.test))):
                test, pre = hoist(st.test)
                brk = ast.copy_location(ast.If(
                    test=ast.copy_location(ast.UnaryOp(
                        op=ast.Not(), operand=test), st.test),
                    body=[ast.copy_location(ast.Break(), st)], orelse=[]), st)
                st.test = ast.copy_location(ast.Constant(value=True), st)
                st.body = pre + [brk] + st.body
                out.append(st)
            else:
                out.append(st)
        return out
    for node in ast.walk(tree):
        if isinstance(node, ast.FunctionDef):
            node.body = fix_block(node.body)
    ast.fix_missing_locations(tree)


def _inline_lock_decorators(tree):
    """A module-level decorator of the shape

        def synchronized(method):
            @functools.wraps(method)
            def wrapper(self, *args, **kwargs):
                with self.<lock>:
                    return method(self, *args, **kwargs)
            return wrapper

    is applied at load time: the decorated method's body is put inside the
    ``with`` block and the decorator (definition and uses) disappears."""
    def docless(body):
        return [b for b in body if not (
            isinstance(b, ast.Expr) and isinstance(b.value, ast.Constant)
            and isinstance(b.value.value, str))]
    decos = {}
    for d in tree.body:
        if not isinstance(d, ast.FunctionDef) or d.decorator_list or \
                len(d.args.args) != 1 or d.args.vararg or d.args.kwarg:
            continue
        m = d.args.args[0].arg
        body = docless(d.body)
        if len(body) != 2 or not isinstance(body[0], ast.FunctionDef) or \
                not (isinstance(body[1], ast.Return) and isinstance(
                    body[1].value, ast.Name) and
                    body[1].value.id == body[0].name):
            continue
        w = body[0]
        if not all(isinstance(x, ast.Call) and 'wraps' in ast.unparse(x.func)
                   for x in w.decorator_list):
            continue
        if len(w.args.args) != 1 or w.args.vararg is None or \
                w.args.kwonlyargs:
            continue
        s_ = w.args.args[0].arg
        wb = docless(w.body)
        if len(wb) != 1 or not isinstance(wb[0], ast.With) or \
                len(wb[0].body) != 1:
            continue
        inner = wb[0].body[0]
        if not (isinstance(inner, ast.Return) and isinstance(
                inner.value, ast.Call) and isinstance(
                    inner.value.func, ast.Name) and
                inner.value.func.id == m):
            continue
        c = inner.value
        if not (len(c.args) == 2 and isinstance(c.args[0], ast.Name) and
                c.args[0].id == s_ and isinstance(c.args[1], ast.Starred)
                and isinstance(c.args[1].value, ast.Name) and
                c.args[1].value.id == w.args.vararg.arg):
            continue
        if w.args.kwarg is not None and not (
                len(c.keywords) == 1 and c.keywords[0].arg is None):
            continue
        if any(it.optional_vars is not None for it in wb[0].items):
            continue
        decos[d.name] = (d, s_, wb[0].items)
    if not decos:
        return
    used = set()
    for cdef in tree.body:
        if not isinstance(cdef, ast.ClassDef):
            continue
        for f in cdef.body:
            if not isinstance(f, ast.FunctionDef) or not f.args.args:
                continue
            for dec in list(f.decorator_list):
                if isinstance(dec, ast.Name) and dec.id in decos:
                    d, s_, items = decos[dec.id]
                    self_name = f.args.args[0].arg
                    new_items = copy.deepcopy(items)
                    for it in new_items:
                        for x in ast.walk(it):
                            if isinstance(x, ast.Name) and x.id == s_:
                                x.id = self_name
                    doc = [b for b in f.body if b not in docless(f.body)]
                    f.body = doc + [ast.With(items=new_items,
                                             body=docless(f.body) or
                                             [ast.Pass()],
                                             lineno=f.lineno)]
                    f.decorator_list.remove(dec)
                    used.add(dec.id)
    # the decorator definitions go (they contain a nested function); a
    # decorator still referenced elsewhere stays and is reported unsupported
    still = {n.id for n in ast.walk(tree) if isinstance(n, ast.Name) and
             isinstance(n.ctx, ast.Load) and n.id in decos}
    tree.body = [b for b in tree.body if not (
        isinstance(b, ast.FunctionDef) and b.name in decos and
        b.name not in still)]
    ast.fix_missing_locations(tree)


def _normalise_acquire_release(tree):
    """``L.acquire(); try: BODY finally: L.release()`` is ``with L: BODY``."""
    def is_call(st, name):
        return isinstance(st, ast.Expr) and isinstance(
            st.value, ast.Call) and isinstance(
                st.value.func, ast.Attribute) and \
            st.value.func.attr == name and not st.value.args and \
            not st.value.keywords

    def fix(stmts):
        out = []
        i = 0
        while i < len(stmts):
            st = stmts[i]
            nx = stmts[i + 1] if i + 1 < len(stmts) else None
            if is_call(st, 'acquire') and isinstance(nx, ast.Try) and \
                    not nx.handlers and not nx.orelse and \
                    len(nx.finalbody) == 1 and is_call(
                        nx.finalbody[0], 'release') and ast.dump(
                        st.value.func.value) == ast.dump(
                        nx.finalbody[0].value.func.value):
                out.append(ast.copy_location(ast.With(
                    items=[ast.withitem(context_expr=st.value.func.value,
                                        optional_vars=None)],
                    body=fix(nx.body)), st))
                i += 2
                continue
            for fld in ('body', 'orelse', 'finalbody'):
                v = getattr(st, fld, None)
                if isinstance(v, list) and v and isinstance(v[0], ast.stmt):
                    setattr(st, fld, fix(v))
            if isinstance(st, ast.Try):
                for h in st.handlers:
                    h.body = fix(h.body)
            out.append(st)
            i += 1
        return out
    for node in ast.walk(tree):
        if isinstance(node, ast.FunctionDef):
            node.body = fix(node.body)
    ast.fix_missing_locations(tree)


def _desugar_match(tree):
    """``match``/``case`` with class patterns without sub-patterns, literal
    patterns, or-patterns of those, ``as`` captures and the wildcard is the
    isinstance/==/is chain it abbreviates."""
    counter = [0]

    def test_of(pat, subj):
        """(test expression or None for the wildcard, bindings) or raises
        ValueError when the pattern is outside the supported subset."""
        if isinstance(pat, ast.MatchAs):
            if pat.pattern is None:
                return None, ([pat.name] if pat.name else [])
            t, b = test_of(pat.pattern, subj)
            return t, b + ([pat.name] if pat.name else [])
        if isinstance(pat, ast.MatchClass):
            if pat.patterns or pat.kwd_patterns:
                raise ValueError
            return ast.Call(func=ast.Name(id='isinstance', ctx=ast.Load()),
                            args=[subj(), pat.cls], keywords=[]), []
        if isinstance(pat, ast.MatchSingleton):
            return ast.Compare(left=subj(), ops=[ast.Is()],
                               comparators=[ast.Constant(
                                   value=pat.value)]), []
        if isinstance(pat, ast.MatchValue):
            return ast.Compare(left=subj(), ops=[ast.Eq()],
                               comparators=[pat.value]), []
        if isinstance(pat, ast.MatchOr):
            parts = [test_of(p_, subj) for p_ in pat.patterns]
            if any(b for _, b in parts) or any(t is None for t, _ in parts):
                raise ValueError
            if all(isinstance(p_, ast.MatchClass) for p_ in pat.patterns):
                return ast.Call(
                    func=ast.Name(id='isinstance', ctx=ast.Load()),
                    args=[subj(), ast.Tuple(
                        elts=[p_.cls for p_ in pat.patterns],
                        ctx=ast.Load())], keywords=[]), []
            return ast.BoolOp(op=ast.Or(),
                              values=[t for t, _ in parts]), []
        raise ValueError

    class T(ast.NodeTransformer):
        def visit_Match(self, n):
            self.generic_visit(n)
            pre = []
            if isinstance(n.subject, ast.Name):
                sname = n.subject.id
            else:
                counter[0] += 1
                sname = '_match%d' % counter[0]
                pre.append(ast.Assign(
                    targets=[ast.Name(id=sname, ctx=ast.Store())],
                    value=n.subject, lineno=n.lineno))

            def subj():
                return ast.Name(id=sname, ctx=ast.Load())
            try:
                arms = []
                for c in n.cases:
                    t, binds = test_of(c.pattern, subj)
                    body = [ast.Assign(
                        targets=[ast.Name(id=b, ctx=ast.Store())],
                        value=subj(), lineno=n.lineno)
                        for b in binds] + c.body
                    if c.guard is not None:
                        if binds:
                            raise ValueError
                        t = c.guard if t is None else ast.BoolOp(
                            op=ast.And(), values=[t, c.guard])
                    arms.append((t, body))
            except ValueError:
                return n
            node = None
            for t, body in reversed(arms):
                if t is None:
                    node = body
                else:
                    node = [ast.If(test=t, body=body,
                                   orelse=node or [])]
            out = pre + (node or [ast.Pass()])
            for x in out:
                ast.copy_location(x, n)
            return out
    T().visit(tree)
    ast.fix_missing_locations(tree)


def _flatten_mixins(modules, canon_classes):
    """A new class (not one of the confirmed tree) that is the base of
    exactly one class of the package, has no base itself and is mentioned
    nowhere else (imports aside) is a mix-in that merely holds part of that
    class: its members are moved into the subclass (those the subclass does
    not define itself) and the base is dropped.  Globals the moved methods
    read are imported into the subclass's module the way the mix-in's module
    had them."""
    from .deextract import (_free_globals, _module_bindings,
                            _binds_otherwise, _after_imports)
    done = []
    cdefs = {}
    for mod, tree in modules.items():
        for c in tree.body:
            if isinstance(c, ast.ClassDef):
                cdefs.setdefault(c.name, []).append((mod, c))
    for bname, lst in list(cdefs.items()):
        if bname in canon_classes or len(lst) != 1:
            continue
        bmod, B = lst[0]
        if B.bases or B.decorator_list or B.keywords:
            continue
        subs = [(m, c) for n_, l_ in cdefs.items() for m, c in l_
                if any(ast.unparse(b).split('.')[-1] == bname
                       for b in c.bases)]
        if len(subs) != 1:
            continue
        cmod, C = subs[0]
        # mentioned only in imports and in C's bases
        uses = 0
        for mod, tree in modules.items():
            for n in ast.walk(tree):
                if isinstance(n, ast.Name) and n.id == bname:
                    uses += 1
                elif isinstance(n, ast.Attribute) and n.attr == bname:
                    uses += 1
        if uses != 1:
            continue
        members = [m for m in B.body if isinstance(
            m, (ast.FunctionDef, ast.Assign))]
        if any(not isinstance(m, (ast.FunctionDef, ast.Assign, ast.Expr))
               for m in B.body):
            continue
        own = {m.name for m in C.body if isinstance(m, ast.FunctionDef)} | {
            t.id for m in C.body if isinstance(m, ast.Assign)
            for t in m.targets if isinstance(t, ast.Name)}
        home = _module_bindings(modules[bmod], bmod)
        there = _module_bindings(modules[cmod], cmod)
        free = set()
        for m in members:
            if isinstance(m, ast.FunctionDef):
                free |= _free_globals(m)
        ok = True
        for nm in free:
            if nm == C.name and cmod != bmod:
                continue          # the subclass names itself
            if home.get(nm) is None or (
                    there.get(nm) is not None and
                    home.get(nm) != there.get(nm)) or (
                    there.get(nm) is None and _binds_otherwise(
                        modules[cmod], nm)):
                ok = False
        if not ok:
            continue
        for nm in sorted(free):
            if nm != C.name and there.get(nm) is None and \
                    home.get(nm) is not None and cmod != bmod:
                modules[cmod].body.insert(
                    _after_imports(modules[cmod]),
                    ast.parse(home[nm]).body[0])
        moved = [m for m in members if not (
            isinstance(m, ast.FunctionDef) and m.name in own)]
        # after the docstring of C
        at = 1 if (C.body and isinstance(C.body[0], ast.Expr) and isinstance(
            C.body[0].value, ast.Constant)) else 0
        C.body[at:at] = moved
        C.bases = [b for b in C.bases
                   if ast.unparse(b).split('.')[-1] != bname]
        modules[bmod].body.remove(B)
        # the import of the mix-in goes too
        for st in list(modules[cmod].body):
            if isinstance(st, ast.ImportFrom):
                st.names = [a for a in st.names
                            if (a.asname or a.name) != bname]
                if not st.names:
                    modules[cmod].body.remove(st)
        ast.fix_missing_locations(modules[cmod])
        done.append((bname, C.name, len(moved)))
    return done


def _classmethods_to_static(modules):
    """A ``@classmethod`` of a class that has no subclass in the package is
    a static method whose ``cls`` is the class itself."""
    bases = set()
    for tree in modules.values():
        for c in ast.walk(tree):
            if isinstance(c, ast.ClassDef):
                for b in c.bases:
                    bases.add(ast.unparse(b).split('.')[-1])
    for tree in modules.values():
        changed = False
        for c in tree.body:
            if not isinstance(c, ast.ClassDef) or c.name in bases:
                continue
            for m in c.body:
                if not isinstance(m, ast.FunctionDef) or not m.args.args:
                    continue
                decs = [d for d in m.decorator_list if isinstance(
                    d, ast.Name) and d.id == 'classmethod']
                if not decs:
                    continue
                cname = m.args.args[0].arg
                if any(isinstance(x, ast.Name) and x.id == cname and
                       isinstance(x.ctx, (ast.Store, ast.Del))
                       for x in ast.walk(m)):
                    continue
                for x in ast.walk(m):
                    if isinstance(x, ast.Name) and x.id == cname:
                        x.id = c.name
                m.args.args = m.args.args[1:]
                decs[0].id = 'staticmethod'
                changed = True
        if changed:
            ast.fix_missing_locations(tree)


def _normalise_literal_membership(tree):
    """``x in (A, B)`` with a short display of names/constants is
    ``x == A or x == B`` (``not in``: ``x != A and x != B``); x is a name or
    an attribute chain, so evaluating it once per comparison changes
    nothing."""
    def pure(e):
        while isinstance(e, ast.Attribute):
            e = e.value
        return isinstance(e, ast.Name)

    def atom(e):
        return isinstance(e, ast.Constant) or pure(e)

    class T(ast.NodeTransformer):
        def visit_Compare(self, n):
            self.generic_visit(n)
            if len(n.ops) == 1 and isinstance(n.ops[0], (ast.In, ast.NotIn)) \
                    and isinstance(n.comparators[0], (ast.Tuple, ast.List,
                                                      ast.Set)) and \
                    1 <= len(n.comparators[0].elts) <= 6 and pure(n.left) \
                    and all(atom(e) for e in n.comparators[0].elts):
                neg = isinstance(n.ops[0], ast.NotIn)
                parts = [ast.Compare(
                    left=copy.deepcopy(n.left),
                    ops=[ast.NotEq() if neg else ast.Eq()],
                    comparators=[e]) for e in n.comparators[0].elts]
                if len(parts) == 1:
                    return ast.copy_location(parts[0], n)
                return ast.copy_location(ast.BoolOp(
                    op=ast.And() if neg else ast.Or(), values=parts), n)
            return n
    for f in ast.walk(tree):
        if isinstance(f, ast.FunctionDef):
            f.body = [T().visit(b) for b in f.body]
    ast.fix_missing_locations(tree)


def _numbered_body(fn):
    """Dump of a function body (docstring dropped) with its parameters
    renamed p0, p1, ... in order."""
    ren = {a.arg: 'p%d' % i for i, a in enumerate(fn.args.args)}
    body = [b for b in fn.body if not (
        isinstance(b, ast.Expr) and isinstance(b.value, ast.Constant) and
        isinstance(b.value.value, str))]
    mod = copy.deepcopy(ast.Module(body=body, type_ignores=[]))
    for x in ast.walk(mod):
        if isinstance(x, ast.Name) and x.id in ren:
            x.id = ren[x.id]
    return ast.dump(mod)


def _normalise_kwonly(tree):
    """Keyword-only parameters (``def f(a, *, b, c=None)``) are listed as
    ordinary trailing parameters: every call passes them by name, so the
    binding is the same."""
    for f in ast.walk(tree):
        if not isinstance(f, ast.FunctionDef):
            continue
        a = f.args
        if not a.kwonlyargs or a.vararg is not None:
            continue
        dfl = list(a.kw_defaults)
        # positional signature rule: once a default appears, all that
        # follow need one
        have = bool(a.defaults)
        ok = True
        for d in dfl:
            if d is None and have:
                ok = False
            if d is not None:
                have = True
        if not ok:
            continue
        a.args = a.args + a.kwonlyargs
        a.defaults = a.defaults + [d for d in dfl if d is not None]
        a.kwonlyargs = []
        a.kw_defaults = []


def _normalise_filter_loop(tree):
    """``t = [e for e in IT if C]; for v in t: BODY`` with t used nowhere
    else and C a pure class/attribute test is ``for v in IT: if C: BODY``
    (the filter does not depend on what BODY does)."""
    def pure_test(c):
        for x in ast.walk(c):
            if isinstance(x, ast.Call) and not (
                    isinstance(x.func, ast.Name) and
                    x.func.id == 'isinstance') and not (
                    isinstance(x.func, ast.Attribute) and
                    x.func.attr.startswith(('created_', 'has_', 'is_',
                                            'get_'))):
                return False
        return True

    def fix(stmts, fn):
        out = []
        i = 0
        while i < len(stmts):
            st = stmts[i]
            nx = stmts[i + 1] if i + 1 < len(stmts) else None
            if isinstance(st, ast.Assign) and len(st.targets) == 1 and \
                    isinstance(st.targets[0], ast.Name) and isinstance(
                        st.value, ast.ListComp) and \
                    len(st.value.generators) == 1 and isinstance(
                        nx, ast.For) and isinstance(nx.iter, ast.Name) and \
                    nx.iter.id == st.targets[0].id and not nx.orelse:
                g = st.value.generators[0]
                t = st.targets[0].id
                uses = sum(1 for x in ast.walk(fn) if isinstance(
                    x, ast.Name) and x.id == t)
                if uses == 2 and isinstance(g.target, ast.Name) and \
                        isinstance(st.value.elt, ast.Name) and \
                        st.value.elt.id == g.target.id and \
                        isinstance(nx.target, ast.Name) and \
                        not g.is_async and all(pure_test(c)
                                               for c in g.ifs):
                    ren = {g.target.id: nx.target.id}
                    conds = []
                    for c in g.ifs:
                        c = copy.deepcopy(c)
                        for x in ast.walk(c):
                            if isinstance(x, ast.Name) and x.id in ren:
                                x.id = ren[x.id]
                        conds.append(c)
                    body = fix(nx.body, fn)
                    if conds:
                        test = conds[0] if len(conds) == 1 else ast.BoolOp(
                            op=ast.And(), values=conds)
                        body = [ast.If(test=test, body=body, orelse=[])]
                    out.append(ast.copy_location(ast.For(
                        target=nx.target, iter=g.iter, body=body,
                        orelse=[]), nx))
                    i += 2
                    continue
            if isinstance(st, ast.For) and isinstance(
                    st.iter, ast.ListComp) and not st.orelse and \
                    len(st.iter.generators) == 1:
                # the same with the comprehension written in place
                g = st.iter.generators[0]
                if isinstance(g.target, ast.Name) and isinstance(
                        st.iter.elt, ast.Name) and \
                        st.iter.elt.id == g.target.id and isinstance(
                            st.target, ast.Name) and not g.is_async and \
                        all(pure_test(c) for c in g.ifs):
                    ren = {g.target.id: st.target.id}
                    conds = []
                    for c in g.ifs:
                        c = copy.deepcopy(c)
                        for x in ast.walk(c):
                            if isinstance(x, ast.Name) and x.id in ren:
                                x.id = ren[x.id]
                        conds.append(c)
                    body = st.body
                    if conds:
                        test = conds[0] if len(conds) == 1 else ast.BoolOp(
                            op=ast.And(), values=conds)
                        body = [ast.If(test=test, body=body, orelse=[])]
                    st.iter = g.iter
                    st.body = body
            for fld in ('body', 'orelse', 'finalbody'):
                v = getattr(st, fld, None)
                if isinstance(v, list) and v and isinstance(v[0], ast.stmt):
                    setattr(st, fld, fix(v, fn))
            if isinstance(st, ast.Try):
                for h in st.handlers:
                    h.body = fix(h.body, fn)
            out.append(st)
            i += 1
        return out
    for node in ast.walk(tree):
        if isinstance(node, ast.FunctionDef):
            node.body = fix(node.body, node)
    ast.fix_missing_locations(tree)


def _split_tuple_assign(tree):
    """``a, b = (X, Y)`` with names on the left and names/constants on the
    right (none of the targets among them) is ``a = X; b = Y``."""
    def fix(stmts):
        out = []
        for st in stmts:
            for fld in ('body', 'orelse', 'finalbody'):
                v = getattr(st, fld, None)
                if isinstance(v, list) and v and isinstance(v[0], ast.stmt):
                    setattr(st, fld, fix(v))
            if isinstance(st, ast.Try):
                for h in st.handlers:
                    h.body = fix(h.body)
            if isinstance(st, ast.Assign) and len(st.targets) == 1 and \
                    isinstance(st.targets[0], (ast.Tuple, ast.List)) and \
                    isinstance(st.value, (ast.Tuple, ast.List)) and \
                    len(st.targets[0].elts) == len(st.value.elts) and \
                    all(isinstance(t, ast.Name) for t in st.targets[0].elts) \
                    and not any(isinstance(v, ast.Starred)
                                for v in st.value.elts):
                tn = {t.id for t in st.targets[0].elts}
                vn = {x.id for v in st.value.elts for x in ast.walk(v)
                      if isinstance(x, ast.Name)}
                if not (tn & vn) and len(tn) == len(st.targets[0].elts):
                    for t, v in zip(st.targets[0].elts, st.value.elts):
                        out.append(ast.copy_location(ast.Assign(
                            targets=[t], value=v), st))
                    continue
            out.append(st)
        return out
    for node in ast.walk(tree):
        if isinstance(node, ast.FunctionDef):
            node.body = fix(node.body)
    ast.fix_missing_locations(tree)


def _normalise_sentinel_iter(tree):
    """``for x in iter(functools.partial(f, a), s): body`` (or
    ``iter(lambda: E, s)``) is ``while True: x = f(a); if x == s: break;
    body`` - the two-argument form of ``iter`` calls the callable until it
    returns the sentinel."""
    class T(ast.NodeTransformer):
        def visit_For(self, n):
            self.generic_visit(n)
            it = n.iter
            if n.orelse or not (isinstance(it, ast.Call) and isinstance(
                    it.func, ast.Name) and it.func.id == 'iter' and
                    len(it.args) == 2 and not it.keywords):
                return n
            c, sentinel = it.args
            if isinstance(c, ast.Lambda) and not (
                    c.args.args or c.args.vararg or c.args.kwarg or
                    c.args.kwonlyargs):
                call = c.body
            elif isinstance(c, ast.Call) and not c.keywords and c.args and (
                    isinstance(c.func, ast.Attribute) and
                    c.func.attr == 'partial' or isinstance(
                        c.func, ast.Name) and c.func.id == 'partial'):
                call = ast.Call(func=c.args[0], args=list(c.args[1:]),
                                keywords=[])
            else:
                return n
            if not isinstance(sentinel, ast.Constant):
                return n
            body = [ast.Assign(targets=[n.target], value=call,
                               lineno=n.lineno),
                    ast.If(test=ast.Compare(
                        left=copy.deepcopy(n.target), ops=[ast.Eq()],
                        comparators=[sentinel]), body=[ast.Break()],
                        orelse=[])] + n.body
            for x in ast.walk(body[1].test):
                if hasattr(x, 'ctx'):
                    x.ctx = ast.Load()
            return ast.copy_location(ast.While(
                test=ast.Constant(value=True), body=body, orelse=[]), n)
    T().visit(tree)
    ast.fix_missing_locations(tree)


def _normalise_temporaries(tree):
    """Normal form for three purely syntactic variations (applied when a
    module is loaded, so every rule sees one shape):
      ``x = E; return x``            -> ``return E``
      ``c = E; if c: ...``           -> ``if E: ...``
      ``while True: if not C: break; body`` -> ``while C: body``
    when the temporary is assigned once and used exactly there."""
    for f in ast.walk(tree):
        if not isinstance(f, ast.FunctionDef):
            continue
        loads, stores = {}, {}
        for n in ast.walk(f):
            if isinstance(n, ast.Name):
                d = loads if isinstance(n.ctx, ast.Load) else stores
                d[n.id] = d.get(n.id, 0) + 1
        params = {a.arg for a in f.args.posonlyargs + f.args.args +
                  f.args.kwonlyargs}

        def temp(name):
            return loads.get(name, 0) == 1 and stores.get(name, 0) == 1 \
                and name not in params

        def fix(stmts):
            out = []
            i = 0
            while i < len(stmts):
                st = stmts[i]
                for fld in ('body', 'orelse', 'finalbody'):
                    if isinstance(getattr(st, fld, None), list):
                        setattr(st, fld, fix(getattr(st, fld)))
                for h in getattr(st, 'handlers', []) or []:
                    h.body = fix(h.body)
                nxt = stmts[i + 1] if i + 1 < len(stmts) else None
                if isinstance(st, ast.Assign) and len(st.targets) == 1 and \
                        isinstance(st.targets[0], ast.Name) and \
                        temp(st.targets[0].id) and nxt is not None:
                    nm = st.targets[0].id
                    if isinstance(nxt, ast.Return) and isinstance(
                            nxt.value, ast.Name) and nxt.value.id == nm:
                        nxt.value = st.value
                        i += 1
                        continue
                    if isinstance(nxt, ast.If):
                        t = nxt.test
                        if isinstance(t, ast.Name) and t.id == nm:
                            nxt.test = st.value
                            i += 1
                            continue
                        if isinstance(t, ast.UnaryOp) and isinstance(
                                t.op, ast.Not) and isinstance(
                                    t.operand, ast.Name) and \
                                t.operand.id == nm:
                            t.operand = st.value
                            i += 1
                            continue
                if isinstance(st, ast.While) and isinstance(
                        st.test, ast.Constant) and st.test.value is True \
                        and not st.orelse and st.body and isinstance(
                            st.body[0], ast.If) and not st.body[0].orelse \
                        and len(st.body[0].body) == 1 and isinstance(
                            st.body[0].body[0], ast.Break):
                    t = st.body[0].test
                    if isinstance(t, ast.UnaryOp) and isinstance(
                            t.op, ast.Not):
                        st.test = t.operand
                    else:
                        st.test = ast.copy_location(
                            ast.UnaryOp(op=ast.Not(), operand=t), t)
                    st.body = st.body[1:] or [ast.copy_location(
                        ast.Pass(), st)]
                out.append(st)
                i += 1
            return out
        f.body = fix(f.body)
    ast.fix_missing_locations(tree)


def _stores_all_before(fn, y, copy_stmt):
    """Every binding of local ``y`` in ``fn`` is in a statement that comes
    before ``copy_stmt`` in source order, and no loop contains both such a
    binding and ``copy_stmt``: once the copy is made, ``y`` keeps its value
    (only a loop can lead back to an earlier statement)."""
    order = {}
    loops_of = {}
    handler_binds = []

    def walk(node, loops):
        for ch in ast.iter_child_nodes(node):
            if isinstance(ch, (ast.FunctionDef, ast.Lambda, ast.ClassDef)):
                continue
            if isinstance(ch, ast.stmt):
                order[id(ch)] = len(order)
                loops_of[id(ch)] = loops
            if isinstance(ch, ast.ExceptHandler) and ch.name == y:
                handler_binds.append(ch)
            walk(ch, loops + (id(ch),) if isinstance(
                ch, (ast.For, ast.While)) else loops)
    walk(fn, ())
    if id(copy_stmt) not in order or handler_binds:
        return False
    c = order[id(copy_stmt)]
    cl = set(loops_of[id(copy_stmt)])

    def stmt_of(node, target, cur):
        for ch in ast.iter_child_nodes(node):
            if isinstance(ch, (ast.FunctionDef, ast.Lambda, ast.ClassDef)):
                continue
            nxt = ch if isinstance(ch, ast.stmt) else cur
            if ch is target:
                return nxt
            r = stmt_of(ch, target, nxt)
            if r is not None:
                return r
        return None
    for x in ast.walk(fn):
        if isinstance(x, ast.Name) and x.id == y and isinstance(
                x.ctx, (ast.Store, ast.Del)):
            st = stmt_of(fn, x, None)
            if st is None or id(st) not in order:
                return False
            if order[id(st)] >= c:
                return False
            lo = set(loops_of[id(st)])
            if isinstance(st, (ast.For, ast.While)):
                lo.add(id(st))
            if lo & cl:
                return False
    # comprehension variables and nested scopes are not bindings of the
    # function's local
    return True


def _inline_attr_aliases(tree):
    """``x = self._attr`` with x bound once and ``_attr`` only ever rebound in
    a constructor: reads of x are reads of the attribute (a maintainer's
    local alias, e.g. ``counts = self._build_dir_counts``).  Also the
    negated comparisons ``not a in b`` / ``not a is b`` / ``not a == b`` are
    written in their canonical single-operator form."""
    import copy as _copy

    class NC(ast.NodeTransformer):
        MAP = {ast.In: ast.NotIn, ast.Is: ast.IsNot, ast.Eq: ast.NotEq,
               ast.NotIn: ast.In, ast.IsNot: ast.Is, ast.NotEq: ast.Eq}

        def visit_UnaryOp(self, n):
            self.generic_visit(n)
            if isinstance(n.op, ast.Not) and isinstance(
                    n.operand, ast.Compare) and len(n.operand.ops) == 1 and \
                    type(n.operand.ops[0]) in self.MAP:
                c = n.operand
                return ast.copy_location(ast.Compare(
                    left=c.left, ops=[self.MAP[type(c.ops[0])]()],
                    comparators=c.comparators), n)
            return n
    for f in ast.walk(tree):
        if isinstance(f, ast.FunctionDef):
            f.body = [NC().visit(b) for b in f.body]
    rebound = set()
    for c in ast.walk(tree):
        if isinstance(c, ast.ClassDef):
            for m in c.body:
                if isinstance(m, ast.FunctionDef) and m.name != '__init__':
                    for x in ast.walk(m):
                        if isinstance(x, ast.Attribute) and isinstance(
                                x.ctx, (ast.Store, ast.Del)):
                            rebound.add(x.attr)
    for x in ast.walk(tree):
        if isinstance(x, ast.FunctionDef) and x.name != '__init__':
            pass
    for c in ast.walk(tree):
        if not isinstance(c, ast.ClassDef):
            continue
        for m in c.body:
            if not isinstance(m, ast.FunctionDef) or not m.args.args or \
                    m.name == '__init__':
                continue
            self_name = m.args.args[0].arg
            stores = {}
            for n in ast.walk(m):
                if isinstance(n, ast.Name) and isinstance(
                        n.ctx, (ast.Store, ast.Del)):
                    stores[n.id] = stores.get(n.id, 0) + 1
            params = {a.arg for a in m.args.posonlyargs + m.args.args +
                      m.args.kwonlyargs}
            alias = {}
            for n in ast.walk(m):
                if isinstance(n, ast.Assign) and len(n.targets) == 1 and \
                        isinstance(n.targets[0], ast.Name) and isinstance(
                            n.value, ast.Attribute) and isinstance(
                                n.value.value, ast.Name) and \
                        n.value.value.id == self_name and \
                        n.value.attr not in rebound and \
                        stores.get(n.targets[0].id) == 1 and \
                        n.targets[0].id not in params:
                    alias[n.targets[0].id] = (n, n.value)
            # ``x = y`` with x bound once and y a parameter that is never
            # reassigned (or a local bound once by a plain assignment): the
            # temporaries a mechanical inlining introduces for arguments
            plain_once = {}
            for n in ast.walk(m):
                if isinstance(n, ast.Assign) and len(n.targets) == 1 and \
                        isinstance(n.targets[0], ast.Name):
                    plain_once[n.targets[0].id] = plain_once.get(
                        n.targets[0].id, 0) + 1
            for n in ast.walk(m):
                if isinstance(n, ast.Assign) and len(n.targets) == 1 and \
                        isinstance(n.targets[0], ast.Name) and isinstance(
                            n.value, ast.Name) and \
                        stores.get(n.targets[0].id) == 1 and \
                        n.targets[0].id not in params and \
                        n.targets[0].id not in alias:
                    y = n.value.id
                    if (y in params and stores.get(y, 0) == 0) or (
                            y not in params and stores.get(y, 0) == 1 and
                            plain_once.get(y, 0) == 1 and y not in alias):
                        alias[n.targets[0].id] = (n, n.value)
                    elif y not in alias and y != n.targets[0].id and \
                            _stores_all_before(m, y, n):
                        # y is rebound, but only before this copy is made
                        alias[n.targets[0].id] = (n, n.value)
            # ``x = 'rb'`` with x bound once: a named literal (an argument
            # temporary of a mechanical inlining, a key held in a local)
            for n in ast.walk(m):
                if isinstance(n, ast.Assign) and len(n.targets) == 1 and \
                        isinstance(n.targets[0], ast.Name) and isinstance(
                            n.value, ast.Constant) and isinstance(
                            n.value.value, (str, bytes, int, float)) and \
                        not isinstance(n.value.value, bool) and \
                        stores.get(n.targets[0].id) == 1 and \
                        n.targets[0].id not in params and \
                        n.targets[0].id not in alias:
                    alias[n.targets[0].id] = (n, n.value)
            # ``a, b = (x, y)`` element-wise (what is left of a helper that
            # returned a pair)
            for n in ast.walk(m):
                if isinstance(n, ast.Assign) and len(n.targets) == 1 and \
                        isinstance(n.targets[0], (ast.Tuple, ast.List)) and \
                        isinstance(n.value, (ast.Tuple, ast.List)) and \
                        len(n.targets[0].elts) == len(n.value.elts) and all(
                            isinstance(t, ast.Name) and isinstance(
                                v, ast.Name) and stores.get(t.id) == 1 and
                            t.id not in params and t.id not in alias and
                            t.id != v.id and (
                                (v.id in params and
                                 stores.get(v.id, 0) == 0) or
                                (v.id not in params and
                                 stores.get(v.id, 0) == 1 and
                                 plain_once.get(v.id, 0) == 1))
                            for t, v in zip(n.targets[0].elts,
                                            n.value.elts)):
                    for t, v in zip(n.targets[0].elts, n.value.elts):
                        alias[t.id] = (n, v)
            if not alias:
                continue
            # chains x = y, z = x resolve to the root
            for _ in range(4):
                for k, (an, av) in list(alias.items()):
                    if isinstance(av, ast.Name) and av.id in alias:
                        alias[k] = (an, alias[av.id][1])

            class T(ast.NodeTransformer):
                def visit_Assign(self, n):
                    if any(n is a for a, _ in alias.values()):
                        return None
                    self.generic_visit(n)
                    return n

                def visit_Name(self, n):
                    if isinstance(n.ctx, ast.Load) and n.id in alias:
                        return ast.copy_location(
                            _copy.deepcopy(alias[n.id][1]), n)
                    return n
            new_body = []
            for b in m.body:
                r = T().visit(b)
                if r is not None:
                    new_body.append(r)
            m.body = new_body or [ast.Pass()]
    ast.fix_missing_locations(tree)


# class-level constants of the confirmed tree that the rules refer to by
# name: a module-level constant of the same name (a class constant moved out
# of its class) is not folded
_NAMED_CONSTANTS = {'_CACHE_FILE_VERSION', '_OPERATION_VERSIONS', '_SOFTWARE',
                    '_IS_WINDOWS', 'OPERATIONS'}


def _fold_module_constants(tree):
    """A module-level name bound once to a string/number literal and never
    rebound is replaced by the literal where it is read (JSON key names and
    type tags turned into named constants)."""
    binds = {}
    for st in tree.body:
        if isinstance(st, ast.Assign) and len(st.targets) == 1 and \
                isinstance(st.targets[0], ast.Name):
            binds.setdefault(st.targets[0].id, []).append(st.value)
    for k, v in list(binds.items()):
        # ``X = SomeEnum.MEMBER.name`` is the literal 'MEMBER'
        if len(v) == 1 and isinstance(v[0], ast.Attribute) and \
                v[0].attr == 'name' and isinstance(
                    v[0].value, ast.Attribute) and \
                v[0].value.attr.isupper() and isinstance(
                    v[0].value.value, ast.Name) and \
                v[0].value.value.id[:1].isupper():
            binds[k] = [ast.Constant(value=v[0].value.attr)]
    consts = {k: v[0] for k, v in binds.items()
              if len(v) == 1 and isinstance(v[0], ast.Constant) and
              isinstance(v[0].value, (str, int, float)) and
              not isinstance(v[0].value, bool) and
              k not in _NAMED_CONSTANTS and k.lstrip('_')[:1].isupper()}
    if not consts:
        return
    for n in ast.walk(tree):
        if isinstance(n, ast.Name) and isinstance(
                n.ctx, (ast.Store, ast.Del)) and n.id in consts:
            # rebound somewhere (other than its one module-level binding)
            pass
    stores = {}
    for n in ast.walk(tree):
        if isinstance(n, ast.Name) and isinstance(n.ctx, (ast.Store,
                                                          ast.Del)):
            stores[n.id] = stores.get(n.id, 0) + 1
    consts = {k: v for k, v in consts.items() if stores.get(k) == 1}

    class T(ast.NodeTransformer):
        def visit_Name(self, n):
            if isinstance(n.ctx, ast.Load) and n.id in consts:
                return ast.copy_location(
                    ast.Constant(value=consts[n.id].value), n)
            return n
    for f in ast.walk(tree):
        if isinstance(f, ast.FunctionDef):
            f.body = [T().visit(b) for b in f.body]
    ast.fix_missing_locations(tree)


def _normalise_del(tree):
    """``del X[k]`` is ``X.pop(k)`` (same effect and same KeyError /
    IndexError for a dict or a list); the rules know the method form."""
    class T(ast.NodeTransformer):
        def visit_Delete(self, n):
            if len(n.targets) == 1 and isinstance(
                    n.targets[0], ast.Subscript) and not isinstance(
                        n.targets[0].slice, (ast.Slice, ast.Tuple)):
                t = n.targets[0]
                v = copy.deepcopy(t.value)
                for x in ast.walk(v):
                    if hasattr(x, 'ctx'):
                        x.ctx = ast.Load()
                k = copy.deepcopy(t.slice)
                return ast.copy_location(ast.Expr(value=ast.Call(
                    func=ast.Attribute(value=v, attr='pop',
                                       ctx=ast.Load()),
                    args=[k], keywords=[])), n)
            return n
    T().visit(tree)
    ast.fix_missing_locations(tree)


def _namedtuple_class(name, st):
    """``N = namedtuple('N', [fields])`` as a synthetic class whose
    initialiser stores its parameters in attributes of the same names."""
    v = st.value
    if not (isinstance(v, ast.Call) and len(v.args) >= 2 and
            ast.unparse(v.func).split('.')[-1] == 'namedtuple'):
        return None
    fl = v.args[1]
    if isinstance(fl, (ast.List, ast.Tuple)) and all(
            isinstance(e, ast.Constant) and isinstance(e.value, str)
            for e in fl.elts):
        fields = [e.value for e in fl.elts]
    elif isinstance(fl, ast.Constant) and isinstance(fl.value, str):
        fields = fl.value.replace(',', ' ').split()
    else:
        return None
    if not fields or not all(f.isidentifier() for f in fields):
        return None
    src = 'class %s:\n    def __init__(self, %s):\n%s' % (
        name, ', '.join(fields),
        ''.join('        self.%s = %s\n' % (f, f) for f in fields))
    cd = ast.parse(src).body[0]
    for n in ast.walk(cd):
        if hasattr(n, 'lineno'):
            n.lineno = n.end_lineno = st.lineno
            n.col_offset = n.end_col_offset = 0
    return cd


class Program:
    """All modules directly under <repo>/file_builder (tests and samples
    are user-side code and are excluded)."""

    def __init__(self, repo, anchors='default'):
        self.repo = repo
        self.renamed = {}
        self.pkgdir = os.path.join(repo, PKG)
        if not os.path.isdir(self.pkgdir):
            raise AnalysisError('package directory missing: ' + self.pkgdir)
        self.modules = {}
        self.sources = {}
        self.classes = {}
        self.funcs = {}
        self.imports = {}      # module -> {local name: dotted}
        self.module_globals = {}   # module -> {name: value ast}
        self.module_funcs = {}     # module -> {source name: Func}
        self.excluded = []
        for fn in sorted(os.listdir(self.pkgdir)):
            p = os.path.join(self.pkgdir, fn)
            if os.path.isdir(p):
                if fn != '__pycache__':
                    self.excluded.append(PKG + '/' + fn + '/')
                continue
            if not fn.endswith('.py'):
                continue
            mod = fn[:-3]
            src = open(p, encoding='utf-8').read()
            try:
                tree = ast.parse(src, filename=p)
            except SyntaxError as e:
                raise AnalysisError('cannot parse %s: %s' % (p, e))
            self.modules[mod] = tree
            self.sources[mod] = src
            self._relfile = getattr(self, '_relfile', {})
            self._relfile[mod] = PKG + '/' + fn
        if anchors == 'default':
            anchors = os.path.join(os.path.dirname(os.path.dirname(
                os.path.abspath(__file__))), 'anchors.json')
        canon = None
        if anchors and os.path.exists(anchors):
            canon = json.load(open(anchors))['functions']
        self.flattened = []
        if canon is not None:
            self.flattened = _flatten_mixins(self.modules, {
                q.split('.')[0] for q in canon if '.' in q})
        _classmethods_to_static(self.modules)
        for mod, tree in self.modules.items():
            self._load_module(mod, tree, self._relfile[mod])
        self.excluded.append('samples/')
        self.deextracted = []
        self._finish(canon)
        if canon is not None:
            # helpers that are new relative to the confirmed tree are folded
            # back into their callers where that is a syntactic rewrite;
            # then the model is rebuilt from the rewritten modules
            from .deextract import deextract
            api = set()
            for st in getattr(self.modules.get('__init__'), 'body', []):
                if isinstance(st, ast.ImportFrom):
                    api |= {a.asname or a.name for a in st.names}
            rep = deextract(self.modules, set(canon),
                            set(self.renamed.values()), api)
            if rep:
                self.deextracted = rep
                self.classes, self.funcs, self.imports = {}, {}, {}
                self.module_globals, self.module_funcs = {}, {}
                self.renamed = {}
                for mod, tree in self.modules.items():
                    self._load_module(mod, tree, self._relfile[mod])
                self._finish(canon)
        self._infer()

    def _finish(self, canon):
        self._parents = {}
        for f in self.funcs.values():
            for n in ast.walk(f.node):
                for c in ast.iter_child_nodes(n):
                    self._parents[id(c)] = n
        self._check_supported()
        if canon is not None:
            self._apply_attr_aliases(canon)
            self._apply_aliases(canon)

    # ------------------------------------------------------------------
    def _load_module(self, mod, tree, relfile):
        imps = {}
        globs = {}
        _inline_lock_decorators(tree)
        from .deextract import inline_nested_defs
        inline_nested_defs(tree)
        _normalise_kwonly(tree)
        _desugar_match(tree)
        _inline_simple_properties(tree)
        _hoist_walrus(tree)
        _split_tuple_assign(tree)
        _normalise_sentinel_iter(tree)
        _normalise_filter_loop(tree)
        _normalise_literal_membership(tree)
        _normalise_acquire_release(tree)
        _normalise_temporaries(tree)
        _inline_attr_aliases(tree)
        _fold_module_constants(tree)
        _normalise_del(tree)
        for st in tree.body:
            if isinstance(st, ast.Import):
                for a in st.names:
                    imps[a.asname or a.name.split('.')[0]] = (
                        a.name if a.asname else a.name.split('.')[0])
            elif isinstance(st, ast.ImportFrom):
                base = ('pkg:' if st.level else '') + (st.module or '')
                for a in st.names:
                    if st.level:
                        imps[a.asname or a.name] = 'pkg:' + a.name
                    else:
                        imps[a.asname or a.name] = base + '.' + a.name
            elif isinstance(st, ast.ClassDef):
                c = Cls(mod, st)
                self.classes[c.name] = c
                for m in st.body:
                    if isinstance(m, ast.FunctionDef):
                        f = Func(mod, c.name, m)
                        f.file = relfile
                        c.methods[m.name] = f
                        self.funcs[f.qualname] = f
            elif isinstance(st, ast.FunctionDef):
                f = Func(mod, None, st)
                f.file = relfile
                self.funcs[f.qualname] = f
                self.module_funcs.setdefault(mod, {})[st.name] = f
            elif isinstance(st, ast.Assign):
                for t in st.targets:
                    if isinstance(t, ast.Name):
                        globs[t.id] = st.value
                        cd = _namedtuple_class(t.id, st)
                        if cd is not None:
                            c = Cls(mod, cd)
                            c.synthetic = True
                            self.classes[c.name] = c
                            m = cd.body[0]
                            f = Func(mod, c.name, m)
                            f.file = relfile
                            c.methods[m.name] = f
                            self.funcs[f.qualname] = f
        # imports inside functions are treated like module-level ones, so
        # that a locally imported primitive cannot evade classification
        for st in ast.walk(tree):
            if isinstance(st, ast.Import) and st not in tree.body:
                for a in st.names:
                    imps.setdefault(
                        a.asname or a.name.split('.')[0],
                        a.name if a.asname else a.name.split('.')[0])
            elif isinstance(st, ast.ImportFrom) and st not in tree.body \
                    and not st.level:
                for a in st.names:
                    imps.setdefault(a.asname or a.name,
                                    (st.module or '') + '.' + a.name)
        self.imports[mod] = imps
        self.module_globals[mod] = globs

    def _check_supported(self):
        # generators are accepted: the body of a generator is analysed like
        # a function that is run when the iteration starts (a traversal
        # helper); its yields are plain expression statements
        bad = (ast.AsyncFunctionDef, ast.AsyncFor, ast.AsyncWith, ast.Await,
               ast.Global, ast.Nonlocal)
        if hasattr(ast, 'Match'):
            bad = bad + (ast.Match,)
        for f in self.funcs.values():
            for n in ast.walk(f.node):
                if isinstance(n, bad):
                    raise AnalysisError(
                        'unsupported construct %s in %s:%d' % (
                            type(n).__name__, f.file, n.lineno))
                if (isinstance(n, (ast.FunctionDef, ast.ClassDef)) and
                        n is not f.node):
                    raise AnalysisError(
                        'nested def/class in %s:%d' % (f.file, n.lineno))

    # ------------------------------------------------------------------
    def _apply_attr_aliases(self, canon):
        """Recognise renamed private data attributes: a canonical attribute
        of a class (one its constructor used on the confirmed tree) that no
        method of the class mentions any more is matched with a new
        attribute that the constructor assigns now and that is used by
        (nearly) the same methods; the attribute nodes are renamed to the
        canonical name when the module is loaded, so every rule keeps
        working and positions stay those of the source."""
        self.renamed_attrs = {}
        # an old name that is still mentioned anywhere (a stale site of an
        # incomplete rename!) is not "renamed"
        everywhere = {n.attr for tree in self.modules.values()
                      for n in ast.walk(tree) if isinstance(n, ast.Attribute)}
        for cname, cls in self.classes.items():
            init = cls.methods.get('__init__')
            cinit = canon.get(cname + '.__init__')
            if init is None or cinit is None:
                continue
            now_users = {}
            for m in cls.methods.values():
                for n in ast.walk(m.node):
                    if isinstance(n, ast.Attribute) and isinstance(
                            n.value, ast.Name) and n.value.id == m.self_name:
                        now_users.setdefault(n.attr, set()).add(m.name)
            stored_now = {n.attr for a in ast.walk(init.node)
                          if isinstance(a, ast.Assign) for n in a.targets
                          if isinstance(n, ast.Attribute) and isinstance(
                              n.value, ast.Name) and
                          n.value.id == init.self_name}
            old_users = {}
            for q, fp in canon.items():
                if fp.get('cls') == cname:
                    for a in fp.get('attrs', []):
                        old_users.setdefault(a, set()).add(q.split('.')[-1])
            canon_attrs = [a for a in cinit.get('attrs', [])
                           if a.startswith('_') and a not in cls.methods]
            missing = [a for a in canon_attrs
                       if a not in now_users and a not in everywhere]
            new = [a for a in stored_now
                   if a.startswith('_') and a not in old_users]
            if not missing or not new:
                continue
            for a in missing:
                scored = []
                for b in new:
                    ua, ub = old_users.get(a, set()), now_users.get(b, set())
                    j = len(ua & ub) / max(1, len(ua | ub))
                    scored.append((j, b))
                scored.sort(reverse=True)
                if scored and scored[0][0] >= 0.5 and (
                        len(scored) == 1 or
                        scored[0][0] - scored[1][0] >= 0.15):
                    b = scored[0][1]
                    if b in self.renamed_attrs.values():
                        continue
                    self.renamed_attrs[a] = b
        if not self.renamed_attrs:
            return
        back = {b: a for a, b in self.renamed_attrs.items()}
        for tree in self.modules.values():
            for n in ast.walk(tree):
                if isinstance(n, ast.Attribute) and n.attr in back:
                    n.attr = back[n.attr]

    def _apply_aliases(self, canon):
        """Recognise renamed functions: a canonical function that is missing
        is matched, inside its class, with a function whose name is new and
        whose structural fingerprint is (uniquely) close; the Func then
        answers to its canonical name.  Everything else about resolution
        keeps using the names in the source."""
        missing = [q for q in canon if q not in self.funcs]
        if not missing:
            return
        extra = [q for q in self.funcs if q not in canon]
        fps = {q: fingerprint(self, self.funcs[q]) for q in extra}
        # names that changed on either side say nothing about similarity
        # (renamed functions call each other under their new names)
        unstable = {q.split('.')[-1] for q in missing} | \
            {q.split('.')[-1] for q in extra}
        pairs = []
        for m in missing:
            cm = dict(canon[m])
            cm['intl'] = [n for n in cm['intl'] if n not in unstable]
            for x in extra:
                fx = dict(fps[x])
                moved = (fx['cls'] is None and cm['static'] and
                         self.funcs[x].module ==
                         self.classes[cm['cls']].module
                         if cm['cls'] in self.classes else False)
                if not moved and (fx['cls'] != cm['cls'] or
                                  fx['static'] != cm['static']):
                    continue
                fx['intl'] = [n for n in fx['intl'] if n not in unstable]
                pairs.append((_similarity(cm, fx), m, x))
        pairs.sort(reverse=True)
        used_m, used_x = set(), set()

        def adopt(m, x):
            used_m.add(m)
            used_x.add(x)
            fobj = self.funcs.pop(x)
            self.renamed[m] = x
            fobj.qualname = m
            fobj.source_name = fobj.name
            fobj.name = m.split('.')[-1]
            if fobj.cls is None and '.' in m:
                # a static method that became a module-level function:
                # it still answers to its class-qualified name
                fobj.cls = m.split('.')[0]
                fobj.is_static = True
                c1 = self.classes.get(fobj.cls)
                if c1 is not None and fobj.name not in c1.methods:
                    # ``Cls.f(...)`` keeps resolving (a facade
                    # ``f = staticmethod(f)`` in the class, or none at all)
                    c1.methods[fobj.name] = fobj
            self.funcs[m] = fobj
            # call sites and syntactic matches see the canonical method name
            # when the new name is used for nothing else
            new, old = x.split('.')[-1], m.split('.')[-1]
            from .deextract import _BUILTIN_METHODS
            if new != old and new not in _BUILTIN_METHODS and \
                    new not in CONTAINER_METHODS and not any(
                    q.split('.')[-1] in (new, old) for q in self.funcs
                    if q != m):
                for tree in self.modules.values():
                    for n in ast.walk(tree):
                        if isinstance(n, ast.Attribute) and n.attr == new:
                            n.attr = old
                c0 = self.classes.get(x.split('.')[0]) if '.' in x else None
                if c0 is not None and new in c0.methods:
                    c0.methods[old] = c0.methods[new]
        for sc, m, x in pairs:
            if m in used_m or x in used_x:
                continue
            rivals = [s2 for s2, m2, x2 in pairs
                      if (m2 == m and x2 != x and x2 not in used_x) or
                      (x2 == x and m2 != m and m2 not in used_m)]
            second = max(rivals) if rivals else 0.0
            if sc >= 0.72 and sc - second >= 0.12:
                adopt(m, x)
        # second pass: a thin wrapper whose signature changed with its name
        # (same class, same internal callees and attributes, one candidate)
        for m in missing:
            if m in used_m:
                continue
            cm = canon[m]
            ci = sorted(n for n in cm['intl'] if n not in unstable)
            cands = []
            for x in extra:
                if x in used_x or x not in self.funcs:
                    continue
                fx = fps[x]
                if fx['cls'] != cm['cls'] or fx['static'] != cm['static']:
                    continue
                xi = sorted(n for n in fx['intl'] if n not in unstable)
                if ci and ci == xi and set(cm['attrs']) == set(fx['attrs']):
                    cands.append(x)
            if len(cands) == 1:
                adopt(m, cands[0])
        # third pass: a method moved verbatim to another class
        for m in missing:
            if m in used_m:
                continue
            cm = dict(canon[m])
            cm['intl'] = [n for n in cm['intl'] if n not in unstable]
            sc_x = []
            for x in extra:
                if x in used_x or x not in self.funcs:
                    continue
                fx = dict(fps[x])
                if fx['cls'] == cm['cls'] or fx['cls'] is None:
                    continue
                fx['intl'] = [n for n in fx['intl'] if n not in unstable]
                fx2 = dict(fx, cls=cm['cls'], attrs=cm['attrs'])
                if _jac(cm['ext'], fx['ext']) >= 0.9 and \
                        _jac(cm['intl'], fx['intl']) >= 0.9 and \
                        cm['kinds'] == fx['kinds'] and \
                        cm['nparams'] == fx['nparams'] and len(
                            cm['ext']) + len(cm['intl']) >= 6:
                    sc_x.append(x)
            if len(sc_x) == 1:
                adopt(m, sc_x[0])
                continue
            # ... or a small one whose body is literally the same once the
            # parameters are numbered (``Cache.key(op)`` ->
            # ``Record.key(self)``)
            if m not in self._canon_bodies(canon):
                continue
            same = [x for x in extra if x not in used_x and x in self.funcs
                    and _numbered_body(self.funcs[x].node) ==
                    self._canon_bodies(canon)[m]]
            if len(same) == 1:
                adopt(m, same[0])

    def _canon_bodies(self, canon):
        return {m: fp['body'] for m, fp in canon.items()
                if isinstance(fp, dict) and fp.get('body')}

    def parent(self, node):
        return self._parents.get(id(node))

    def _param_callees(self, f, name, depth=0):
        if depth > 3 or f.is_public:
            return []
        key = ('pc', f.qualname, name)
        memo = self.__dict__.setdefault('_pc_memo', {})
        if key in memo:
            return memo[key]
        memo[key] = []
        out = []
        sites = self._raw_callers().get(f.qualname, [])
        if not sites:
            return []
        for caller, call in sites:
            a = self.bind_args(call, f).get(name)
            if a is None or isinstance(a, list):
                memo[key] = []
                return []
            got = []
            if isinstance(a, ast.Attribute):
                for rt in self.type_of(a.value, caller):
                    if rt in self.classes:
                        m = self.lookup_method(rt, a.attr)
                        if m:
                            got.append(m)
            elif isinstance(a, ast.Name) and a.id in caller.all_param_names():
                got = [g for g in self._param_callees(caller, a.id,
                                                      depth + 1)]
            if not got:
                memo[key] = []
                return []
            for g in got:
                if g not in out:
                    out.append(g)
        memo[key] = out
        return out

    def _raw_callers(self):
        """callee qualname -> [(caller, call)] by syntactic method name
        (used before/while resolution is computed): calls ``x.name(...)`` /
        ``name(...)`` whose attribute or name equals the function's."""
        if getattr(self, '_rawc', None) is None:
            byname = {}
            for g in self.funcs.values():
                byname.setdefault(g.name, []).append(g)
            rc = {}
            for f in self.funcs.values():
                for n in ast.walk(f.node):
                    if not isinstance(n, ast.Call):
                        continue
                    nm = n.func.attr if isinstance(
                        n.func, ast.Attribute) else (
                            n.func.id if isinstance(n.func, ast.Name)
                            else None)
                    for g in byname.get(nm, []):
                        rc.setdefault(g.qualname, []).append((f, n))
            self._rawc = rc
        return self._rawc

    def single_local_def(self, f, name):
        """The value of the only assignment to local ``name`` in f (None if
        it is assigned more than once or in another way)."""
        vals = []
        for n in ast.walk(f.node):
            if isinstance(n, ast.Assign):
                for t in n.targets:
                    for x in ast.walk(t):
                        if isinstance(x, ast.Name) and x.id == name and \
                                isinstance(x.ctx, ast.Store):
                            vals.append(n.value if t is x else None)
            elif isinstance(n, (ast.AugAssign, ast.For, ast.NamedExpr,
                                ast.comprehension)):
                tgt = n.target
                for x in ast.walk(tgt):
                    if isinstance(x, ast.Name) and x.id == name and \
                            isinstance(x.ctx, ast.Store):
                        vals.append(None)
            elif isinstance(n, ast.With):
                for it in n.items:
                    if it.optional_vars is not None:
                        for x in ast.walk(it.optional_vars):
                            if isinstance(x, ast.Name) and x.id == name:
                                vals.append(None)
            elif isinstance(n, ast.ExceptHandler) and n.name == name:
                vals.append(None)
        if len(vals) == 1:
            return vals[0]
        return None

    def const_value(self, e, f, depth=0):
        """The literal (str/int/bool/None) that expression ``e`` denotes in
        function ``f`` through named constants: a local bound once, a
        module-level name or a class-level attribute (``Cls.X``, ``self.X``,
        ``cls.X``) that is a literal.  Returns the ast.Constant or None."""
        if depth > 4 or e is None:
            return None
        if isinstance(e, ast.Constant):
            return e
        if isinstance(e, ast.Attribute) and e.attr == 'name' and \
                isinstance(e.value, ast.Attribute) and \
                e.value.attr.isupper() and isinstance(
                    e.value.value, ast.Name) and \
                e.value.value.id[:1].isupper() and \
                e.value.value.id not in ('self', 'cls'):
            # ``SomeEnum.MEMBER.name`` is the literal 'MEMBER'
            return ast.Constant(value=e.value.attr)
        if isinstance(e, ast.Name):
            if f is not None and self.is_local(f, e.id) and \
                    e.id not in f.all_param_names():
                return self.const_value(self.single_local_def(f, e.id), f,
                                        depth + 1)
            if f is not None:
                v = self.module_globals.get(f.module, {}).get(e.id)
                if v is not None:
                    return self.const_value(v, None, depth + 1)
            return None
        if isinstance(e, ast.Attribute) and isinstance(e.value, ast.Name):
            owners = []
            if e.value.id in self.classes:
                owners = [e.value.id]
            elif f is not None and f.cls and e.value.id in (
                    f.self_name, 'cls'):
                owners = self.mro(f.cls)
            for c in owners:
                v = self.classes[c].class_attrs.get(e.attr)
                if v is not None:
                    return self.const_value(v, None, depth + 1)
        return None

    def enclosing_func(self, node):
        n = node
        while n is not None:
            n = self._parents.get(id(n))
            if isinstance(n, ast.FunctionDef):
                for f in self.funcs.values():
                    if f.node is n:
                        return f
                return None
        return None

    def mro(self, cname):
        out = []
        todo = [cname]
        while todo:
            c = todo.pop(0)
            if c in out or c not in self.classes:
                continue
            out.append(c)
            todo.extend(self.classes[c].bases)
        return out

    def subclasses(self, cname, strict=False):
        r = [c for c in self.classes if cname in self.mro(c)]
        if strict:
            r = [c for c in r if c != cname]
        return r

    def lookup_method(self, cname, mname):
        for c in self.mro(cname):
            f = self.classes[c].methods.get(mname)
            if f:
                return f
        return None

    def methods_named(self, mname):
        return [c.methods[mname] for c in self.classes.values()
                if mname in c.methods]

    # ------------------------------------------------------------------
    # dotted names
    def dotted(self, expr, func, module=None):
        """Resolve a Name/Attribute chain rooted at an import or package
        class: 'os.path.isfile', 'pkg:Cache', 'pkg:Cache.subbuild_key'.
        None if the root is a local/self."""
        parts = []
        e = expr
        while isinstance(e, ast.Attribute):
            parts.append(e.attr)
            e = e.value
        if not isinstance(e, ast.Name):
            return None
        root = e.id
        if func is not None and self.is_local(func, root):
            return None
        if module is None and func is not None:
            module = func.module
        imps = self.imports.get(module, {})
        if root in imps:
            base = imps[root]
        elif root in self.classes and (
                module is None or self.classes[root].module == module):
            base = 'pkg:' + root
        elif root in self.module_funcs.get(module, {}):
            base = 'pkgf:%s:%s' % (module, root)
        elif root in self.module_globals.get(module, {}):
            base = 'glob:' + root
        elif hasattr(builtins, root):
            base = 'builtins.' + root
        else:
            return None
        return '.'.join([base] + list(reversed(parts)))

    def is_local(self, func, name):
        if name in func.all_param_names() or name == func.self_name:
            return True
        return name in self.local_names(func)

    def local_names(self, func):
        c = getattr(func, '_locals', None)
        if c is None:
            c = set()
            for n in ast.walk(func.node):
                if isinstance(n, ast.Name) and isinstance(
                        n.ctx, (ast.Store, ast.Del)):
                    c.add(n.id)
                elif isinstance(n, ast.ExceptHandler) and n.name:
                    c.add(n.name)
            func._locals = c
        return c

    # ------------------------------------------------------------------
    # type inference (flow-insensitive, fixed point)
    EXT_CTORS = {
        'threading.Lock': 'ext:Lock', 'threading.RLock': 'ext:Lock',
        'contextlib.nullcontext': 'ext:nullcontext',
        'builtins.open': 'ext:file', 'gzip.open': 'ext:file',
        'hashlib.sha256': 'ext:hash', 'pathlib.Path': 'ext:Path',
        'builtins.set': 'ext:set', 'builtins.list': 'ext:list',
        'builtins.dict': 'ext:dict', 'builtins.sorted': 'ext:list',
        'builtins.tuple': 'ext:tuple', 'builtins.str': 'ext:str',
        'os.stat': 'ext:stat', 'logging.getLogger': 'ext:logger',
    }

    def _infer(self):
        self.attr_types = {}     # (class, attr) -> set
        self.param_types = {}    # (qualname, param) -> set
        self.local_types = {}    # (qualname, name) -> set
        self.ret_types = {}      # qualname -> set
        # element types of containers - tracked for namedtuple-like value
        # objects only: (class, attr) / ('local', qualname, name) -> set
        self.elem_types = {}
        self._assigns = {}
        for f in self.funcs.values():
            self._assigns[f.qualname] = self._collect_assigns(f)
        for _ in range(12):
            changed = False
            for f in self.funcs.values():
                changed |= self._infer_func(f)
            if not changed:
                break

    def _collect_assigns(self, f):
        out = []   # (target ast, value ast or ('iter', ast) / ('with', ast))
        for n in ast.walk(f.node):
            if isinstance(n, ast.Assign):
                for t in n.targets:
                    if isinstance(t, (ast.Tuple, ast.List)) and isinstance(
                            n.value, (ast.Tuple, ast.List)) and len(
                                t.elts) == len(n.value.elts):
                        for te, ve in zip(t.elts, n.value.elts):
                            out.append((te, ve))
                    else:
                        out.append((t, n.value))
            elif isinstance(n, ast.AnnAssign) and n.value is not None:
                out.append((n.target, n.value))
            elif isinstance(n, ast.With):
                for it in n.items:
                    if it.optional_vars is not None:
                        out.append((it.optional_vars, ('with', it.context_expr)))
        return out

    def _add(self, table, key, types):
        s = table.setdefault(key, set())
        n = len(s)
        s |= types
        return len(s) != n

    def _infer_func(self, f):
        changed = False
        q = f.qualname
        for tgt, val in self._assigns[q]:
            if isinstance(val, tuple):
                ts = self.type_of(val[1], f)
                # with C() as x: x has C's type when __enter__ returns self
                ts2 = set()
                for t in ts:
                    if t in self.classes:
                        ent = self.lookup_method(t, '__enter__')
                        if ent is not None:
                            ts2.add(t)
                    else:
                        ts2.add(t)
                ts = ts2
            else:
                ts = self.type_of(val, f)
            if not ts:
                continue
            if isinstance(tgt, ast.Name):
                changed |= self._add(self.local_types, (q, tgt.id), ts)
            elif (isinstance(tgt, ast.Attribute) and
                  isinstance(tgt.value, ast.Name)):
                for rt in self.type_of(tgt.value, f):
                    if rt in self.classes:
                        changed |= self._add(
                            self.attr_types, (rt, tgt.attr), ts)
        changed |= self._infer_elems(f)
        for n in ast.walk(f.node):
            if isinstance(n, ast.Return) and n.value is not None:
                ts = self.type_of(n.value, f)
                if ts:
                    changed |= self._add(self.ret_types, q, ts)
            elif isinstance(n, ast.Call):
                for g in self.resolve_call(n, f):
                    if isinstance(g, Func):
                        changed |= self._flow_args(n, f, g)
        return changed

    def _synthetic(self, ts):
        return {t for t in ts
                if getattr(self.classes.get(t), 'synthetic', False)}

    def _elem_keys(self, x, f):
        if isinstance(x, ast.Name):
            return [('local', f.qualname, x.id)]
        if isinstance(x, ast.Attribute):
            return [(c, x.attr) for rt in self.type_of(x.value, f)
                    if rt in self.classes for c in [rt]]
        return []

    def elem_of(self, e, f):
        """Value-object classes the elements of container ``e`` can be."""
        ts = set()
        if isinstance(e, (ast.Name, ast.Attribute)):
            for k in self._elem_keys(e, f):
                ts |= self.elem_types.get(k, set())
            if isinstance(e, ast.Attribute):
                for rt in self.type_of(e.value, f):
                    for c in self.mro(rt) if rt in self.classes else []:
                        ts |= self.elem_types.get((c, e.attr), set())
        elif isinstance(e, ast.Call):
            if isinstance(e.func, ast.Name) and e.func.id in (
                    'list', 'sorted', 'reversed', 'tuple', 'set',
                    'iter') and e.args:
                ts |= self.elem_of(e.args[0], f)
            elif isinstance(e.func, ast.Attribute) and e.func.attr in (
                    'values', 'copy'):
                ts |= self.elem_of(e.func.value, f)
        elif isinstance(e, (ast.List, ast.Tuple, ast.Set)):
            for x in e.elts:
                ts |= self._synthetic(self.type_of(x, f))
        return ts

    def _infer_elems(self, f):
        if not any(getattr(c, 'synthetic', False)
                   for c in self.classes.values()):
            return False
        changed = False
        q = f.qualname
        for n in ast.walk(f.node):
            if isinstance(n, ast.Call) and isinstance(
                    n.func, ast.Attribute) and n.func.attr in (
                        'append', 'add') and len(n.args) == 1:
                ts = self._synthetic(self.type_of(n.args[0], f))
                for k in self._elem_keys(n.func.value, f) if ts else []:
                    changed |= self._add(self.elem_types, k, ts)
            elif isinstance(n, ast.Assign):
                for t in n.targets:
                    if isinstance(t, ast.Subscript):
                        ts = self._synthetic(self.type_of(n.value, f))
                        for k in self._elem_keys(t.value, f) if ts else []:
                            changed |= self._add(self.elem_types, k, ts)
                    elif isinstance(t, (ast.Name, ast.Attribute)):
                        ts = self.elem_of(n.value, f)
                        for k in self._elem_keys(t, f) if ts else []:
                            changed |= self._add(self.elem_types, k, ts)
            elif isinstance(n, (ast.For, ast.comprehension)):
                ts = self.elem_of(n.iter, f)
                if ts and isinstance(n.target, ast.Name):
                    changed |= self._add(self.local_types,
                                         (q, n.target.id), ts)
        return changed

    def bind_args(self, call, g):
        """Map parameter name -> argument expr for a call of g.  Handles the
        repo's one star idiom ``*(xs + [a, b])``: the trailing list display
        binds the last parameters."""
        out = {}
        params = list(g.params)
        i = 0
        for a in call.args:
            if isinstance(a, ast.Starred):
                v = a.value
                if isinstance(v, ast.Name):
                    cf = self.enclosing_func(call)
                    if cf is not None and v.id not in cf.all_param_names():
                        v = self.single_local_def(cf, v.id) or v
                if (isinstance(v, ast.BinOp) and isinstance(v.op, ast.Add) and
                        isinstance(v.right, ast.List)):
                    k = len(v.right.elts)
                    for j, e in enumerate(v.right.elts):
                        idx = len(params) - k + j
                        if 0 <= idx < len(params):
                            out[params[idx]] = e
                i = len(params)
                continue
            if i < len(params):
                out[params[i]] = a
            elif g.vararg:
                out.setdefault('*' + g.vararg, []).append(a)
            i += 1
        for kw in call.keywords:
            if kw.arg is not None:
                out[kw.arg] = kw.value
        return out

    def _flow_args(self, call, f, g):
        changed = False
        for p, a in self.bind_args(call, g).items():
            if isinstance(a, list):
                continue
            ts = self.type_of(a, f)
            if ts:
                changed |= self._add(self.param_types, (g.qualname, p), ts)
        return changed

    def type_of(self, e, f):
        if isinstance(e, ast.Name):
            if e.id == f.self_name and f.cls:
                return {f.cls}
            ts = set()
            ts |= self.param_types.get((f.qualname, e.id), set())
            ts |= self.local_types.get((f.qualname, e.id), set())
            if not ts and e.id in f.defaults and isinstance(
                    f.defaults[e.id], ast.Constant) and \
                    f.defaults[e.id].value is None:
                ts = {'None'}
            if e.id in f.defaults and isinstance(
                    f.defaults[e.id], ast.Constant) and \
                    f.defaults[e.id].value is None:
                ts = ts | {'None'}
            return ts
        if isinstance(e, ast.Constant):
            if e.value is None:
                return {'None'}
            return set()
        if isinstance(e, ast.Attribute):
            ts = set()
            for rt in self.type_of(e.value, f):
                for c in self.mro(rt) if rt in self.classes else []:
                    ts |= self.attr_types.get((c, e.attr), set())
            if not ts:
                d = self.dotted(e, f)
                if d and d.startswith('glob:'):
                    pass
            return ts
        if isinstance(e, ast.Call):
            ts = set()
            for g in self.resolve_call(e, f):
                if isinstance(g, Func):
                    if g.name == '__init__':
                        ts.add(g.cls_for_ctor)
                    else:
                        ts |= self.ret_types.get(g.qualname, set())
                elif isinstance(g, str):
                    if g.startswith('ctor:'):
                        ts.add(g[5:])
                    elif g in self.EXT_CTORS:
                        ts.add(self.EXT_CTORS[g])
            if not ts and self.elem_types and isinstance(
                    e.func, ast.Attribute) and e.func.attr in ('get', 'pop'):
                ts = self.elem_of(e.func.value, f)
            return ts
        if isinstance(e, ast.IfExp):
            return self.type_of(e.body, f) | self.type_of(e.orelse, f)
        if isinstance(e, ast.Subscript) and self.elem_types:
            return self.elem_of(e.value, f)
        if isinstance(e, (ast.List, ast.ListComp)):
            return {'ext:list'}
        if isinstance(e, (ast.Set, ast.SetComp)):
            return {'ext:set'}
        if isinstance(e, (ast.Dict, ast.DictComp)):
            return {'ext:dict'}
        if isinstance(e, ast.Tuple):
            return {'ext:tuple'}
        return set()

    # ------------------------------------------------------------------
    def resolve_call(self, call, f):
        """Return a list of callees: Func objects (package functions; a
        constructor call yields the class's __init__ Func when it has one,
        else 'ctor:<Class>'), or strings: external dotted names, 'USER'
        (call through a parameter), 'method:<name>' (method on a non-package
        receiver), 'unknown:<text>'."""
        fn = call.func
        # getattr(self, name)(...) dynamic dispatch over OPERATIONS
        if (isinstance(fn, ast.Call) and isinstance(fn.func, ast.Name) and
                fn.func.id == 'getattr' and len(fn.args) >= 2):
            out = []
            for rt in self.type_of(fn.args[0], f):
                if rt in self.classes:
                    names = self.operations_names(rt)
                    if names is not None:
                        for nm in sorted(names):
                            m = self.lookup_method(rt, nm)
                            if m:
                                out.append(m)
            return out or ['unknown:getattr']
        if isinstance(fn, ast.Name):
            nm = fn.id
            if nm in f.all_param_names():
                # a parameter that every internal caller binds to a method
                # or function of the package is a call of those (a shared
                # helper that receives ``subbuilder._build_file``); anything
                # else is a user callback
                tg = self._param_callees(f, nm)
                return tg if tg else ['USER']
            if self.is_local(f, nm):
                v0 = self.single_local_def(f, nm)
                if isinstance(v0, ast.Attribute):
                    # ``read = file_.read`` ... ``read(n)``
                    fake = ast.Call(func=v0, args=call.args,
                                    keywords=call.keywords)
                    return self.resolve_call(fake, f)
                # a local bound once to getattr(self, name): the same
                # dynamic dispatch, one statement earlier
                v = self.single_local_def(f, nm)
                if (isinstance(v, ast.Call) and isinstance(
                        v.func, ast.Name) and v.func.id == 'getattr' and
                        len(v.args) >= 2):
                    fake = ast.Call(func=v, args=call.args,
                                    keywords=call.keywords)
                    return self.resolve_call(fake, f)
                return ['unknown:local:' + nm]
            d = self.dotted(fn, f)
            if d is None:
                return ['unknown:' + nm]
            return self._resolve_dotted(d)
        if isinstance(fn, ast.Attribute):
            # super().m(...)
            if (isinstance(fn.value, ast.Call) and
                    isinstance(fn.value.func, ast.Name) and
                    fn.value.func.id == 'super' and f.cls):
                for c in self.mro(f.cls)[1:]:
                    m = self.classes[c].methods.get(fn.attr)
                    if m:
                        return [m]
                return ['unknown:super.' + fn.attr]
            d = self.dotted(fn, f)
            if d is not None and not d.startswith('glob:'):
                return self._resolve_dotted(d)
            if d is not None and d.startswith('glob:'):
                root = d[5:].split('.')[0]
                v = self.module_globals[f.module].get(root)
                if (isinstance(v, ast.Call) and
                        self.dotted(v.func, None, f.module) ==
                        'logging.getLogger'):
                    return ['LOG']
            rts = self.type_of(fn.value, f)
            out = []
            ext = []
            for rt in sorted(rts):
                if rt in self.classes:
                    m = self.lookup_method(rt, fn.attr)
                    if m:
                        out.append(m)
                    else:
                        out.append('unknown:%s.%s' % (rt, fn.attr))
                elif rt == 'None':
                    continue
                else:
                    ext.append('method:%s.%s' % (rt[4:], fn.attr))
            if any(isinstance(o, Func) for o in out):
                # the receiver's static type is a union (elements of
                # .suboperations): classes that lack the method are excluded
                # by the isinstance test that precedes such a call
                out = [o for o in out if isinstance(o, Func)]
            if out or ext:
                return out + ext
            # unknown receiver: unique method name among package classes,
            # but only for names that are not ordinary container methods
            if fn.attr not in CONTAINER_METHODS:
                ms = self.methods_named(fn.attr)
                if len(ms) == 1:
                    return ms
                if len(ms) > 1:
                    return ['unknown:ambiguous.' + fn.attr]
            return ['method:?.' + fn.attr]
        return ['unknown:expr']

    def _resolve_dotted(self, d):
        if d.startswith('pkgf:'):
            _, mod, name = d.split(':', 2)
            f = self.module_funcs.get(mod, {}).get(name.split('.')[0])
            return [f] if f is not None else ['unknown:' + d]
        if d.startswith('pkg:'):
            parts = d[4:].split('.')
            if parts[0] in self.classes:
                if len(parts) == 1:
                    init = self.lookup_method(parts[0], '__init__')
                    if init is not None:
                        # a distinct handle that remembers the class built
                        h = _CtorHandle(init, parts[0])
                        return [h]
                    return ['ctor:' + parts[0]]
                if len(parts) == 2:
                    m = self.lookup_method(parts[0], parts[1])
                    if m:
                        return [m]
                if len(parts) == 3:
                    # a method of a class-level literal constant
                    # (``Cls._MESSAGE.format(...)``)
                    for c in self.mro(parts[0]):
                        v = self.classes[c].class_attrs.get(parts[1])
                        if isinstance(v, ast.Constant) and isinstance(
                                v.value, (str, bytes)):
                            return ['method:%s.%s' % (
                                type(v.value).__name__, parts[2])]
                        if isinstance(v, (ast.JoinedStr, ast.BinOp)) and \
                                all(isinstance(x, (
                                    ast.Constant, ast.BinOp, ast.Add,
                                    ast.JoinedStr, ast.FormattedValue))
                                    for x in ast.walk(v)
                                    if not isinstance(x, (ast.Load,
                                                          ast.operator))):
                            return ['method:str.' + parts[2]]
                return ['unknown:' + d]
            if parts[0] in self.funcs:
                return [self.funcs[parts[0]]]
            return ['unknown:' + d]
        return [d]

    def operations_names(self, cname):
        """String members of the class attribute OPERATIONS = set([...])."""
        for c in self.mro(cname):
            v = self.classes[c].class_attrs.get('OPERATIONS')
            if v is None:
                continue
            lits = [n.value for n in ast.walk(v)
                    if isinstance(n, ast.Constant) and isinstance(n.value, str)]
            return set(lits)
        return None

    # ------------------------------------------------------------------
    def internal_callees(self, call, f):
        return [g for g in self.resolve_call(call, f) if isinstance(g, Func)]

    def calls_in(self, f):
        return [n for n in ast.walk(f.node) if isinstance(n, ast.Call)]

    def callers(self):
        """qualname -> list of (caller Func, call node)."""
        c = getattr(self, '_callers', None)
        if c is None:
            c = {}
            for f in self.funcs.values():
                for call in self.calls_in(f):
                    for g in self.resolve_call(call, f):
                        if isinstance(g, Func):
                            c.setdefault(g.qualname, []).append((f, call))
            self._callers = c
        return c

    def resolution_stats(self):
        res = unres = 0
        bad = []
        for f in self.funcs.values():
            for call in self.calls_in(f):
                for g in self.resolve_call(call, f):
                    if isinstance(g, str) and g.startswith('unknown:'):
                        unres += 1
                        bad.append('%s:%d %s %s' % (
                            f.file, call.lineno, f.qualname, g))
                    else:
                        res += 1
        return res, unres, bad

    def loc(self, f, node):
        return '%s:%d' % (f.file, getattr(node, 'lineno', 0))


class _CtorHandle(Func):
    """The __init__ of a class, reached through a constructor call; knows
    which class is being built (for subclasses without their own __init__)."""

    def __init__(self, init, cls_built):
        self.__dict__.update(init.__dict__)
        self.cls_for_ctor = cls_built
        self.is_ctor_call = True

    def __eq__(self, o):
        return isinstance(o, Func) and o.qualname == self.qualname

    def __hash__(self):
        return hash(self.qualname)


Func.cls_for_ctor = None
Func.is_ctor_call = False
Func.__eq__ = lambda self, o: isinstance(o, Func) and o.qualname == self.qualname
Func.__hash__ = lambda self: hash(self.qualname)


CONTAINER_METHODS = {
    'append', 'extend', 'insert', 'add', 'update', 'discard', 'remove', 'pop',
    'get', 'items', 'values', 'keys', 'clear', 'setdefault', 'format',
    'startswith', 'endswith', 'join', 'split', 'copy', 'sort', 'index',
    'count', 'read', 'write', 'close', 'hexdigest', 'digest', 'resolve',
    'acquire', 'release', 'encode', 'decode', 'strip', 'lower', 'upper',
    'popitem', 'union', 'intersection', 'difference', 'issubset', 'reverse',
    'info', 'warning', 'error', 'debug', 'exception',
}


def fingerprint(prog, f):
    ext = []
    intl = []
    attrs = set()
    for n in ast.walk(f.node):
        if isinstance(n, ast.Call):
            fn = n.func
            d = prog.dotted(fn, f) if isinstance(
                fn, (ast.Name, ast.Attribute)) else None
            if d and d.startswith('pkgf:'):
                intl.append(d.split(':')[-1])
            elif d and not d.startswith(('pkg:', 'glob:')):
                ext.append(d)
            elif isinstance(fn, ast.Attribute):
                intl.append(fn.attr)
            elif isinstance(fn, ast.Name):
                intl.append(fn.id)
        elif isinstance(n, ast.Attribute) and isinstance(n.value, ast.Name) \
                and n.value.id == f.self_name:
            attrs.add(n.attr)
    kinds = {}
    for n in ast.walk(f.node):
        if isinstance(n, ast.stmt):
            k = type(n).__name__
            kinds[k] = kinds.get(k, 0) + 1
    fp = {'cls': f.cls, 'static': f.is_static, 'nparams': len(f.params),
          'ext': sorted(ext), 'intl': sorted(intl),
          'attrs': sorted(attrs), 'kinds': kinds}
    if sum(kinds.values()) <= 8 and (ext or intl):
        # small functions are also known by their literal body
        fp['body'] = _numbered_body(f.node)
    return fp


def _jac(a, b):
    from collections import Counter
    ca, cb = Counter(a), Counter(b)
    inter = sum((ca & cb).values())
    union = sum((ca | cb).values())
    return 1.0 if union == 0 else inter / union


def _similarity(a, b):
    ka = [k for k, v in a['kinds'].items() for _ in range(v)]
    kb = [k for k, v in b['kinds'].items() for _ in range(v)]
    s = (0.3 * _jac(a['ext'], b['ext']) + 0.25 * _jac(a['intl'], b['intl']) +
         0.2 * _jac(a['attrs'], b['attrs']) + 0.15 * _jac(ka, kb) +
         0.1 * (1.0 if a['nparams'] == b['nparams'] else 0.0))
    return s
