"""Generic backward may-alias / taint evaluation over expressions, used for
ownership-escape (C11), raw-path (C07), listing-order (C05) and origin
questions.  Flow-sensitive for locals through reaching definitions,
interprocedural through call-site argument binding and return summaries.
"""
import ast

from .model import Func

IMMUTABLE_RESULT = {
    'builtins.str', 'builtins.int', 'builtins.float', 'builtins.bool',
    'builtins.len', 'builtins.repr', 'builtins.isinstance',
    'builtins.callable', 'builtins.hash', 'builtins.id', 'builtins.type',
    'builtins.any', 'builtins.all', 'builtins.sum', 'builtins.min',
    'builtins.max', 'builtins.abs', 'builtins.round', 'builtins.bytes',
}
SHALLOW = {
    'builtins.list', 'builtins.tuple', 'builtins.sorted', 'builtins.set',
    'builtins.dict', 'builtins.reversed', 'builtins.zip', 'builtins.iter',
    'builtins.enumerate', 'builtins.filter', 'builtins.map',
    'builtins.frozenset', 'builtins.next', 'copy.copy',
    'itertools.chain',
}
RECEIVER_METHODS = {
    'copy', 'get', 'values', 'items', 'keys', 'pop', 'popitem', 'setdefault',
    '__getitem__', 'union', 'intersection', 'difference',
}


class Taint:
    def __init__(self, helper, is_source, cut=(), propagate=SHALLOW,
                 name_hook=None, path_funcs=False, follow_params=True,
                 attr_propagates=True, param_cut=None):
        self.H = helper
        self.prog = helper.prog
        self.cfgs = helper.cfgs
        self.is_source = is_source        # (expr, func, cn) -> str or None
        self.cut = set(cut)               # callee names that cut the flow
        self.propagate = set(propagate)   # callee names passing args through
        self.name_hook = name_hook        # (name, func, cn) -> str or None
        if path_funcs:
            self.propagate |= {
                'os.path.normcase', 'os.path.join', 'os.path.dirname',
                'os.path.abspath', 'os.path.normpath', 'os.path.basename',
                'os.path.split', 'os.fsdecode', 'os.fsencode',
                'os.path.realpath', 'os.path.expanduser', 'builtins.str'}
        self.follow_params = follow_params
        self.attr_propagates = attr_propagates
        self.param_cut = param_cut      # (func, name) -> bool
        self._param_memo = {}
        self._ret_memo = {}

    def tainted(self, e, func, cn, env=None, depth=0, seen=frozenset()):
        """Return a trace (list of strings, source first) or None."""
        if depth > 30:
            return None
        src = self.is_source(e, func, cn)
        if src:
            return ['%s: %s' % (self.prog.loc(func, e), src)]
        T = lambda x, **kw: self.tainted(x, func, cn, env, depth + 1, seen)
        if isinstance(e, ast.Name):
            if env is not None and e.id in env:
                return env[e.id]
            if self.name_hook is not None:
                h = self.name_hook(e.id, func, cn)
                if h:
                    return ['%s: %s' % (self.prog.loc(func, e), h)]
            key = (func.qualname, cn.id, e.id)
            if key in seen:
                return None
            seen2 = seen | {key}
            cfg = self.cfgs.get(func)
            rd = cfg.reaching_defs()[cn.id].get(e.id, ())
            for nid in sorted(rd):
                v = cfg.def_value(nid, e.id)
                dn = cfg.nodes[nid]
                r = None
                if isinstance(v, ast.AST):
                    r = self.tainted(v, func, dn, env, depth + 1, seen2)
                elif v[0] == 'param':
                    if self.follow_params and not (
                            self.param_cut is not None and
                            self.param_cut(func, e.id)):
                        r = self._param(func, e.id, seen2, depth)
                elif v[0] in ('iter', 'with', 'unpack'):
                    r = self.tainted(v[1], func, dn, env, depth + 1, seen2)
                elif v[0] == 'aug':
                    r = self.tainted(v[1].value, func, dn, env, depth + 1,
                                     seen2)
                if r:
                    return r + ['%s: %s = ...' % (
                        self.prog.loc(func, dn.ast) if dn.ast is not None
                        else func.qualname, e.id)]
            for a in self.H.container_writes(func).get(e.id, []):
                for an in self.H.node_of(func, a)[:1]:
                    r = self.tainted(a, func, an, env, depth + 1, seen2)
                    if r:
                        return r + ['%s: added to %s' % (
                            self.prog.loc(func, a), e.id)]
            return None
        if isinstance(e, ast.Attribute):
            if self.prog.dotted(e, func) is not None:
                return None
            if self.attr_propagates:
                return T(e.value)
            return None
        if isinstance(e, (ast.Subscript, ast.Starred)):
            return T(e.value)
        if isinstance(e, ast.Call):
            for g in self.prog.resolve_call(e, func):
                name = g.qualname if isinstance(g, Func) else g
                if name in self.cut:
                    continue
                if isinstance(g, Func):
                    if g.is_ctor_call:
                        continue
                    r = self._call_summary(e, g, func, cn, env, depth, seen)
                    if r:
                        return r
                elif name in self.propagate:
                    for a in e.args:
                        r = T(a)
                        if r:
                            return r + ['%s: through %s(...)' % (
                                self.prog.loc(func, e), name)]
                elif name.startswith('method:') and isinstance(
                        e.func, ast.Attribute):
                    if e.func.attr in RECEIVER_METHODS:
                        r = T(e.func.value)
                        if r:
                            return r + ['%s: .%s()' % (
                                self.prog.loc(func, e), e.func.attr)]
            return None
        if isinstance(e, (ast.List, ast.Tuple, ast.Set)):
            for x in e.elts:
                r = T(x)
                if r:
                    return r
            return None
        if isinstance(e, ast.Dict):
            for x in list(e.values) + [k for k in e.keys if k is not None]:
                if x is None:
                    continue
                r = T(x)
                if r:
                    return r
            return None
        if isinstance(e, ast.BinOp):
            return T(e.left) or T(e.right)
        if isinstance(e, ast.BoolOp):
            for v in e.values:
                r = T(v)
                if r:
                    return r
            return None
        if isinstance(e, ast.IfExp):
            return T(e.body) or T(e.orelse)
        if isinstance(e, (ast.ListComp, ast.SetComp, ast.GeneratorExp,
                          ast.DictComp)):
            cenv = dict(env or {})
            for g in e.generators:
                r = self.tainted(g.iter, func, cn, cenv, depth + 1, seen)
                for nm in ast.walk(g.target):
                    if isinstance(nm, ast.Name):
                        cenv[nm.id] = r
            if isinstance(e, ast.DictComp):
                return (self.tainted(e.value, func, cn, cenv, depth + 1, seen)
                        or self.tainted(e.key, func, cn, cenv, depth + 1,
                                        seen))
            return self.tainted(e.elt, func, cn, cenv, depth + 1, seen)
        if isinstance(e, ast.NamedExpr):
            return T(e.value)
        return None

    def _param(self, func, name, seen, depth):
        key = (func.qualname, name)
        if key in self._param_memo:
            return self._param_memo[key]
        self._param_memo[key] = None      # recursion guard
        res = None
        for caller, call in self.prog.callers().get(func.qualname, []):
            a = self.prog.bind_args(call, func).get(name)
            if a is None or isinstance(a, list):
                continue
            for ccn in self.H.node_of(caller, call)[:1]:
                r = self.tainted(a, caller, ccn, None, depth + 1, seen)
                if r:
                    res = r + ['%s: passed as %s to %s' % (
                        self.prog.loc(caller, call), name, func.qualname)]
                    break
            if res:
                break
        self._param_memo[key] = res
        return res

    def _call_summary(self, call, g, func, cn, env, depth, seen):
        binding = self.prog.bind_args(call, g)
        genv = {}
        for p in g.all_param_names():
            a = binding.get(p)
            if a is None or isinstance(a, list):
                genv[p] = None
            else:
                genv[p] = self.tainted(a, func, cn, env, depth + 1, seen)
        sig = (g.qualname, tuple(sorted(p for p, v in genv.items() if v)))
        if sig in self._ret_memo:
            r = self._ret_memo[sig]
        else:
            self._ret_memo[sig] = None
            r = None
            gcfg = self.cfgs.get(g)
            for rn in gcfg.nodes:
                exprs = []
                if rn.kind == 'return' and rn.polarity == 'N':
                    exprs = [rn.ast.value]
                elif rn.kind == 'cond' and self._is_return_atom(gcfg, rn):
                    exprs = [rn.atom]
                for x in exprs:
                    r = self.tainted(x, g, rn, genv, depth + 1, seen)
                    if r:
                        break
                if r:
                    break
            self._ret_memo[sig] = r
        if r:
            return r + ['%s: returned by %s' % (
                self.prog.loc(func, call), g.qualname)]
        return None

    @staticmethod
    def _is_return_atom(cfg, cn):
        """A cond node that is part of a decomposed ``return <expr>``: it
        returns the value of this atom when it is the last operand."""
        for d, _ in cn.succ:
            if cfg.nodes[d].kind == 'return':
                return True
        return False
