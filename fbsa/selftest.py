"""Self-validation corpus (DESIGN section 5) - thorough tier.

Must-fire variants: the package is copied to a scratch directory outside
/repo and /verif, one edit is applied (the variant must still compile), the
property's rules are run on the copy - analysed, never executed - and the
expected rule must report.  Must-stay-silent variants: behaviour-preserving
rewrites (rename every local and private parameter, ast.unparse round trip,
...) must give the same verdict as the unmodified tree.  Scratch copies are
removed immediately.
"""
import ast
import importlib
import io
import json
import multiprocessing
import os
import shutil
import sys
import tempfile
import traceback

VERIF = os.path.dirname(os.path.dirname(os.path.abspath(__file__)))


def _load_corpus():
    sys.path.insert(0, VERIF)
    m = importlib.import_module('selftest.mutants')
    s = importlib.import_module('selftest.silent')
    return m.MUTANTS, s.SILENT


def _scratch(repo):
    d = tempfile.mkdtemp(prefix='fbsa_selftest_')
    shutil.copytree(os.path.join(repo, 'file_builder'),
                    os.path.join(d, 'file_builder'),
                    ignore=shutil.ignore_patterns('__pycache__', 'test'))
    return d


def apply_edits(root, edits):
    """edits: list of (file, old, new[, count]).  Returns None on success or
    a reason string when an edit does not apply (tree differs)."""
    for ed in edits:
        fn, old, new = ed[0], ed[1], ed[2]
        p = os.path.join(root, 'file_builder', fn)
        s = open(p).read()
        n = s.count(old)
        want = ed[3] if len(ed) > 3 else 1
        if n != want:
            return 'snippet occurs %d times (expected %d) in %s' % (
                n, want, fn)
        s = s.replace(old, new)
        try:
            compile(s, p, 'exec')
        except SyntaxError as e:
            return 'variant does not compile: %s' % e
        open(p, 'w').write(s)
    return None


def _run_rules(pid, root, only=None):
    import check
    buf = io.StringIO()
    R, E = check.run(pid, root, 'quick', 0, only_rules=only,
                     print_=lambda *a: None)
    found = []
    for rc in R.rules:
        for f in rc.findings:
            found.append((f.rule, f.construct))
    return found


def _job(args):
    kind, spec, repo, pid = args
    d = None
    try:
        d = _scratch(repo)
        if kind == 'mutant':
            why = apply_edits(d, spec['edits'])
            if why:
                return (kind, spec['id'], 'skipped', why)
            found = _run_rules(pid, d)
            hit = [f for f in found if f[0] in spec['expect']]
            if hit:
                return (kind, spec['id'], 'detected', hit[0][0] + ' | ' +
                        hit[0][1])
            return (kind, spec['id'], 'MISSED',
                    'expected %s, reported %s' % (
                        spec['expect'], sorted({f[0] for f in found})))
        elif kind == 'seed':
            import subprocess
            p = subprocess.run(
                ['git', 'apply', os.path.join(VERIF, 'seeded', spec['id'],
                                              'patch.diff')],
                cwd=d, capture_output=True, text=True)
            if p.returncode:
                return (kind, spec['id'], 'skipped',
                        'patch does not apply to this tree')
            found = _run_rules(pid, d)
            hit = sorted({f[0] for f in found if f[0] in spec['expect']})
            if hit:
                return (kind, spec['id'], 'detected', ','.join(hit))
            return (kind, spec['id'], 'MISSED', 'expected %s, reported %s' % (
                spec['expect'], sorted({f[0] for f in found})))
        elif kind == 'refactoring':
            import subprocess
            p = subprocess.run(
                ['git', 'apply', os.path.join(VERIF, 'refactorings',
                                              spec['id'], 'patch.diff')],
                cwd=d, capture_output=True, text=True)
            if p.returncode:
                return ('silent', spec['id'], 'skipped',
                        'patch does not apply to this tree')
            try:
                found = _run_rules(pid, d)
            except Exception as e:
                if spec.get('expected_inconclusive') and \
                        type(e).__name__ == 'AnalysisError':
                    # recorded in the refactoring's meta.json with a reason:
                    # the patch removes a function the rules are anchored in
                    return ('silent', spec['id'], 'skipped',
                            'inconclusive by design: ' + str(e)[:120])
                raise
            return ('silent', spec['id'], 'findings', sorted(
                {f[0] + ' | ' + f[1] for f in found}))
        else:
            import selftest.silent as sl
            why = sl.apply(spec, d)
            if why:
                return (kind, spec['id'], 'skipped', why)
            found = _run_rules(pid, d)
            return (kind, spec['id'], 'findings', sorted(
                {f[0] + ' | ' + f[1] for f in found}))
    except Exception as e:
        return (kind, spec['id'], 'ERROR', '%s: %s' % (
            type(e).__name__, str(e)[:300]) + ' ' +
            traceback.format_exc().splitlines()[-3][:200])
    finally:
        if d:
            shutil.rmtree(d, ignore_errors=True)


def run_for_property(pid, report, jobs=16, seed=0, repo=None, strict=None,
                     print_=print):
    from .model import AnalysisError
    repo = repo or report_repo(report)
    mutants, silent = _load_corpus()
    mine = [m for m in mutants if pid in m['props']]
    base = sorted({f.rule + ' | ' + f.construct
                   for rc in report.rules for f in rc.findings})
    seeds = []
    sd = os.path.join(VERIF, 'seeded')
    for sid in sorted(os.listdir(sd)) if os.path.isdir(sd) else []:
        mp = os.path.join(sd, sid, 'meta.json')
        if not os.path.exists(mp):
            continue
        meta = json.load(open(mp))
        exp = meta.get('detected_by', {}).get(pid)
        if exp:
            seeds.append({'id': sid, 'expect': exp})
    refs = []
    rd = os.path.join(VERIF, 'refactorings')
    for rid in sorted(os.listdir(rd)) if os.path.isdir(rd) else []:
        if os.path.exists(os.path.join(rd, rid, 'patch.diff')):
            r = {'id': rid}
            mp = os.path.join(rd, rid, 'meta.json')
            if os.path.exists(mp):
                try:
                    r['expected_inconclusive'] = bool(json.load(
                        open(mp)).get('expected_inconclusive'))
                except ValueError:
                    pass
            refs.append(r)
    work = [('mutant', m, repo, pid) for m in mine] + \
           [('seed', x, repo, pid) for x in seeds] + \
           [('silent', s, repo, pid) for s in silent] + \
           [('refactoring', r, repo, pid) for r in refs]
    if not work:
        return
    with multiprocessing.Pool(min(jobs, len(work))) as pool:
        results = pool.map(_job, work, chunksize=1)
    det = miss = skip = err = 0
    sil_ok = sil_bad = 0
    rows = []
    for kind, mid, status, info in results:
        rows.append({'kind': kind, 'id': mid, 'status': status,
                     'info': info})
        if kind in ('mutant', 'seed'):
            if status == 'detected':
                det += 1
            elif status == 'skipped':
                skip += 1
            elif status == 'MISSED':
                miss += 1
                print_('SELFTEST-MISS property=%s variant=%s %s' % (
                    pid, mid, info))
            else:
                err += 1
                print_('SELFTEST-ERROR property=%s variant=%s %s' % (
                    pid, mid, info))
        else:
            if status == 'findings':
                if _same_keys(info, base):
                    sil_ok += 1
                else:
                    sil_bad += 1
                    print_('SELFTEST-NOISE property=%s variant=%s verdict '
                           'changed: %s vs base %s' % (pid, mid, info, base))
            elif status == 'skipped':
                skip += 1
            else:
                err += 1
                print_('SELFTEST-ERROR property=%s variant=%s %s' % (
                    pid, mid, info))
    print_('  selftest: %d must-fire variants detected, %d missed, %d '
           'skipped (snippet absent on this tree), %d errors; %d silent '
           'variants unchanged, %d changed' % (
               det, miss, skip, err, sil_ok, sil_bad))
    report.extra['selftest'] = {
        'must_fire_total': len(mine) + len(seeds),
        'seeded_changes': len(seeds), 'detected': det, 'missed': miss,
        'skipped': skip, 'errors': err,
        'silent_total': len(silent) + len(refs),
        'realistic_refactorings': len(refs),
        'silent_unchanged': sil_ok, 'silent_changed': sil_bad,
        'rows': rows}
    if strict is None:
        strict = os.environ.get('VERIF_SELFTEST_STRICT') == '1'
    if strict and (miss or err or sil_bad):
        raise AnalysisError('self-validation corpus failed for %s' % pid)


def _same_keys(found, base):
    # line numbers are not part of keys, so verdicts compare directly
    return list(found) == list(base)


def report_repo(report):
    return os.environ.get('VERIF_REPO', '/repo')
