"""Self-validation corpus (DESIGN section 5) - thorough tier."""


def run_for_property(pid, report, jobs=16, seed=0):
    return
