#!/venv/bin/python
"""Regenerates /verif/MANIFEST.json from the claims table below."""
import json
import os

V = os.path.dirname(os.path.dirname(os.path.abspath(__file__)))
props = [json.loads(l) for l in open(os.path.join(V, 'properties.jsonl'))]

# pid -> (technique, level text, level note)
CLAIMS = json.load(open(os.path.join(V, 'tools', 'claims.json')))

m = {
    "version": 1,
    "setup_cmd": "/venv/bin/python -m compileall -q /verif/fbsa /verif/check.py",
    "hooks": {
        "guard": "BTREKKIE_FILE_BUILDER_VERIF",
        "enable": "none needed: the checks parse /repo/file_builder/*.py with "
                  "ast and never import or run it; no instrumentation exists "
                  "in /repo",
        "baseline_off_cmd": "cd /repo && /venv/bin/python -m pytest -ra -q -p "
                            "no:cacheprovider --timeout=900 "
                            "--continue-on-collection-errors",
        "source_commits": [],
        "add_only": True},
    "engines": [{
        "name": "fbsa",
        "path": "/verif/fbsa",
        "serves_properties": sorted(CLAIMS),
        "kind_free_text": "repository-specific static analyser (stdlib ast): "
                          "resolved call graph, CFGs with exception edges, "
                          "inlined supergraphs, dominance/must-pass-through, "
                          "locksets, provenance and escape analysis"}],
    "checks": [],
    "notes": "Static analysis only. Exit 2 + 'ANALYSIS-ERROR' = inconclusive "
             "(unsupported construct, vanished anchor, vacuity floor). "
             "Genuine defects repaired in /repo by 'fix:' commits and known "
             "findings are listed in /verif/known_findings.json.",
    "not_applicable": [],
}
for p in props:
    pid = p['id']
    if pid in CLAIMS:
        c = CLAIMS[pid]
        m['checks'].append({
            "property_id": pid,
            "quick_cmd": "/venv/bin/python /verif/check.py %s --tier quick" % pid,
            "thorough_cmd": "/venv/bin/python /verif/check.py %s --tier thorough" % pid,
            "evidence_file": "/verif/evidence/%s.json" % pid,
            "replay_cmd_template": "/venv/bin/python /verif/check.py %s --replay {path}" % pid,
            "engine": "fbsa",
            "level_claimed": {"category": "other", "text": c['text'],
                              "design_ref": c.get('design_ref', 'DESIGN.md section 3, ' + pid)},
            "level_note": c['note'],
            "technique": c['technique'],
        })
    else:
        m['not_applicable'].append({
            "property_id": pid,
            "reason": "check not built yet in this round (planned, DESIGN.md "
                      "section 3); not claimed until its rules run clean"})
json.dump(m, open(os.path.join(V, 'MANIFEST.json'), 'w'), indent=1)
print('claimed', sorted(CLAIMS))
