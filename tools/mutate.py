#!/venv/bin/python
"""Systematic mutation survey (development tool, not a registered check).

  mutate.py gen                 enumerate first-order mutants of /repo/file_builder
  mutate.py suite  [jobs]       run the project's test suite on every mutant in
                                scratch copies; keep the survivors
  mutate.py checks [jobs]       run all 18 checks on every survivor
  mutate.py report              survivors that no check reports

The survivors that no check reports are candidates for triage by reading:
equivalent mutants, harmless ones (messages, logging) and genuine gaps.
Works on scratch copies under /tmp (removed after each mutant); results in
/tmp/fbmut/.
"""
import ast
import json
import os
import shutil
import subprocess
import sys
import tempfile
from concurrent.futures import ThreadPoolExecutor

V = os.path.dirname(os.path.dirname(os.path.abspath(__file__)))
PY = '/venv/bin/python'
OUT = '/tmp/fbmut' + ('' if os.environ.get('MUT_MODE', 'basic') == 'basic' else '_' + os.environ['MUT_MODE'])
MODS = ['build_dirs.py', 'cache.py', 'created_files.py', 'file_backups.py',
        'file_builder.py', 'json_util.py', 'operation.py',
        'simple_operation_executor.py']


def sites(tree):
    """(kind, node index path description, mutate function)"""
    out = []
    nodes = list(ast.walk(tree))
    for i, n in enumerate(nodes):
        if isinstance(n, ast.If):
            out.append(('negate-if', i))
        if isinstance(n, ast.BoolOp):
            out.append(('and-or', i))
        if isinstance(n, ast.Compare) and len(n.ops) == 1:
            out.append(('cmp', i))
        if isinstance(n, ast.UnaryOp) and isinstance(n.op, ast.Not):
            out.append(('drop-not', i))
        if isinstance(n, ast.Constant) and isinstance(n.value, bool):
            out.append(('bool', i))
        if isinstance(n, ast.Constant) and type(n.value) is int and \
                n.value in (0, 1):
            out.append(('int', i))
        if isinstance(n, (ast.Break, ast.Continue)):
            out.append(('brk', i))
        if MODE == 'operands':
            # wrong-but-plausible operand: a sibling attribute of the same
            # object, a sibling method, swapped arguments
            if isinstance(n, ast.Attribute) and isinstance(
                    n.value, ast.Name) and n.attr in SIBLING:
                out.append(('attr', i))
            if isinstance(n, ast.Call) and isinstance(
                    n.func, ast.Attribute) and n.func.attr in CALLSWAP:
                out.append(('call', i))
            if isinstance(n, ast.Call) and len(n.args) == 2 and not any(
                    isinstance(a, ast.Starred) for a in n.args) and \
                    not n.keywords and ast.dump(n.args[0]) != ast.dump(
                        n.args[1]) and 'logger' not in ast.unparse(n.func) \
                    and 'format' not in ast.unparse(n.func):
                out.append(('swapargs', i))
    if MODE == 'operands':
        # adjacent statements swapped (simple statements in one block)
        for f in nodes:
            for fld in ('body', 'orelse', 'finalbody'):
                lst = getattr(f, fld, None)
                if not isinstance(lst, list):
                    continue
                for a, b in zip(lst, lst[1:]):
                    if all(isinstance(x, (ast.Expr, ast.Assign,
                                          ast.AugAssign)) for x in (a, b)) \
                            and not any(isinstance(
                                x, ast.Expr) and isinstance(
                                    x.value, ast.Constant) for x in (a, b)) \
                            and 'logger' not in ast.unparse(a) and \
                            'logger' not in ast.unparse(b):
                        out.append(('swapstmt', nodes.index(a)))
        return out
    # statement deletion: expression statements and attribute/subscript
    # assignments inside function bodies
    for f in nodes:
        if not isinstance(f, (ast.FunctionDef, ast.If, ast.For, ast.While,
                              ast.With, ast.Try, ast.ExceptHandler)):
            continue
        for fld in ('body', 'orelse', 'finalbody'):
            lst = getattr(f, fld, None)
            if not isinstance(lst, list) or len(lst) < 2:
                continue
            for st in lst:
                if isinstance(st, ast.Expr) and isinstance(
                        st.value, ast.Call):
                    txt = ast.unparse(st.value.func)
                    if 'logger' in txt:
                        continue
                    out.append(('del', nodes.index(st)))
                elif isinstance(st, (ast.Assign, ast.AugAssign)) and any(
                        isinstance(t, (ast.Attribute, ast.Subscript))
                        for t in (st.targets if isinstance(st, ast.Assign)
                                  else [st.target])):
                    out.append(('del', nodes.index(st)))
    return out


MODE = os.environ.get('MUT_MODE', 'basic')
# sibling attributes (one is plausibly written for the other)
_SIB = [('_old_cache', '_new_cache'), ('_removed_dirs', '_maybe_removed_dirs'),
        ('_removed_dirs', '_removed_files'),
        ('_error_created_dirs', '_maybe_removed_dirs'),
        ('_created_dirs_map', '_build_dir_counts'),
        ('_files', '_norm_cased_files'), ('_files', '_subbuilds'),
        ('_norm_cased_files', '_norm_cased_dirs'),
        ('raised', 'setup_failed'), ('raised', 'is_finished'),
        ('args', 'kwargs'), ('return_value', 'file_comparison_result'),
        ('_func_versions', '_operation_versions'),
        ('_files_lock', '_subbuilds_lock'),
        ('_exists_dirs', '_removed_dirs')]
SIBLING = {}
for a_, b_ in _SIB:
    SIBLING.setdefault(a_, b_)
    SIBLING.setdefault(b_, a_)
_CS = [('add', 'discard'), ('append', 'remove'), ('get_file', 'get_norm_cased_file'),
       ('created_file', 'created_norm_cased_file'),
       ('has_norm_cased_file', 'created_norm_cased_file'),
       ('is_file', 'is_dir'), ('isfile', 'isdir'),
       ('start_building_file', 'finish_building_file'),
       ('started_building_file', 'finished_building_file'),
       ('error_building_file', 'finished_building_file'),
       ('get_func_version', 'get_operation_version'),
       ('dirname', 'basename'), ('normcase', 'normpath')]
CALLSWAP = {}
for a_, b_ in _CS:
    CALLSWAP.setdefault(a_, b_)
    CALLSWAP.setdefault(b_, a_)

CMP = {ast.Eq: ast.NotEq, ast.NotEq: ast.Eq, ast.Lt: ast.LtE, ast.LtE: ast.Lt,
       ast.Gt: ast.GtE, ast.GtE: ast.Gt, ast.In: ast.NotIn, ast.NotIn: ast.In,
       ast.Is: ast.IsNot, ast.IsNot: ast.Is}


def apply(tree, kind, idx):
    nodes = list(ast.walk(tree))
    n = nodes[idx]
    if kind == 'negate-if':
        n.test = ast.UnaryOp(op=ast.Not(), operand=n.test)
    elif kind == 'and-or':
        n.op = ast.Or() if isinstance(n.op, ast.And) else ast.And()
    elif kind == 'cmp':
        n.ops = [CMP[type(n.ops[0])]()]
    elif kind == 'drop-not':
        # replace the node in its parent
        for p in nodes:
            for fld, val in ast.iter_fields(p):
                if val is n:
                    setattr(p, fld, n.operand)
                elif isinstance(val, list) and n in val:
                    val[val.index(n)] = n.operand
    elif kind == 'bool':
        n.value = not n.value
    elif kind == 'int':
        n.value = 1 - n.value
    elif kind == 'brk':
        for p in nodes:
            for fld, val in ast.iter_fields(p):
                if isinstance(val, list) and n in val:
                    val[val.index(n)] = ast.Continue() if isinstance(
                        n, ast.Break) else ast.Break()
    elif kind == 'attr':
        n.attr = SIBLING[n.attr]
    elif kind == 'call':
        n.func.attr = CALLSWAP[n.func.attr]
    elif kind == 'swapargs':
        n.args = [n.args[1], n.args[0]]
    elif kind == 'swapstmt':
        for p in nodes:
            for fld, val in ast.iter_fields(p):
                if isinstance(val, list) and n in val:
                    i0 = val.index(n)
                    if i0 + 1 < len(val):
                        val[i0], val[i0 + 1] = val[i0 + 1], val[i0]
                    return ast.fix_missing_locations(tree)
    elif kind == 'del':
        for p in nodes:
            for fld, val in ast.iter_fields(p):
                if isinstance(val, list) and n in val:
                    val[val.index(n)] = ast.Pass()
    ast.fix_missing_locations(tree)


def gen():
    os.makedirs(OUT, exist_ok=True)
    ms = []
    for mod in MODS:
        src = open('/repo/file_builder/' + mod).read()
        tree = ast.parse(src)
        for kind, idx in sites(tree):
            n = list(ast.walk(tree))[idx]
            ms.append({'id': 'm%05d' % len(ms), 'mod': mod, 'kind': kind,
                       'idx': idx, 'line': getattr(n, 'lineno', 0),
                       'text': ast.unparse(n)[:90].replace('\n', ' ')})
    json.dump(ms, open(OUT + '/mutants.json', 'w'), indent=0)
    print(len(ms), 'mutants')


def make_copy(m):
    d = tempfile.mkdtemp(prefix='fbm_')
    shutil.copytree('/repo/file_builder', d + '/file_builder')
    for extra in ('setup.py', 'README.md'):
        if os.path.exists('/repo/' + extra):
            shutil.copy('/repo/' + extra, d)
    p = d + '/file_builder/' + m['mod']
    tree = ast.parse(open(p).read())
    apply(tree, m['kind'], m['idx'])
    open(p, 'w').write(ast.unparse(tree) + '\n')
    return d


def sh(cmd, cwd=None, timeout=300):
    try:
        p = subprocess.run(cmd, shell=True, cwd=cwd, capture_output=True,
                           text=True, timeout=timeout)
        return p.returncode, p.stdout + p.stderr
    except subprocess.TimeoutExpired:
        return 124, 'timeout'


def suite(jobs):
    ms = json.load(open(OUT + '/mutants.json'))

    def one(m):
        d = make_copy(m)
        try:
            rc, o = sh('%s -m pytest -q -x -p no:cacheprovider '
                       '--timeout=120 file_builder/test' % PY, cwd=d,
                       timeout=400)
            return m['id'], rc
        finally:
            shutil.rmtree(d, ignore_errors=True)
    with ThreadPoolExecutor(max_workers=jobs) as ex:
        res = dict(ex.map(one, ms))
    surv = [m for m in ms if res[m['id']] == 0]
    json.dump(surv, open(OUT + '/survivors.json', 'w'), indent=0)
    print(len(ms), 'mutants,', len(surv), 'survive the test suite')


def checks(jobs):
    surv = json.load(open(OUT + '/survivors.json'))
    props = ['C%02d' % i for i in range(1, 19)]

    def one(m):
        d = make_copy(m)
        ev = tempfile.mkdtemp(prefix='fbm_ev_')
        hits, errs = [], []
        try:
            for p in props:
                rc, o = sh('%s %s/check.py %s --repo %s --evidence-dir %s' % (
                    PY, V, p, d, ev), timeout=600)
                if rc == 1:
                    rl = sorted({l.strip().split()[0] for l in o.splitlines()
                                 if l.startswith('  R') and
                                 'FINDINGS' not in l and 'HOLDS' not in l})
                    hits.append((p, rl))
                elif rc != 0:
                    errs.append(p)
            return m['id'], hits, errs
        finally:
            shutil.rmtree(d, ignore_errors=True)
            shutil.rmtree(ev, ignore_errors=True)
    with ThreadPoolExecutor(max_workers=jobs) as ex:
        res = list(ex.map(one, surv))
    by = {i: (h, e) for i, h, e in res}
    for m in surv:
        m['hits'], m['errors'] = by[m['id']]
    json.dump(surv, open(OUT + '/checked.json', 'w'), indent=0)
    print(len(surv), 'survivors;',
          sum(1 for m in surv if m['hits']), 'reported by some check;',
          sum(1 for m in surv if not m['hits'] and m['errors']),
          'inconclusive only;',
          sum(1 for m in surv if not m['hits'] and not m['errors']),
          'silent')


def report():
    surv = json.load(open(OUT + '/checked.json'))
    for m in surv:
        if not m['hits']:
            print('%s %-28s:%-4d %-9s %s%s' % (
                m['id'], m['mod'], m['line'], m['kind'], m['text'],
                '   [exit2: %s]' % ','.join(m['errors'])
                if m['errors'] else ''))


if __name__ == '__main__':
    cmd = sys.argv[1]
    jobs = int(sys.argv[2]) if len(sys.argv) > 2 else 16
    {'gen': gen, 'suite': lambda: suite(jobs),
     'checks': lambda: checks(jobs), 'report': report}[cmd]()
