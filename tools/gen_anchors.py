#!/venv/bin/python
"""Freeze structural fingerprints of every function of /repo/file_builder
into /verif/anchors.json ("confirmed on the tree at the time of writing").
They let the checks recognise a function that was merely renamed."""
import json
import os
import sys

V = os.path.dirname(os.path.dirname(os.path.abspath(__file__)))
sys.path.insert(0, V)
from fbsa.model import Program, fingerprint   # noqa: E402

p = Program(sys.argv[1] if len(sys.argv) > 1 else '/repo', anchors=None)
out = {q: fingerprint(p, f) for q, f in sorted(p.funcs.items())}
json.dump({'functions': out}, open(os.path.join(V, 'anchors.json'), 'w'),
          indent=1, sort_keys=True)
print(len(out), 'fingerprints')
