#!/venv/bin/python
"""Seeded-change bookkeeping.

  seeds.py verify <seed-src-dir> <id>   confirm a sub-agent's change in a fresh
                                        scratch worktree (suite passes, demo
                                        fails with / passes without), then copy
                                        it to /verif/seeded/<id>/
  seeds.py eval [<id> ...]              run every claimed check against each
                                        kept seed (on a scratch worktree with
                                        the patch applied, via --repo) and print
                                        which checks report it
"""
import json
import os
import shutil
import subprocess
import sys
import tempfile

V = os.path.dirname(os.path.dirname(os.path.abspath(__file__)))
PY = '/venv/bin/python'


def sh(cmd, cwd=None, timeout=900):
    p = subprocess.run(cmd, shell=True, cwd=cwd, capture_output=True,
                       text=True, timeout=timeout)
    return p.returncode, (p.stdout + p.stderr)


def scratch():
    d = tempfile.mkdtemp(prefix='fbseed_')
    os.rmdir(d)
    rc, out = sh('git -C /repo worktree add -q --detach %s HEAD' % d)
    if rc:
        raise SystemExit(out)
    return d


def drop(d):
    sh('git -C /repo worktree remove --force %s' % d)
    shutil.rmtree(d, ignore_errors=True)


def verify(src, sid):
    meta = json.load(open(os.path.join(src, 'meta.json')))
    d = scratch()
    try:
        os.makedirs(os.path.join(d, '_seed', sid))
        shutil.copy(os.path.join(src, 'demo.py'),
                    os.path.join(d, '_seed', sid, 'demo.py'))
        demo = '%s _seed/%s/demo.py' % (PY, sid)
        rc0, o0 = sh(demo, cwd=d)
        rc, o = sh('git apply %s' % os.path.join(src, 'patch.diff'), cwd=d)
        if rc:
            print('patch does not apply:', o)
            return False
        rcs, os_ = sh('%s -m pytest -q -p no:cacheprovider --timeout=900 '
                      '-x' % PY, cwd=d)
        rc1, o1 = sh(demo, cwd=d)
        sh('git checkout -- file_builder', cwd=d)
        rc2, o2 = sh(demo, cwd=d)
        ok = rc0 == 0 and rcs == 0 and rc1 != 0 and rc2 == 0
        print('%s: demo-before=%d suite=%d demo-with-change=%d '
              'demo-after-revert=%d -> %s' % (
                  sid, rc0, rcs, rc1, rc2, 'CONFIRMED' if ok else 'REJECTED'))
        if not ok:
            print(os_[-500:])
            print(o1[-300:])
            return False
        dst = os.path.join(V, 'seeded', sid)
        os.makedirs(dst, exist_ok=True)
        shutil.copy(os.path.join(src, 'patch.diff'), dst)
        shutil.copy(os.path.join(src, 'demo.py'), dst)
        meta['confirmed'] = {
            'how': 'fresh scratch worktree of /repo HEAD: demo exits 0; git '
                   'apply patch.diff; pytest (69 tests) passes; demo exits '
                   'non-zero; git checkout; demo exits 0',
            'suite_tail': os_.strip().splitlines()[-1],
            'demo_with_change_tail': o1.strip().splitlines()[-3:],
        }
        json.dump(meta, open(os.path.join(dst, 'meta.json'), 'w'), indent=1)
        return True
    finally:
        drop(d)


def run_checks(props, d, ev, jobs=16):
    """Run the checks of ``props`` against the tree ``d`` concurrently;
    yields (property, (exit code, output)) in the order of ``props``."""
    from concurrent.futures import ThreadPoolExecutor

    def one(p):
        pev = os.path.join(ev, p)
        os.makedirs(pev, exist_ok=True)
        return sh('%s %s/check.py %s --repo %s --evidence-dir %s' % (
            PY, V, p, d, pev))
    with ThreadPoolExecutor(max_workers=jobs) as ex:
        return list(zip(props, ex.map(one, props)))


def claimed():
    m = json.load(open(os.path.join(V, 'MANIFEST.json')))
    return [c['property_id'] for c in m['checks']]


def evaluate(ids, props=None):
    base = os.path.join(V, 'seeded')
    ids = ids or sorted(d for d in os.listdir(base)
                        if os.path.isdir(os.path.join(base, d)))
    props = props or claimed()
    rows = []
    for sid in ids:
        sd = os.path.join(base, sid)
        meta = json.load(open(os.path.join(sd, 'meta.json')))
        d = scratch()
        try:
            rc, o = sh('git apply %s' % os.path.join(sd, 'patch.diff'), cwd=d)
            if rc:
                print(sid, 'patch does not apply on current HEAD')
                continue
            ev = tempfile.mkdtemp(prefix='fbseed_ev_')
            hits = []
            errs = []
            for p, (rc, o) in run_checks(props, d, ev):
                if rc == 1:
                    rules = sorted({l.split()[0] for l in o.splitlines()
                                    if l.startswith('  R') and
                                    not l.startswith('  R') is None and
                                    len(l) > 2 and l[2] == 'R' and False})
                    vio = [l.strip() for l in o.splitlines()
                           if l.startswith('    construct: ')]
                    rl = sorted({l.strip().split()[0] for l in o.splitlines()
                                 if l.startswith('  R') and ' ' in l.strip()
                                 and 'FINDINGS' not in l and
                                 'HOLDS' not in l})
                    hits.append((p, rl))
                elif rc == 2:
                    errs.append(p)
            shutil.rmtree(ev, ignore_errors=True)
            own = meta['property']
            status = 'DETECTED' if any(p == own for p, _ in hits) else (
                'detected-by-other' if hits else 'MISSED')
            print('%-8s %-18s own=%s hits=%s%s' % (
                sid, status, own,
                ' '.join('%s:%s' % (p, ','.join(r)) for p, r in hits),
                ' ERR=' + ','.join(errs) if errs else ''))
            rows.append({'seed': sid, 'property': own, 'status': status,
                         'hits': hits, 'errors': errs})
        finally:
            drop(d)
    return rows


if __name__ == '__main__':
    if sys.argv[1] == 'verify':
        sys.exit(0 if verify(sys.argv[2], sys.argv[3]) else 1)
    if sys.argv[1] == 'eval':
        rows = evaluate(sys.argv[2:])
        json.dump(rows, open(os.path.join(V, 'seeded', '_last_eval.json'),
                             'w'), indent=1)


def try_(props, ids):
    for sid in ids:
        sd = os.path.join(V, 'seeded', sid)
        d = scratch()
        try:
            if sid == 'PINNED':
                sh('git checkout -q d51066b -- file_builder', cwd=d)
            else:
                rc, o = sh('git apply %s' % os.path.join(sd, 'patch.diff'),
                           cwd=d)
                if rc:
                    print(sid, 'patch does not apply', o)
                    continue
            ev = tempfile.mkdtemp(prefix='fbseed_ev_')
            for p in props:
                rc, o = sh('%s %s/check.py %s --repo %s --evidence-dir %s' % (
                    PY, V, p, d, ev))
                print('#### %s on %s -> exit %d' % (p, sid, rc))
                keep = [l for l in o.splitlines()
                        if 'HOLDS' not in l and not l.startswith('==') and
                        'note:' not in l]
                print('\n'.join(keep[:60]))
            shutil.rmtree(ev, ignore_errors=True)
        finally:
            drop(d)


if __name__ == '__main__' and sys.argv[1] == 'try':
    try_(sys.argv[2].split(','), sys.argv[3:])


def refactor_eval(srcs):
    """For each refactoring dir (patch.diff + meta.json): confirm the suite
    passes with it, then run every claimed check; print exit codes."""
    base = os.path.join(V, 'refactorings')
    os.makedirs(base, exist_ok=True)
    for src in srcs:
        rid = os.path.basename(src.rstrip('/'))
        d = scratch()
        try:
            rc, o = sh('git apply %s' % os.path.join(src, 'patch.diff'),
                       cwd=d)
            if rc:
                print(rid, 'patch does not apply:', o[:200])
                continue
            rcs, os_ = sh('%s -m pytest -q -p no:cacheprovider '
                          '--timeout=900 -x' % PY, cwd=d)
            if rcs:
                print(rid, 'REJECTED: suite fails with the refactoring')
                continue
            ev = tempfile.mkdtemp(prefix='fbseed_ev_')
            res = {}
            detail = []
            for p, (rc, o) in run_checks(claimed(), d, ev):
                res[p] = rc
                if rc:
                    lines = [l for l in o.splitlines()
                             if (l.startswith('ANALYSIS-ERROR') or
                                 l.startswith('    construct:') or
                                 l.startswith('  R')) and 'HOLDS' not in l
                             and 'FINDINGS' not in l]
                    detail.append((p, rc, lines[:8]))
            shutil.rmtree(ev, ignore_errors=True)
            bad = {p: r for p, r in res.items() if r}
            print('%-8s %s' % (rid, 'SILENT (18/18 exit 0)' if not bad
                               else 'NOISE ' + str(bad)))
            for p, rc, lines in detail:
                for l in lines:
                    print('      %s: %s' % (p, l.strip()[:200]))
            dst = os.path.join(base, rid)
            os.makedirs(dst, exist_ok=True)
            if os.path.abspath(src) != os.path.abspath(dst):
                shutil.copy(os.path.join(src, 'patch.diff'), dst)
            meta = json.load(open(os.path.join(src, 'meta.json')))
            meta['suite_confirmed'] = True
            meta['checks_exit_codes'] = res
            json.dump(meta, open(os.path.join(dst, 'meta.json'), 'w'),
                      indent=1)
        finally:
            drop(d)


if __name__ == '__main__' and sys.argv[1] == 'refactor':
    refactor_eval(sys.argv[2:])
