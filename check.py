#!/venv/bin/python
"""Entry point: /venv/bin/python /verif/check.py <Cxx> [--tier quick|thorough]
[--repo DIR] [--replay FILE] [--evidence-dir DIR]

Exit 0: every rule instance of the property holds (known findings printed).
Exit 1: a witness not listed in known_findings.json (VIOLATION line).
Exit 2: ANALYSIS-ERROR (inconclusive: unsupported construct, vanished
        anchor, vacuity floor, internal error) - neither a pass nor an alarm.
"""
import argparse
import os
import sys
import traceback

sys.path.insert(0, os.path.dirname(os.path.abspath(__file__)))

from fbsa.model import AnalysisError          # noqa: E402
from fbsa.engine import Engine                # noqa: E402
from fbsa import report as rep                # noqa: E402
from fbsa import rules                        # noqa: E402


def run(pid, repo, tier, seed, evidence_dir=None, only_rules=None,
        print_=print):
    E = Engine(repo)
    ctx = rules.Ctx(E)
    ctx.validate_anchors(pid)
    mod = rules.module_for(pid)
    R = rep.PropertyReport(
        pid, tier, seed, mod.EXPLANATION,
        rules.COMMON_ASSUMPTIONS + list(getattr(mod, 'ASSUMPTIONS', [])))
    print_('== %s (%s) static analysis of %s: %d modules, %d functions' % (
        pid, tier, repo, len(E.prog.modules), len(E.prog.funcs)))
    for rid, title, fn in mod.RULES:
        if only_rules and rid not in only_rules:
            continue
        rc = rep.RuleCtx(rid, title)
        fn(ctx, rc)
        R.add(rc)
    return R, E


def main(argv=None):
    ap = argparse.ArgumentParser()
    ap.add_argument('property')
    ap.add_argument('--tier', default=os.environ.get('VERIF_TIER', 'quick'))
    ap.add_argument('--repo', default=os.environ.get('VERIF_REPO', '/repo'))
    ap.add_argument('--replay')
    ap.add_argument('--evidence-dir')
    ap.add_argument('--jobs', type=int, default=16)
    a = ap.parse_args(argv)
    pid = a.property.upper()
    seed = int(os.environ.get('VERIF_SEED', '0') or 0)
    tier = a.tier if a.tier in ('quick', 'thorough') else 'quick'
    try:
        only = None
        if a.replay:
            import json
            only = {f['rule'] for f in json.load(open(a.replay))}
        R, E = run(pid, a.repo, tier, seed, a.evidence_dir, only)
        if tier == 'thorough':
            from fbsa import selftest
            selftest.run_for_property(pid, R, jobs=a.jobs, seed=seed, repo=a.repo)
        code = rep.finish(R, E, a.evidence_dir)
    except AnalysisError as e:
        print('ANALYSIS-ERROR property=%s %s' % (pid, e))
        return 2
    except Exception:
        traceback.print_exc()
        print('ANALYSIS-ERROR property=%s internal error (traceback above)'
              % pid)
        return 2
    return code


if __name__ == '__main__':
    sys.exit(main())
