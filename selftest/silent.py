"""Behaviour-preserving rewrites: every rule must give the same verdict."""
import ast
import copy
import os

SILENT = [
    {'id': 'S-unparse-roundtrip', 'what': 'ast.unparse round trip of every '
     'module (all positions, comments and layout change)'},
    {'id': 'S-rename-locals', 'what': 'rename every local variable and every '
     'parameter of private functions (when no call passes it by keyword)'},
    {'id': 'S-split-or', 'what': 'if A or B: <exit> -> two ifs'},
    {'id': 'S-merge-nested-if', 'what': 'if A: if B: body -> if A and B: body'},
    {'id': 'S-nested-with', 'what': 'with a, b: -> with a: with b:'},
    {'id': 'S-json-roundtrip-copy', 'what': 'copy.deepcopy(x) -> '
     'json.loads(json.dumps(x)) in file_builder.py'},
    {'id': 'S-swap-if-else', 'what': 'if c: A else: B -> if not c: B else: A'},
    {'id': 'S-result-variable', 'what': 'return <expr> -> _rv = <expr>; '
     'return _rv, in every function'},
    {'id': 'S-while-true', 'what': 'while C: body -> while True: if not C: '
     'break; body'},
    {'id': 'S-named-conditions', 'what': 'if C: -> _c = C; if _c: for every '
     'compound condition'},
    {'id': 'S-else-after-exit', 'what': 'if C: <exit>; rest -> if C: <exit> '
     'else: rest'},
    {'id': 'S-flatten-else', 'what': 'if C: <exit> else: B -> if C: <exit>; B'},
    {'id': 'S-demorgan', 'what': 'if A and B -> if not (not A or not B); '
     'if A or B -> if not (not A and not B)'},
    {'id': 'S-not-compare', 'what': 'a is not b -> not a is b; a not in b -> '
     'not a in b; a != b -> not a == b (in conditions)'},
    {'id': 'S-attr-locals', 'what': 'bind attributes that are only assigned '
     'in constructors to locals at the top of every method that reads them '
     'more than once'},
    {'id': 'S-pop-to-del', 'what': 'X.pop(k) as a statement -> del X[k]'},
    {'id': 'S-key-constants', 'what': 'string literals used as subscript / '
     'dict-display / .get keys become module-level named constants'},
    {'id': 'S-extract-tail', 'what': 'extract method: the second half of '
     'every function with four or more top-level statements becomes a new '
     'private helper called in return position (live locals passed as '
     'arguments)'},
]


def _files(root):
    d = os.path.join(root, 'file_builder')
    return [os.path.join(d, f) for f in sorted(os.listdir(d))
            if f.endswith('.py')]


def apply(spec, root):
    if 'inline' in spec:
        fn = lambda tree, name: _inline_helper(tree, *spec['inline'])
    else:
        fn = globals()['_t_' + spec['id'][2:].replace('-', '_')]
    n = 0
    for p in _files(root):
        src = open(p).read()
        tree = ast.parse(src)
        k = fn(tree, os.path.basename(p))
        n += k
        out = ast.unparse(tree) + '\n'
        compile(out, p, 'exec')
        open(p, 'w').write(out)
    if n == 0 and spec['id'] != 'S-unparse-roundtrip':
        return 'transform matched nothing'
    return None


def _t_unparse_roundtrip(tree, fn):
    return 1


def _t_rename_locals(tree, fn):
    # keyword names used at any call in the module
    kw = {k.arg for n in ast.walk(tree) if isinstance(n, ast.Call)
          for k in n.keywords if k.arg}
    n = 0
    for f in ast.walk(tree):
        if not isinstance(f, ast.FunctionDef):
            continue
        a = f.args
        params = [x.arg for x in a.posonlyargs + a.args + a.kwonlyargs]
        if a.vararg:
            params.append(a.vararg.arg)
        if a.kwarg:
            params.append(a.kwarg.arg)
        is_static = any(isinstance(d, ast.Name) and d.id == 'staticmethod'
                        for d in f.decorator_list)
        self_name = None
        if not is_static and params and _in_class(tree, f):
            self_name = params[0]
        private = f.name.startswith('_') and not f.name.startswith('__')
        stores = {x.id for x in ast.walk(f) if isinstance(x, ast.Name) and
                  isinstance(x.ctx, (ast.Store, ast.Del))}
        stores |= {h.name for h in ast.walk(f)
                   if isinstance(h, ast.ExceptHandler) and h.name}
        ren = {}
        for s in stores:
            if s not in params:
                ren[s] = 'v_' + s + '_r'
        if private:
            for p in params:
                if p != self_name and p not in kw:
                    ren[p] = 'p_' + p + '_r'
        for x in ast.walk(f):
            if isinstance(x, ast.Name) and x.id in ren:
                x.id = ren[x.id]
                n += 1
            elif isinstance(x, ast.arg) and x.arg in ren:
                x.arg = ren[x.arg]
            elif isinstance(x, ast.ExceptHandler) and x.name in ren:
                x.name = ren[x.name]
    return n


def _in_class(tree, f):
    for c in ast.walk(tree):
        if isinstance(c, ast.ClassDef) and f in c.body:
            return True
    return False


def _exits(body):
    return isinstance(body[-1], (ast.Return, ast.Raise, ast.Continue,
                                 ast.Break))


class _SplitOr(ast.NodeTransformer):
    n = 0

    def visit_If(self, node):
        self.generic_visit(node)
        if (isinstance(node.test, ast.BoolOp) and
                isinstance(node.test.op, ast.Or) and not node.orelse and
                _exits(node.body)):
            self.n += 1
            return [ast.If(test=v, body=copy.deepcopy(node.body), orelse=[])
                    for v in node.test.values]
        return node


def _t_split_or(tree, fn):
    t = _SplitOr()
    t.visit(tree)
    ast.fix_missing_locations(tree)
    return t.n


class _Merge(ast.NodeTransformer):
    n = 0

    def visit_If(self, node):
        self.generic_visit(node)
        if (not node.orelse and len(node.body) == 1 and
                isinstance(node.body[0], ast.If) and not node.body[0].orelse):
            self.n += 1
            inner = node.body[0]
            return ast.If(test=ast.BoolOp(op=ast.And(),
                                          values=[node.test, inner.test]),
                          body=inner.body, orelse=[])
        return node


def _t_merge_nested_if(tree, fn):
    t = _Merge()
    t.visit(tree)
    ast.fix_missing_locations(tree)
    return t.n


class _NestWith(ast.NodeTransformer):
    n = 0

    def visit_With(self, node):
        self.generic_visit(node)
        if len(node.items) > 1:
            self.n += 1
            body = node.body
            for it in reversed(node.items):
                body = [ast.With(items=[it], body=body)]
            return body[0]
        return node


def _t_nested_with(tree, fn):
    t = _NestWith()
    t.visit(tree)
    ast.fix_missing_locations(tree)
    return t.n


class _JsonCopy(ast.NodeTransformer):
    n = 0

    def visit_Call(self, node):
        self.generic_visit(node)
        f = node.func
        if (isinstance(f, ast.Attribute) and f.attr == 'deepcopy' and
                isinstance(f.value, ast.Name) and f.value.id == 'copy'):
            self.n += 1
            inner = ast.Call(func=ast.Attribute(
                value=ast.Name(id='json', ctx=ast.Load()), attr='dumps',
                ctx=ast.Load()), args=node.args, keywords=[])
            return ast.Call(func=ast.Attribute(
                value=ast.Name(id='json', ctx=ast.Load()), attr='loads',
                ctx=ast.Load()), args=[inner], keywords=[])
        return node


def _t_json_roundtrip_copy(tree, fn):
    if fn != 'file_builder.py':
        return 0
    t = _JsonCopy()
    t.visit(tree)
    if t.n:
        tree.body.insert(0, ast.Import(names=[ast.alias(name='json')]))
    ast.fix_missing_locations(tree)
    return t.n


class _Swap(ast.NodeTransformer):
    n = 0

    def visit_If(self, node):
        self.generic_visit(node)
        if node.orelse and not (len(node.orelse) == 1 and
                                isinstance(node.orelse[0], ast.If)):
            self.n += 1
            return ast.If(test=ast.UnaryOp(op=ast.Not(), operand=node.test),
                          body=node.orelse, orelse=node.body)
        return node


def _t_swap_if_else(tree, fn):
    t = _Swap()
    t.visit(tree)
    ast.fix_missing_locations(tree)
    return t.n


class _ResultVar(ast.NodeTransformer):
    n = 0

    def visit_Return(self, node):
        if node.value is None or isinstance(node.value,
                                            (ast.Name, ast.Constant)):
            return node
        self.n += 1
        nm = '_rv%d' % self.n
        return [ast.Assign(targets=[ast.Name(id=nm, ctx=ast.Store())],
                           value=node.value, lineno=node.lineno),
                ast.Return(value=ast.Name(id=nm, ctx=ast.Load()))]

    def visit_Lambda(self, node):
        return node


def _t_result_variable(tree, fn):
    t = _ResultVar()
    t.visit(tree)
    ast.fix_missing_locations(tree)
    return t.n


class _WhileTrue(ast.NodeTransformer):
    n = 0

    def visit_While(self, node):
        self.generic_visit(node)
        if node.orelse or (isinstance(node.test, ast.Constant) and
                           node.test.value is True):
            return node
        self.n += 1
        brk = ast.If(test=ast.UnaryOp(op=ast.Not(), operand=node.test),
                     body=[ast.Break()], orelse=[])
        return ast.While(test=ast.Constant(value=True),
                         body=[brk] + node.body, orelse=[])


def _t_while_true(tree, fn):
    t = _WhileTrue()
    t.visit(tree)
    ast.fix_missing_locations(tree)
    return t.n


def _named_conditions(stmts, counter):
    out = []
    for st in stmts:
        for fld in ('body', 'orelse', 'finalbody'):
            if isinstance(getattr(st, fld, None), list):
                setattr(st, fld, _named_conditions(getattr(st, fld), counter))
        for h in getattr(st, 'handlers', []) or []:
            h.body = _named_conditions(h.body, counter)
        if isinstance(st, ast.If) and isinstance(
                st.test, (ast.Compare, ast.BoolOp, ast.Call, ast.UnaryOp)):
            counter[0] += 1
            nm = '_c%d' % counter[0]
            out.append(ast.Assign(
                targets=[ast.Name(id=nm, ctx=ast.Store())], value=st.test,
                lineno=st.lineno))
            st.test = ast.Name(id=nm, ctx=ast.Load())
        out.append(st)
    return out


def _t_named_conditions(tree, fn):
    counter = [0]
    for f in ast.walk(tree):
        if isinstance(f, ast.FunctionDef):
            f.body = _named_conditions(f.body, counter)
    ast.fix_missing_locations(tree)
    return counter[0]


def _else_after_exit(stmts, counter):
    for st in stmts:
        for fld in ('body', 'orelse', 'finalbody'):
            if isinstance(getattr(st, fld, None), list):
                setattr(st, fld, _else_after_exit(getattr(st, fld), counter))
        for h in getattr(st, 'handlers', []) or []:
            h.body = _else_after_exit(h.body, counter)
    for i, st in enumerate(stmts):
        if isinstance(st, ast.If) and not st.orelse and st.body and \
                isinstance(st.body[-1], (ast.Return, ast.Raise)) and \
                i + 1 < len(stmts):
            counter[0] += 1
            st.orelse = stmts[i + 1:]
            return stmts[:i + 1]
    return stmts


def _t_else_after_exit(tree, fn):
    counter = [0]
    for f in ast.walk(tree):
        if isinstance(f, ast.FunctionDef):
            f.body = _else_after_exit(f.body, counter)
    ast.fix_missing_locations(tree)
    return counter[0]


def _flatten_else(stmts, counter):
    out = []
    for st in stmts:
        for fld in ('body', 'orelse', 'finalbody'):
            if isinstance(getattr(st, fld, None), list):
                setattr(st, fld, _flatten_else(getattr(st, fld), counter))
        for h in getattr(st, 'handlers', []) or []:
            h.body = _flatten_else(h.body, counter)
        if isinstance(st, ast.If) and st.orelse and st.body and isinstance(
                st.body[-1], (ast.Return, ast.Raise)) and not (
                    len(st.orelse) == 1 and isinstance(st.orelse[0], ast.If)
                    and False):
            counter[0] += 1
            rest = st.orelse
            st.orelse = []
            out.append(st)
            out.extend(rest)
        else:
            out.append(st)
    return out


def _t_flatten_else(tree, fn):
    counter = [0]
    for f in ast.walk(tree):
        if isinstance(f, ast.FunctionDef):
            f.body = _flatten_else(f.body, counter)
    ast.fix_missing_locations(tree)
    return counter[0]


class _DeMorgan(ast.NodeTransformer):
    n = 0

    def visit_If(self, node):
        self.generic_visit(node)
        t = node.test
        if isinstance(t, ast.BoolOp) and not any(
                isinstance(x, ast.NamedExpr) for x in ast.walk(t)):
            self.n += 1
            other = ast.Or() if isinstance(t.op, ast.And) else ast.And()
            node.test = ast.UnaryOp(op=ast.Not(), operand=ast.BoolOp(
                op=other, values=[ast.UnaryOp(op=ast.Not(), operand=v)
                                  for v in t.values]))
        return node


def _t_demorgan(tree, fn):
    t = _DeMorgan()
    t.visit(tree)
    ast.fix_missing_locations(tree)
    return t.n


class _NotCompare(ast.NodeTransformer):
    n = 0
    MAP = {ast.IsNot: ast.Is, ast.NotIn: ast.In, ast.NotEq: ast.Eq}

    def __init__(self):
        self.in_test = 0

    def visit_If(self, node):
        self.in_test += 1
        node.test = self.visit(node.test)
        self.in_test -= 1
        node.body = [self.visit(b) for b in node.body]
        node.orelse = [self.visit(b) for b in node.orelse]
        return node

    def visit_Compare(self, node):
        self.generic_visit(node)
        if self.in_test and len(node.ops) == 1 and type(
                node.ops[0]) in self.MAP:
            self.n += 1
            return ast.UnaryOp(op=ast.Not(), operand=ast.Compare(
                left=node.left, ops=[self.MAP[type(node.ops[0])]()],
                comparators=node.comparators))
        return node


def _t_not_compare(tree, fn):
    t = _NotCompare()
    t.visit(tree)
    ast.fix_missing_locations(tree)
    return t.n


def _t_attr_locals(tree, fn):
    n = 0
    for c in ast.walk(tree):
        if not isinstance(c, ast.ClassDef):
            continue
        # attributes stored anywhere outside __init__ (on any receiver) are
        # not stable
        unstable = set()
        for m in c.body:
            if isinstance(m, ast.FunctionDef) and m.name != '__init__':
                for x in ast.walk(m):
                    if isinstance(x, ast.Attribute) and isinstance(
                            x.ctx, (ast.Store, ast.Del)):
                        unstable.add(x.attr)
        for x in ast.walk(tree):
            if isinstance(x, ast.Attribute) and isinstance(
                    x.ctx, (ast.Store, ast.Del)) and not any(
                        x in list(ast.walk(m)) for m in c.body
                        if isinstance(m, ast.FunctionDef) and
                        m.name == '__init__'):
                unstable.add(x.attr)
        methods = {m.name for m in c.body if isinstance(m, ast.FunctionDef)}
        for m in c.body:
            if not isinstance(m, ast.FunctionDef) or m.name == '__init__' \
                    or not m.args.args or any(
                        isinstance(d, ast.Name) and d.id in (
                            'staticmethod', 'classmethod', 'property')
                        for d in m.decorator_list):
                continue
            self_name = m.args.args[0].arg
            reads = {}
            for x in ast.walk(m):
                if isinstance(x, ast.Attribute) and isinstance(
                        x.value, ast.Name) and x.value.id == self_name and \
                        isinstance(x.ctx, ast.Load) and \
                        x.attr.startswith('_') and x.attr not in unstable \
                        and x.attr not in methods and \
                        not x.attr.startswith('__') and \
                        not x.attr.isupper() and 'lock' not in x.attr:
                    reads.setdefault(x.attr, []).append(x)
            pre = []
            for attr, sites in sorted(reads.items()):
                if len(sites) < 2:
                    continue
                nm = 'l' + attr
                n += 1
                pre.append(ast.Assign(
                    targets=[ast.Name(id=nm, ctx=ast.Store())],
                    value=ast.Attribute(value=ast.Name(
                        id=self_name, ctx=ast.Load()), attr=attr,
                        ctx=ast.Load()), lineno=m.lineno))

                class T(ast.NodeTransformer):
                    def visit_Attribute(self_, x, attr=attr, nm=nm):
                        self_.generic_visit(x)
                        if isinstance(x.value, ast.Name) and \
                                x.value.id == self_name and \
                                x.attr == attr and isinstance(
                                    x.ctx, ast.Load):
                            return ast.Name(id=nm, ctx=ast.Load())
                        return x
                m.body = [T().visit(b) for b in m.body]
            if pre:
                k = 1 if (m.body and isinstance(m.body[0], ast.Expr) and
                          isinstance(m.body[0].value, ast.Constant)) else 0
                m.body = m.body[:k] + pre + m.body[k:]
    ast.fix_missing_locations(tree)
    return n


def _comp_to_loop(stmts, counter):
    out = []
    for st in stmts:
        for fld in ('body', 'orelse', 'finalbody'):
            if isinstance(getattr(st, fld, None), list):
                setattr(st, fld, _comp_to_loop(getattr(st, fld), counter))
        for h in getattr(st, 'handlers', []) or []:
            h.body = _comp_to_loop(h.body, counter)
        if isinstance(st, ast.Assign) and len(st.targets) == 1 and \
                isinstance(st.targets[0], ast.Name) and isinstance(
                    st.value, ast.ListComp) and len(
                        st.value.generators) == 1 and not any(
                            isinstance(x, ast.Name) and
                            x.id == st.targets[0].id
                            for x in ast.walk(st.value)):
            counter[0] += 1
            g = st.value.generators[0]
            nm = st.targets[0].id
            body = [ast.Expr(value=ast.Call(func=ast.Attribute(
                value=ast.Name(id=nm, ctx=ast.Load()), attr='append',
                ctx=ast.Load()), args=[st.value.elt], keywords=[]))]
            for c in reversed(g.ifs):
                body = [ast.If(test=c, body=body, orelse=[])]
            out.append(ast.Assign(targets=[ast.Name(id=nm, ctx=ast.Store())],
                                  value=ast.List(elts=[], ctx=ast.Load()),
                                  lineno=st.lineno))
            out.append(ast.For(target=g.target, iter=g.iter, body=body,
                               orelse=[], lineno=st.lineno))
        else:
            out.append(st)
    return out


def _t_comprehension_to_loop(tree, fn):
    counter = [0]
    for f in ast.walk(tree):
        if isinstance(f, ast.FunctionDef):
            f.body = _comp_to_loop(f.body, counter)
    ast.fix_missing_locations(tree)
    return counter[0]


# ---------------------------------------------------------------------------
# mechanical inlining of a private helper that is called exactly once
INLINE = [
    ('FileBuilder', '_assert_build_file_call_valid'),
    ('FileBuilder', '_prepare_file_creation'),
    ('FileBuilder', '_handle_error_building_file'),
    # not in the corpus: _commit, _roll_back, _rebuild_file, _subbuild,
    # _build, _set_created_dirs are role-bearing anchors - inlining one
    # makes the checks that need the role inconclusive (exit 2) by design
    ('SimpleOperationExecutor', '_assert_exists'),
    ('SimpleOperationExecutor', '_assert_is_dir'),
    ('SimpleOperationExecutor', '_file_metadata'),
    ('Cache', '_simple_operation_to_json'),
    ('Cache', '_complex_operation_to_json'),
]
for _c, _h in INLINE:
    SILENT.append({'id': 'S-inline-%s.%s' % (_c, _h),
                   'what': 'inline the single-use private helper %s.%s into '
                   'its caller (parameters bound to temporaries, locals '
                   'renamed, self replaced by the receiver)' % (_c, _h),
                   'inline': (_c, _h)})


def _inline_helper(tree, cname, hname):
    cls = next((c for c in ast.walk(tree) if isinstance(c, ast.ClassDef)
                and c.name == cname), None)
    if cls is None:
        return 0
    callee = next((m for m in cls.body if isinstance(m, ast.FunctionDef)
                   and m.name == hname), None)
    if callee is None:
        return 0
    is_static = any(isinstance(d, ast.Name) and d.id == 'staticmethod'
                    for d in callee.decorator_list)
    body = [b for b in callee.body if not (
        isinstance(b, ast.Expr) and isinstance(b.value, ast.Constant) and
        isinstance(b.value.value, str))]
    rets = [n for n in ast.walk(callee) if isinstance(n, ast.Return)]
    if any(r is not body[-1] for r in rets):
        return 0
    final = body[-1].value if body and isinstance(body[-1], ast.Return) \
        else None
    if body and isinstance(body[-1], ast.Return):
        body = body[:-1]
    params = [a.arg for a in callee.args.args]
    defaults = dict(zip(params[len(params) - len(callee.args.defaults):],
                        callee.args.defaults))
    self_name = None if is_static else params[0]
    pnames = params if is_static else params[1:]
    # the one call site
    sites = []
    for f in ast.walk(tree):
        if not isinstance(f, ast.FunctionDef) or f is callee:
            continue
        for n in ast.walk(f):
            if isinstance(n, ast.Call) and isinstance(
                    n.func, ast.Attribute) and n.func.attr == hname:
                sites.append((f, n))
    if len(sites) != 1:
        return 0
    caller, call = sites[0]
    recv = call.func.value
    stores = {x.id for x in ast.walk(callee) if isinstance(x, ast.Name) and
              isinstance(x.ctx, (ast.Store, ast.Del))}
    stores |= {h.name for h in ast.walk(callee)
               if isinstance(h, ast.ExceptHandler) and h.name}
    ren = {n: '_i_' + n for n in stores | set(pnames)}

    def rn(node):
        node = copy.deepcopy(node)
        for x in ast.walk(node):
            if isinstance(x, ast.Name):
                if self_name and x.id == self_name:
                    if isinstance(recv, ast.Name):
                        x.id = recv.id
                    else:
                        x.id = '_i_self'
                elif x.id in ren:
                    x.id = ren[x.id]
            elif isinstance(x, ast.ExceptHandler) and x.name in ren:
                x.name = ren[x.name]
        return node
    pre = []
    if self_name and not isinstance(recv, ast.Name):
        pre.append(ast.Assign(targets=[ast.Name(id='_i_self',
                                                ctx=ast.Store())],
                              value=recv, lineno=call.lineno))
    bound = {}
    for pn, a in zip(pnames, call.args):
        bound[pn] = a
    for kw in call.keywords:
        bound[kw.arg] = kw.value
    for pn in pnames:
        v = bound.get(pn, defaults.get(pn))
        if v is None:
            return 0
        pre.append(ast.Assign(targets=[ast.Name(id=ren[pn],
                                                ctx=ast.Store())],
                              value=v, lineno=call.lineno))
    new_body = pre + [rn(b) for b in body]
    fin = rn(final) if final is not None else None

    class R(ast.NodeTransformer):
        done = 0

        def generic_stmt(self, st):
            return st

        def visit_Expr(self, st):
            if st.value is call:
                self.done = 1
                extra = [ast.Expr(value=fin)] if fin is not None and \
                    not isinstance(fin, (ast.Name, ast.Constant)) else []
                return new_body + extra
            return st

        def visit_Assign(self, st):
            if st.value is call:
                self.done = 1
                return new_body + [ast.Assign(
                    targets=st.targets,
                    value=fin if fin is not None else ast.Constant(
                        value=None), lineno=st.lineno)]
            return st

        def visit_Return(self, st):
            if st.value is call:
                self.done = 1
                return new_body + [ast.Return(value=fin)]
            return st
    r = R()
    caller.body = [x for b in caller.body
                   for x in (lambda v: v if isinstance(v, list) else [v])(
                       r.visit(b))]
    if not r.done:
        return 0
    cls.body.remove(callee)
    ast.fix_missing_locations(tree)
    return 1


class _PopToDel(ast.NodeTransformer):
    n = 0

    def visit_Expr(self, st):
        c = st.value
        if isinstance(c, ast.Call) and isinstance(c.func, ast.Attribute) \
                and c.func.attr == 'pop' and len(c.args) == 1 and \
                not c.keywords and not isinstance(c.args[0], ast.Starred):
            self.n += 1
            return ast.copy_location(ast.Delete(targets=[ast.Subscript(
                value=c.func.value, slice=c.args[0], ctx=ast.Del())]), st)
        return st


def _t_pop_to_del(tree, fn):
    t = _PopToDel()
    t.visit(tree)
    ast.fix_missing_locations(tree)
    return t.n


def _t_key_constants(tree, fn):
    import re
    keys = {}

    def name_of(v):
        return '_KEY_' + re.sub(r'[^A-Za-z0-9]', '_', v).upper()

    def want(c):
        return isinstance(c, ast.Constant) and isinstance(c.value, str) and \
            re.fullmatch(r'[A-Za-z][A-Za-z0-9_]*', c.value)
    sites = []
    for f in ast.walk(tree):
        if not isinstance(f, ast.FunctionDef):
            continue
        for n in ast.walk(f):
            if isinstance(n, ast.Subscript) and want(n.slice):
                sites.append((n, 'slice', None))
            elif isinstance(n, ast.Dict):
                for i, k in enumerate(n.keys):
                    if k is not None and want(k):
                        sites.append((n.keys, i, None))
            elif isinstance(n, ast.Call) and isinstance(
                    n.func, ast.Attribute) and n.func.attr in (
                        'get', 'pop', 'setdefault') and n.args and \
                    want(n.args[0]):
                sites.append((n.args, 0, None))
    for holder, k, _ in sites:
        c = getattr(holder, k) if isinstance(k, str) else holder[k]
        keys[c.value] = name_of(c.value)
        new = ast.copy_location(ast.Name(id=keys[c.value], ctx=ast.Load()),
                                c)
        if isinstance(k, str):
            setattr(holder, k, new)
        else:
            holder[k] = new
    if not keys:
        return 0
    # after the imports / docstring
    at = 0
    for i, st in enumerate(tree.body):
        if isinstance(st, (ast.Import, ast.ImportFrom)) or (
                isinstance(st, ast.Expr) and isinstance(
                    st.value, ast.Constant)):
            at = i + 1
    tree.body[at:at] = [ast.Assign(
        targets=[ast.Name(id=nm, ctx=ast.Store())],
        value=ast.Constant(value=v), lineno=1)
        for v, nm in sorted(keys.items())]
    ast.fix_missing_locations(tree)
    return len(sites)


def _t_extract_tail(tree, fn):
    n = 0
    for owner in [tree] + [c for c in tree.body
                           if isinstance(c, ast.ClassDef)]:
        new_defs = []
        for f in list(owner.body):
            if not isinstance(f, ast.FunctionDef) or f.name.startswith('__'):
                continue
            if any(isinstance(x, (ast.Yield, ast.YieldFrom, ast.Lambda,
                                  ast.Global, ast.Nonlocal, ast.NamedExpr))
                   for x in ast.walk(f)) or any(
                    isinstance(x, (ast.FunctionDef, ast.ClassDef)) and
                    x is not f for x in ast.walk(f)):
                continue
            decos = [d.id for d in f.decorator_list
                     if isinstance(d, ast.Name)]
            if len(decos) != len(f.decorator_list) or any(
                    d != 'staticmethod' for d in decos):
                continue
            a = f.args
            if a.vararg or a.kwarg or a.kwonlyargs or a.posonlyargs:
                continue
            body = f.body
            doc = 1 if (body and isinstance(body[0], ast.Expr) and
                        isinstance(body[0].value, ast.Constant) and
                        isinstance(body[0].value.value, str)) else 0
            core = body[doc:]
            if len(core) < 4:
                continue
            cut = len(core) // 2
            head, tail = core[:cut], core[cut:]
            params = [x.arg for x in a.args]
            is_cls = isinstance(owner, ast.ClassDef)
            is_static = 'staticmethod' in decos or not is_cls
            self_name = None if is_static else params[0]
            # names bound unconditionally at top level of the head
            sure = set(params)
            for st in head:
                if isinstance(st, ast.Assign):
                    for t in st.targets:
                        for x in ast.walk(t):
                            if isinstance(x, ast.Name):
                                sure.add(x.id)
                elif isinstance(st, ast.With):
                    pass
            head_stores = {x.id for st in head for x in ast.walk(st)
                           if isinstance(x, ast.Name) and isinstance(
                               x.ctx, (ast.Store, ast.Del))}
            head_stores |= {h.name for st in head for h in ast.walk(st)
                            if isinstance(h, ast.ExceptHandler) and h.name}
            loads = []
            for st in tail:
                for x in ast.walk(st):
                    if isinstance(x, ast.Name) and isinstance(
                            x.ctx, ast.Load) and x.id not in loads:
                        loads.append(x.id)
            # comprehension variables are not free variables
            passed = [v for v in loads
                      if (v in head_stores or v in params) and
                      v != self_name]
            if any(v not in sure for v in passed):
                continue
            # a tail that stores to a passed name before reading is fine
            hname = '_tail_of_' + f.name.lstrip('_')
            hargs = ([ast.arg(arg=self_name)] if self_name else []) + [
                ast.arg(arg=v) for v in passed]
            helper = ast.FunctionDef(
                name=hname, args=ast.arguments(
                    posonlyargs=[], args=hargs, kwonlyargs=[],
                    kw_defaults=[], defaults=[]),
                body=tail, decorator_list=(
                    [ast.Name(id='staticmethod', ctx=ast.Load())]
                    if (is_static and is_cls) else []),
                returns=None, type_comment=None, type_params=[],
                lineno=tail[0].lineno)
            if self_name:
                func = ast.Attribute(value=ast.Name(id=self_name,
                                                    ctx=ast.Load()),
                                     attr=hname, ctx=ast.Load())
            elif is_cls:
                func = ast.Attribute(value=ast.Name(id=owner.name,
                                                    ctx=ast.Load()),
                                     attr=hname, ctx=ast.Load())
            else:
                func = ast.Name(id=hname, ctx=ast.Load())
            call = ast.Call(func=func, args=[
                ast.Name(id=v, ctx=ast.Load()) for v in passed], keywords=[])
            f.body = body[:doc] + head + [ast.Return(value=call,
                                                     lineno=tail[0].lineno)]
            new_defs.append((f, helper))
            n += 1
        for f, helper in new_defs:
            i = owner.body.index(f)
            owner.body.insert(i + 1, helper)
    ast.fix_missing_locations(tree)
    return n
